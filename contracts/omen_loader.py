"""
Contracts for the guesser's OMEN rule loader (C07, C11, C18: "read back identically by ... the OMEN loaders").

  lib_guesser.omen.input_file_io:_load_ngrams   verified for name == 'ip' (IP.level) and name == 'cp' (CP.level)

For every file content (lines of the form  level TAB n-gram): after loading IP.level, grammar['ip'][l] is exactly the list, in file order, of
the n-grams of the lines whose level is l (for every l in 0..max_level); after loading CP.level, grammar['cp'][prefix][l] is exactly the list,
in file order, of the last characters of the n-grams with that prefix and level, and a prefix / level is present exactly when some line has it.
The n-gram is the second TAB-separated field of the line with only its line terminator removed (str.rstrip('\\n\\r'), str.split('\\t') and int()
are uninterpreted functions of their arguments, so any other way of trimming the line is a different term).
"""
import z3

from pyvc import theory as T
from pyvc import builtins as B
from pyvc.theory import TInt, TBool, TStr, TList, TRec, TDict, SpecFun
from pyvc.engine import Contract, Case, LoopSpec, ZV, PNone, zstr

IO = 'lib_guesser.omen.input_file_io'
LSTR = TList(TStr)
LVL_LISTS = TDict(TInt, LSTR)
CP_TAB = TDict(TStr, LVL_LISTS)
GRAM_IP = TRec({'max_level': TInt, 'alphabet_encoding': TStr, 'ip': LVL_LISTS})
GRAM_CP = TRec({'max_level': TInt, 'alphabet_encoding': TStr, 'cp': CP_TAB})


def rstrip_nl(s):
    key = 'rstrip' + '_%s' % ''.join('%02x' % ord(c) for c in '\n\r')
    if key not in B._strip_fns:
        B._strip_fns[key] = z3.Function('s_' + key, T.Str, T.Str)
    return B._strip_fns[key](s)


def fld(line, i):
    return z3.Select(LSTR.arr(B.s_split_tab(rstrip_nl(line))), i)


def lvl_of(line):
    return B.s_toint(fld(line, 0))


def line_at(L, k):
    return z3.Select(LSTR.arr(L), k)


def app(lst, x):
    return LSTR.mk(LSTR.len(lst) + 1, z3.Store(LSTR.arr(lst), LSTR.len(lst), x))


def wf_lines(L, max_level):
    k = z3.Int('k!wl')
    line = line_at(L, k)
    return z3.ForAll([k], z3.Implies(z3.And(0 <= k, k < LSTR.len(L)),
                                     z3.And(LSTR.len(B.s_split_tab(rstrip_nl(line))) == 2, B.s_isint(fld(line, 0)),
                                            0 <= lvl_of(line), lvl_of(line) <= max_level, T.slen(fld(line, 1)) >= 1)),
                     patterns=[line_at(L, k)])


def path_of(c):
    return B.pjoin(c.base_directory.term, c.filename.term)


# ---------------------------------------------------------------------------------------------- IP.level
IpList = SpecFun('OmenIpList', [LSTR.sort(), T.IntS, T.IntS], LSTR.sort(),
                 lambda L, k, l: z3.If(k <= 0, LSTR.mk(z3.IntVal(0), z3.Select(z3.K(T.IntS, z3.K(T.IntS, T.S_EMPTY)), 0)) if False else _empty_lstr(),
                                       z3.If(lvl_of(line_at(L, k - 1)) == l, app(IpList(L, k - 1, l), fld(line_at(L, k - 1), 1)), IpList(L, k - 1, l))),
                 doc='the n-grams of the first k lines whose level is l, in file order', quantified=True)


def _empty_lstr():
    from pyvc.engine import empty_list
    return empty_list(LSTR)


def ip_table(tab, L, k, max_level):
    l = z3.Int('l!ip')
    return z3.ForAll([l], z3.And(LVL_LISTS.has(tab, l) == z3.And(0 <= l, l <= max_level),
                                 z3.Implies(z3.And(0 <= l, l <= max_level), LVL_LISTS.get(tab, l) == IpList(L, k, l))),
                     patterns=[IpList(L, k, l)])


def _ip_post(c):
    g1 = c.after['grammar']
    L = B.fs_lines(path_of(c))
    return [('ip_table_is_the_file', ip_table(g1.fields['ip'].term, L, LSTR.len(L), c.grammar.fields['max_level'].term)),
            ('other_keys_kept', z3.And(g1.fields['max_level'].term == c.grammar.fields['max_level'].term,
                                       g1.fields['alphabet_encoding'].term == c.grammar.fields['alphabet_encoding'].term))]


def _ip_inv_init(L):
    l = z3.Int('l!ii')
    tab = L.grammar.fields['ip'].term
    return [('levels_so_far', z3.ForAll([l], z3.And(LVL_LISTS.has(tab, l) == z3.And(0 <= l, l < L.i),
                                                    z3.Implies(z3.And(0 <= l, l < L.i), LVL_LISTS.get(tab, l) == _empty_lstr())),
                                        patterns=[LVL_LISTS.has(tab, l), LVL_LISTS.get(tab, l)])),
            ('other_keys_kept', z3.And(L.grammar.fields['max_level'].term == L.entry.args['grammar'].fields['max_level'].term,
                                       L.grammar.fields['alphabet_encoding'].term == L.entry.args['grammar'].fields['alphabet_encoding'].term))]


def ip_keys(tab, max_level):
    l = z3.Int('l!ik')
    return z3.ForAll([l], LVL_LISTS.has(tab, l) == z3.And(0 <= l, l <= max_level), patterns=[LVL_LISTS.has(tab, l)])


def ip_vals(tab, L, k, max_level):
    l = z3.Int('l!iv')
    return z3.ForAll([l], z3.Implies(z3.And(0 <= l, l <= max_level), LVL_LISTS.get(tab, l) == IpList(L, k, l)), patterns=[IpList(L, k, l), LVL_LISTS.get(tab, l)])


def _ip_inv_file(L):
    lines = B.fs_lines(path_of(L.entry))
    ml = L.entry.args['grammar'].fields['max_level'].term
    return [('keys', ip_keys(L.grammar.fields['ip'].term, ml)), ('vals', ip_vals(L.grammar.fields['ip'].term, lines, L.i, ml)),
            ('other_keys_kept', z3.And(L.grammar.fields['max_level'].term == L.entry.args['grammar'].fields['max_level'].term,
                                       L.grammar.fields['alphabet_encoding'].term == L.entry.args['grammar'].fields['alphabet_encoding'].term))]


_ip = Contract(
    IO + ':_load_ngrams#ip',
    params={'base_directory': TStr, 'filename': TStr, 'grammar': GRAM_IP, 'name': TStr},
    requires=lambda c: [('max_level', c.grammar.fields['max_level'].term >= 0),
                        ('wf_lines', wf_lines(B.fs_lines(path_of(c)), c.grammar.fields['max_level'].term))],
    cases=[Case('loaded', lambda c: PNone(), _ip_post)],
    mutates=('grammar',),
    loops={0: LoopSpec(fingerprint="for level in range(0,grammar['max_level']+1)", inv=_ip_inv_init),
           1: LoopSpec(fingerprint='for line in file', inv=_ip_inv_file)},
    raises=('IOError', 'ValueError', 'Exception'),
    note="C07/C11.loader.ip: grammar['ip'][l] is the list, in file order, of the n-grams of the IP.level lines whose level is l; the n-gram is the "
         'second field of the line with only its terminator removed',
)
_ip.variants = [{'name': zstr('ip')}]


# ---------------------------------------------------------------------------------------------- CP.level
def ngram_of(line):
    return fld(line, 1)


def prefix_of(line):
    g = ngram_of(line)
    return T.sslice(g, z3.IntVal(0), T.slen(g) - 1)


def last_of(line):
    g = ngram_of(line)
    return T.schar(T.sch(g, T.slen(g) - 1))


HasP = SpecFun('OmenCpHasP', [LSTR.sort(), T.IntS, T.Str], z3.BoolSort(),
               lambda L, k, p: z3.If(k <= 0, z3.BoolVal(False), z3.Or(HasP(L, k - 1, p), prefix_of(line_at(L, k - 1)) == p)),
               doc='some of the first k lines has an n-gram with prefix p', quantified=True)
HasPL = SpecFun('OmenCpHasPL', [LSTR.sort(), T.IntS, T.Str, T.IntS], z3.BoolSort(),
                lambda L, k, p, l: z3.If(k <= 0, z3.BoolVal(False),
                                         z3.Or(HasPL(L, k - 1, p, l), z3.And(prefix_of(line_at(L, k - 1)) == p, lvl_of(line_at(L, k - 1)) == l))),
                doc='some of the first k lines has prefix p at level l', quantified=True)
CpList = SpecFun('OmenCpList', [LSTR.sort(), T.IntS, T.Str, T.IntS], LSTR.sort(),
                 lambda L, k, p, l: z3.If(k <= 0, _empty_lstr(),
                                          z3.If(z3.And(prefix_of(line_at(L, k - 1)) == p, lvl_of(line_at(L, k - 1)) == l),
                                                app(CpList(L, k - 1, p, l), last_of(line_at(L, k - 1))), CpList(L, k - 1, p, l))),
                 doc='the last characters of the n-grams with prefix p and level l among the first k lines, in file order', quantified=True)


def cp_table(tab, L, k):
    p = z3.Const('p!cp', T.Str)
    l = z3.Int('l!cp')
    inner = CP_TAB.get(tab, p)
    return [('prefixes', z3.ForAll([p], CP_TAB.has(tab, p) == HasP(L, k, p), patterns=[CP_TAB.has(tab, p), HasP(L, k, p)])),
            ('levels', z3.ForAll([p, l], z3.Implies(HasP(L, k, p), LVL_LISTS.has(inner, l) == HasPL(L, k, p, l)),
                                 patterns=[LVL_LISTS.has(inner, l), HasPL(L, k, p, l)])),
            ('letters', z3.ForAll([p, l], z3.Implies(HasPL(L, k, p, l), LVL_LISTS.get(inner, l) == CpList(L, k, p, l)),
                                  patterns=[LVL_LISTS.get(inner, l), CpList(L, k, p, l)]))]


def _cp_keep(L):
    e = L.entry.args['grammar']
    return ('other_keys_kept', z3.And(L.grammar.fields['max_level'].term == e.fields['max_level'].term,
                                      L.grammar.fields['alphabet_encoding'].term == e.fields['alphabet_encoding'].term))


_cp = Contract(
    IO + ':_load_ngrams#cp',
    params={'base_directory': TStr, 'filename': TStr, 'grammar': GRAM_CP, 'name': TStr},
    requires=lambda c: [('max_level', c.grammar.fields['max_level'].term >= 0),
                        ('wf_lines', wf_lines(B.fs_lines(path_of(c)), c.grammar.fields['max_level'].term))],
    cases=[Case('loaded', lambda c: PNone(),
                lambda c: cp_table(c.after['grammar'].fields['cp'].term, B.fs_lines(path_of(c)), LSTR.len(B.fs_lines(path_of(c)))) + [
                    ('other_keys_kept', z3.And(c.after['grammar'].fields['max_level'].term == c.grammar.fields['max_level'].term,
                                               c.after['grammar'].fields['alphabet_encoding'].term == c.grammar.fields['alphabet_encoding'].term))])],
    mutates=('grammar',),
    loops={0: LoopSpec(fingerprint="for level in range(0,grammar['max_level']+1)", inv=lambda L: []),
           1: LoopSpec(fingerprint='for line in file',
                       inv=lambda L: cp_table(L.grammar.fields['cp'].term, B.fs_lines(path_of(L.entry)), L.i) + [_cp_keep(L)])},
    raises=('IOError', 'ValueError', 'Exception'),
    note="C07/C11.loader.cp: a prefix / level is present in grammar['cp'] exactly when some CP.level line has it, and grammar['cp'][prefix][l] is the list, in file "
         'order, of the last characters of the n-grams with that prefix and level',
)
_cp.variants = [{'name': zstr('cp')}]


# lemmas (proved by induction over k for arbitrary L, p, l; used in universally quantified form as loop hints)
from pyvc.lemma import Schema     # noqa: E402
pl_implies_p = Schema('C07.cp.level_implies_prefix', [('L', LSTR.sort()), ('k', T.IntS), ('p', T.Str), ('l', T.IntS)],
                      lambda L, k, p, l: ([], z3.Implies(HasPL(L, k, p, l), HasP(L, k, p))), induction='k',
                      doc='a prefix seen at some level has been seen')
absent_is_empty = Schema('C07.cp.absent_is_empty', [('L', LSTR.sort()), ('k', T.IntS), ('p', T.Str), ('l', T.IntS)],
                         lambda L, k, p, l: ([], z3.Implies(z3.Not(HasPL(L, k, p, l)), CpList(L, k, p, l) == _empty_lstr())), induction='k',
                         doc='no line with prefix p at level l so far: the list of letters is empty')


def _cp_hints(L):
    lines = B.fs_lines(path_of(L.entry))
    p = z3.Const('p!ch', T.Str)
    l = z3.Int('l!ch')
    k = L.i
    return [z3.ForAll([p, l], z3.Implies(k >= 0, pl_implies_p.inst(lines, k, p, l)), patterns=[HasPL(lines, k, p, l)]),
            z3.ForAll([p, l], z3.Implies(k >= 0, absent_is_empty.inst(lines, k, p, l)), patterns=[CpList(lines, k, p, l)])]


_cp.loops[1].hints = _cp_hints


def lemmas():
    return pl_implies_p.lemmas() + absent_is_empty.lemmas()
