"""
Contracts for the guesser's OMEN rule loader (C07, C11, C18: "read back identically by ... the OMEN loaders").

  lib_guesser.omen.input_file_io:_load_ngrams   verified for name == 'ip' (IP.level) and name == 'cp' (CP.level)

For every file content (lines of the form  level TAB n-gram): after loading IP.level, grammar['ip'][l] is exactly the list, in file order, of
the n-grams of the lines whose level is l (for every l in 0..max_level); after loading CP.level, grammar['cp'][prefix][l] is exactly the list,
in file order, of the last characters of the n-grams with that prefix and level, and a prefix / level is present exactly when some line has it.
The n-gram is the second TAB-separated field of the line with only its line terminator removed (str.rstrip('\\n\\r'), str.split('\\t') and int()
are uninterpreted functions of their arguments, so any other way of trimming the line is a different term).
"""
import z3

from pyvc import theory as T
from pyvc import builtins as B
from pyvc.theory import TInt, TBool, TStr, TList, TRec, TDict, SpecFun
from pyvc.engine import Contract, Case, LoopSpec, ZV, PNone, zstr, zbool

IO = 'lib_guesser.omen.input_file_io'
LSTR = TList(TStr)
LVL_LISTS = TDict(TInt, LSTR)
CP_TAB = TDict(TStr, LVL_LISTS)
GRAM_IP = TRec({'max_level': TInt, 'alphabet_encoding': TStr, 'ip': LVL_LISTS})
GRAM_CP = TRec({'max_level': TInt, 'alphabet_encoding': TStr, 'cp': CP_TAB})


def rstrip_nl(s):
    key = 'rstrip' + '_%s' % ''.join('%02x' % ord(c) for c in '\n\r')
    if key not in B._strip_fns:
        B._strip_fns[key] = z3.Function('s_' + key, T.Str, T.Str)
    return B._strip_fns[key](s)


def fld(line, i):
    return z3.Select(LSTR.arr(B.s_split_tab(rstrip_nl(line))), i)


def lvl_of(line):
    return B.s_toint(fld(line, 0))


def line_at(L, k):
    return z3.Select(LSTR.arr(L), k)


def app(lst, x):
    return LSTR.mk(LSTR.len(lst) + 1, z3.Store(LSTR.arr(lst), LSTR.len(lst), x))


def wf_lines(L, max_level):
    k = z3.Int('k!wl')
    line = line_at(L, k)
    return z3.ForAll([k], z3.Implies(z3.And(0 <= k, k < LSTR.len(L)),
                                     z3.And(LSTR.len(B.s_split_tab(rstrip_nl(line))) == 2, B.s_isint(fld(line, 0)),
                                            0 <= lvl_of(line), lvl_of(line) <= max_level, T.slen(fld(line, 1)) >= 1)),
                     patterns=[line_at(L, k)])


def path_of(c):
    return B.pjoin(c.base_directory.term, c.filename.term)


# ---------------------------------------------------------------------------------------------- IP.level
IpList = SpecFun('OmenIpList', [LSTR.sort(), T.IntS, T.IntS], LSTR.sort(),
                 lambda L, k, l: z3.If(k <= 0, LSTR.mk(z3.IntVal(0), z3.Select(z3.K(T.IntS, z3.K(T.IntS, T.S_EMPTY)), 0)) if False else _empty_lstr(),
                                       z3.If(lvl_of(line_at(L, k - 1)) == l, app(IpList(L, k - 1, l), fld(line_at(L, k - 1), 1)), IpList(L, k - 1, l))),
                 doc='the n-grams of the first k lines whose level is l, in file order', quantified=True)


def _empty_lstr():
    from pyvc.engine import empty_list
    return empty_list(LSTR)


def ip_table(tab, L, k, max_level):
    l = z3.Int('l!ip')
    return z3.ForAll([l], z3.And(LVL_LISTS.has(tab, l) == z3.And(0 <= l, l <= max_level),
                                 z3.Implies(z3.And(0 <= l, l <= max_level), LVL_LISTS.get(tab, l) == IpList(L, k, l))),
                     patterns=[IpList(L, k, l)])


def _ip_post(c):
    g1 = c.after['grammar']
    L = B.fs_lines(path_of(c))
    return [('ip_table_is_the_file', ip_table(g1.fields['ip'].term, L, LSTR.len(L), c.grammar.fields['max_level'].term)),
            ('other_keys_kept', z3.And(g1.fields['max_level'].term == c.grammar.fields['max_level'].term,
                                       g1.fields['alphabet_encoding'].term == c.grammar.fields['alphabet_encoding'].term))]


def _ip_inv_init(L):
    l = z3.Int('l!ii')
    tab = L.grammar.fields['ip'].term
    return [('levels_so_far', z3.ForAll([l], z3.And(LVL_LISTS.has(tab, l) == z3.And(0 <= l, l < L.i),
                                                    z3.Implies(z3.And(0 <= l, l < L.i), LVL_LISTS.get(tab, l) == _empty_lstr())),
                                        patterns=[LVL_LISTS.has(tab, l), LVL_LISTS.get(tab, l)])),
            ('other_keys_kept', z3.And(L.grammar.fields['max_level'].term == L.entry.args['grammar'].fields['max_level'].term,
                                       L.grammar.fields['alphabet_encoding'].term == L.entry.args['grammar'].fields['alphabet_encoding'].term))]


def ip_keys(tab, max_level):
    l = z3.Int('l!ik')
    return z3.ForAll([l], LVL_LISTS.has(tab, l) == z3.And(0 <= l, l <= max_level), patterns=[LVL_LISTS.has(tab, l)])


def ip_vals(tab, L, k, max_level):
    l = z3.Int('l!iv')
    return z3.ForAll([l], z3.Implies(z3.And(0 <= l, l <= max_level), LVL_LISTS.get(tab, l) == IpList(L, k, l)), patterns=[IpList(L, k, l), LVL_LISTS.get(tab, l)])


def _ip_inv_file(L):
    lines = B.fs_lines(path_of(L.entry))
    ml = L.entry.args['grammar'].fields['max_level'].term
    return [('keys', ip_keys(L.grammar.fields['ip'].term, ml)), ('vals', ip_vals(L.grammar.fields['ip'].term, lines, L.i, ml)),
            ('other_keys_kept', z3.And(L.grammar.fields['max_level'].term == L.entry.args['grammar'].fields['max_level'].term,
                                       L.grammar.fields['alphabet_encoding'].term == L.entry.args['grammar'].fields['alphabet_encoding'].term))]


_ip = Contract(
    IO + ':_load_ngrams#ip',
    params={'base_directory': TStr, 'filename': TStr, 'grammar': GRAM_IP, 'name': TStr},
    requires=lambda c: [('max_level', c.grammar.fields['max_level'].term >= 0),
                        ('wf_lines', wf_lines(B.fs_lines(path_of(c)), c.grammar.fields['max_level'].term))],
    cases=[Case('loaded', lambda c: PNone(), _ip_post)],
    mutates=('grammar',),
    loops={0: LoopSpec(fingerprint="for level in range(0,grammar['max_level']+1)", inv=_ip_inv_init),
           1: LoopSpec(fingerprint='for line in file', inv=_ip_inv_file)},
    raises=('IOError', 'ValueError', 'Exception'),
    note="C07/C11.loader.ip: grammar['ip'][l] is the list, in file order, of the n-grams of the IP.level lines whose level is l; the n-gram is the "
         'second field of the line with only its terminator removed',
)
_ip.variants = [{'name': zstr('ip')}]


# ---------------------------------------------------------------------------------------------- CP.level
def ngram_of(line):
    return fld(line, 1)


def prefix_of(line):
    g = ngram_of(line)
    return T.sslice(g, z3.IntVal(0), T.slen(g) - 1)


def last_of(line):
    g = ngram_of(line)
    return T.schar(T.sch(g, T.slen(g) - 1))


HasP = SpecFun('OmenCpHasP', [LSTR.sort(), T.IntS, T.Str], z3.BoolSort(),
               lambda L, k, p: z3.If(k <= 0, z3.BoolVal(False), z3.Or(HasP(L, k - 1, p), prefix_of(line_at(L, k - 1)) == p)),
               doc='some of the first k lines has an n-gram with prefix p', quantified=True)
HasPL = SpecFun('OmenCpHasPL', [LSTR.sort(), T.IntS, T.Str, T.IntS], z3.BoolSort(),
                lambda L, k, p, l: z3.If(k <= 0, z3.BoolVal(False),
                                         z3.Or(HasPL(L, k - 1, p, l), z3.And(prefix_of(line_at(L, k - 1)) == p, lvl_of(line_at(L, k - 1)) == l))),
                doc='some of the first k lines has prefix p at level l', quantified=True)
CpList = SpecFun('OmenCpList', [LSTR.sort(), T.IntS, T.Str, T.IntS], LSTR.sort(),
                 lambda L, k, p, l: z3.If(k <= 0, _empty_lstr(),
                                          z3.If(z3.And(prefix_of(line_at(L, k - 1)) == p, lvl_of(line_at(L, k - 1)) == l),
                                                app(CpList(L, k - 1, p, l), last_of(line_at(L, k - 1))), CpList(L, k - 1, p, l))),
                 doc='the last characters of the n-grams with prefix p and level l among the first k lines, in file order', quantified=True)


def cp_table(tab, L, k):
    p = z3.Const('p!cp', T.Str)
    l = z3.Int('l!cp')
    inner = CP_TAB.get(tab, p)
    return [('prefixes', z3.ForAll([p], CP_TAB.has(tab, p) == HasP(L, k, p), patterns=[CP_TAB.has(tab, p), HasP(L, k, p)])),
            ('levels', z3.ForAll([p, l], z3.Implies(HasP(L, k, p), LVL_LISTS.has(inner, l) == HasPL(L, k, p, l)),
                                 patterns=[LVL_LISTS.has(inner, l), HasPL(L, k, p, l)])),
            ('letters', z3.ForAll([p, l], z3.Implies(HasPL(L, k, p, l), LVL_LISTS.get(inner, l) == CpList(L, k, p, l)),
                                  patterns=[LVL_LISTS.get(inner, l), CpList(L, k, p, l)]))]


def _cp_keep(L):
    e = L.entry.args['grammar']
    return ('other_keys_kept', z3.And(L.grammar.fields['max_level'].term == e.fields['max_level'].term,
                                      L.grammar.fields['alphabet_encoding'].term == e.fields['alphabet_encoding'].term))


_cp = Contract(
    IO + ':_load_ngrams#cp',
    params={'base_directory': TStr, 'filename': TStr, 'grammar': GRAM_CP, 'name': TStr},
    requires=lambda c: [('max_level', c.grammar.fields['max_level'].term >= 0),
                        ('wf_lines', wf_lines(B.fs_lines(path_of(c)), c.grammar.fields['max_level'].term))],
    cases=[Case('loaded', lambda c: PNone(),
                lambda c: cp_table(c.after['grammar'].fields['cp'].term, B.fs_lines(path_of(c)), LSTR.len(B.fs_lines(path_of(c)))) + [
                    ('other_keys_kept', z3.And(c.after['grammar'].fields['max_level'].term == c.grammar.fields['max_level'].term,
                                               c.after['grammar'].fields['alphabet_encoding'].term == c.grammar.fields['alphabet_encoding'].term))])],
    mutates=('grammar',),
    loops={0: LoopSpec(fingerprint="for level in range(0,grammar['max_level']+1)", inv=lambda L: []),
           1: LoopSpec(fingerprint='for line in file',
                       inv=lambda L: cp_table(L.grammar.fields['cp'].term, B.fs_lines(path_of(L.entry)), L.i) + [_cp_keep(L)])},
    raises=('IOError', 'ValueError', 'Exception'),
    note="C07/C11.loader.cp: a prefix / level is present in grammar['cp'] exactly when some CP.level line has it, and grammar['cp'][prefix][l] is the list, in file "
         'order, of the last characters of the n-grams with that prefix and level',
)
_cp.variants = [{'name': zstr('cp')}]


# lemmas (proved by induction over k for arbitrary L, p, l; used in universally quantified form as loop hints)
from pyvc.lemma import Schema     # noqa: E402
pl_implies_p = Schema('C07.cp.level_implies_prefix', [('L', LSTR.sort()), ('k', T.IntS), ('p', T.Str), ('l', T.IntS)],
                      lambda L, k, p, l: ([], z3.Implies(HasPL(L, k, p, l), HasP(L, k, p))), induction='k',
                      doc='a prefix seen at some level has been seen')
absent_is_empty = Schema('C07.cp.absent_is_empty', [('L', LSTR.sort()), ('k', T.IntS), ('p', T.Str), ('l', T.IntS)],
                         lambda L, k, p, l: ([], z3.Implies(z3.Not(HasPL(L, k, p, l)), CpList(L, k, p, l) == _empty_lstr())), induction='k',
                         doc='no line with prefix p at level l so far: the list of letters is empty')


def _cp_hints(L):
    lines = B.fs_lines(path_of(L.entry))
    p = z3.Const('p!ch', T.Str)
    l = z3.Int('l!ch')
    k = L.i
    return [z3.ForAll([p, l], z3.Implies(k >= 0, pl_implies_p.inst(lines, k, p, l)), patterns=[HasPL(lines, k, p, l)]),
            z3.ForAll([p, l], z3.Implies(k >= 0, absent_is_empty.inst(lines, k, p, l)), patterns=[CpList(lines, k, p, l)])]


_cp.loops[1].hints = _cp_hints


def lemmas():
    return pl_implies_p.lemmas() + absent_is_empty.lemmas()


# =============================================================================================== scorer: OmenScorer._load_omen
SC = 'lib_scorer.omen_scorer:OmenScorer'
from pyvc.engine import ObjShape     # noqa: E402
LEVELMAP = TDict(TStr, TInt)
LINT = TList(TInt)
SC_LOAD = ObjShape(SC, {'encoding': TStr, 'ip': LEVELMAP, 'cp': LEVELMAP, 'ln': LINT, 'ngram': TInt})

HasKey = SpecFun('OmenHasKey', [LSTR.sort(), T.IntS, T.Str], z3.BoolSort(),
                 lambda L, k, s: z3.If(k <= 0, z3.BoolVal(False), z3.Or(HasKey(L, k - 1, s), ngram_of(line_at(L, k - 1)) == s)),
                 doc='some of the first k lines lists the n-gram s', quantified=True)
LastLevel = SpecFun('OmenLastLevel', [LSTR.sort(), T.IntS, T.Str], T.IntS,
                    lambda L, k, s: z3.If(k <= 0, z3.IntVal(0), z3.If(ngram_of(line_at(L, k - 1)) == s, lvl_of(line_at(L, k - 1)), LastLevel(L, k - 1, s))),
                    doc='the level of the last of the first k lines that lists the n-gram s', quantified=True)


def level_map(tab, L, k):
    s = z3.Const('s!lm', T.Str)
    return z3.ForAll([s], z3.And(LEVELMAP.has(tab, s) == HasKey(L, k, s),
                                 z3.Implies(HasKey(L, k, s), LEVELMAP.get(tab, s) == LastLevel(L, k, s))),
                     patterns=[LEVELMAP.has(tab, s), HasKey(L, k, s), LEVELMAP.get(tab, s)])


def ln_line_level(line):
    return B.s_toint(rstrip_nl(line))


LnList = SpecFun('OmenLnList', [LINT.sort(), LSTR.sort(), T.IntS], LINT.sort(),
                 lambda ln0, L, k: z3.If(k <= 0, ln0, LINT.mk(LINT.len(LnList(ln0, L, k - 1)) + 1,
                                                              z3.Store(LINT.arr(LnList(ln0, L, k - 1)), LINT.len(LnList(ln0, L, k - 1)),
                                                                       ln_line_level(line_at(L, k - 1))))),
                 doc='the initial list followed by the levels of the first k lines of LN.level')


def omen_path(base, name):
    return B.pjoin(B.pjoin(base, T.str_lit('Omen')), T.str_lit(name))


def wf_pairs(L):
    k = z3.Int('k!wp')
    line = line_at(L, k)
    return z3.ForAll([k], z3.Implies(z3.And(0 <= k, k < LSTR.len(L)),
                                     z3.And(LSTR.len(B.s_split_tab(rstrip_nl(line))) == 2, B.s_isint(fld(line, 0)), lvl_of(line) >= 0)),
                     patterns=[line_at(L, k)])


def wf_levels(L):
    k = z3.Int('k!wv')
    line = line_at(L, k)
    return z3.ForAll([k], z3.Implies(z3.And(0 <= k, k < LSTR.len(L)), z3.And(B.s_isint(rstrip_nl(line)), ln_line_level(line) >= 0)),
                     patterns=[line_at(L, k)])


def _lo_requires(c):
    b = c.base_directory.term
    empty = z3.Const('s!lo', T.Str)
    return [('fresh_tables', z3.And(z3.ForAll([empty], z3.Not(LEVELMAP.has(c.self.fields['ip'].term, empty)), patterns=[LEVELMAP.has(c.self.fields['ip'].term, empty)]),
                                    z3.ForAll([empty], z3.Not(LEVELMAP.has(c.self.fields['cp'].term, empty)), patterns=[LEVELMAP.has(c.self.fields['cp'].term, empty)]),
                                    c.self.fields['ngram'].term == -1)),
            ('wf_files', z3.And(wf_pairs(B.fs_lines(omen_path(b, 'IP.level'))), wf_pairs(B.fs_lines(omen_path(b, 'CP.level'))),
                                wf_levels(B.fs_lines(omen_path(b, 'LN.level')))))]


def _lo_ensures(c):
    b = c.base_directory.term
    s1 = c.after['self']
    ipL, cpL, lnL = (B.fs_lines(omen_path(b, n)) for n in ('IP.level', 'CP.level', 'LN.level'))
    return [('ip_is_the_file', level_map(s1.fields['ip'].term, ipL, LSTR.len(ipL))),
            ('cp_is_the_file', level_map(s1.fields['cp'].term, cpL, LSTR.len(cpL))),
            ('ln_is_the_file', s1.fields['ln'].term == LnList(c.self.fields['ln'].term, lnL, LSTR.len(lnL))),
            ('ngram_is_the_length_of_the_first_transition', z3.Implies(LSTR.len(cpL) > 0, s1.fields['ngram'].term == T.slen(ngram_of(line_at(cpL, 0))))),
            ('encoding_kept', s1.fields['encoding'].term == c.self.fields['encoding'].term)]


def _lo_inv(which):
    def inv(L):
        b = L.entry.args['base_directory'].term
        s0 = L.entry.args['self']
        s = L.self
        ipL, cpL, lnL = (B.fs_lines(omen_path(b, n)) for n in ('IP.level', 'CP.level', 'LN.level'))
        out = [('encoding_kept', s.fields['encoding'].term == s0.fields['encoding'].term)]
        if which == 'ip':
            out += [('ip_prefix', level_map(s.fields['ip'].term, ipL, L.i)), ('cp_untouched', s.fields['cp'].term == s0.fields['cp'].term),
                    ('ln_untouched', s.fields['ln'].term == s0.fields['ln'].term), ('ngram_untouched', s.fields['ngram'].term == -1)]
        elif which == 'cp':
            out += [('ip_done', level_map(s.fields['ip'].term, ipL, LSTR.len(ipL))), ('cp_prefix', level_map(s.fields['cp'].term, cpL, L.i)),
                    ('ln_untouched', s.fields['ln'].term == s0.fields['ln'].term),
                    ('ngram', z3.If(L.i == 0, s.fields['ngram'].term == -1, s.fields['ngram'].term == T.slen(ngram_of(line_at(cpL, 0)))))]
        else:
            out += [('ip_done', level_map(s.fields['ip'].term, ipL, LSTR.len(ipL))), ('cp_done', level_map(s.fields['cp'].term, cpL, LSTR.len(cpL))),
                    ('ln_prefix', s.fields['ln'].term == LnList(s0.fields['ln'].term, lnL, L.i)),
                    ('ngram', z3.Implies(LSTR.len(cpL) > 0, s.fields['ngram'].term == T.slen(ngram_of(line_at(cpL, 0)))))]
        return out
    return inv


Contract(
    SC + '._load_omen',
    params={'self': SC_LOAD, 'base_directory': TStr},
    requires=_lo_requires,
    ensures=_lo_ensures,
    self_modifies=('ip', 'cp', 'ln', 'ngram'),
    loops={0: LoopSpec(fingerprint='for line in file', inv=_lo_inv('ip')),
           1: LoopSpec(fingerprint='for line in file', inv=_lo_inv('cp')),
           2: LoopSpec(fingerprint='for line in file', inv=_lo_inv('ln'))},
    raises=('IOError', 'ValueError', 'Exception'),
    note='C07/C11.scorer.loader: ip / cp map every n-gram listed in IP.level / CP.level to the level of its (last) line, the n-gram being the second field of the '
         'line with only its terminator removed; ln is extended by the levels of LN.level in file order; ngram is the length of the first CP n-gram',
)


# =============================================================================================== trainer: the IP.level / CP.level writers (statement slices)
OFO = 'lib_trainer.omen.omen_file_output'
import contracts.trainer_io as tio          # noqa: E402  (ghost file system $fs: path -> list of written chunks)
import contracts.omen_keyspace as oks       # noqa: E402  (trainer object shape, dict.items() contract)

W_LV = oks.LV
W_NEXT = oks.NEXT
W_GENT = oks.GENT
W_GRAM = oks.GRAM
W_ITEMS = oks.GITEMS
N_ITEM = TList(T.TTuple([TStr, W_LV]))
next_items = z3.Function('next_items', W_NEXT.sort(), N_ITEM.sort())


def _w_items(eng, e, st, val, valexpr, args, kw):
    if isinstance(val, ZV) and val.shape == W_NEXT:
        it = next_items(val.term)
        st.assume(N_ITEM.len(it) >= 0)
        eng.assumed.add('dict.items(): every present key exactly once with its value (order unspecified)')
        return ZV(N_ITEM, it)
    return oks._g_items(eng, e, st, val, valexpr, args, kw)


def install_writer(eng):
    tio.install(eng)
    eng.builtins['method.items'] = _w_items


FS = tio.FS


def ip_line(g, i):
    el = z3.Select(W_ITEMS.arr(oks.g_items(g)), i)
    return T.scat(T.scat(T.scat(T.sofint(W_GENT.get(oks.GITEM.get(el, 1), 'ip_level')), T.str_lit('\t')), oks.GITEM.get(el, 0)), T.str_lit('\n'))


IpChunks = SpecFun('OmenIpChunks', [W_GRAM.sort(), T.IntS], LSTR.sort(),
                   lambda g, k: z3.If(k <= 0, _empty_lstr(), app(IpChunks(g, k - 1), ip_line(g, k - 1))),
                   doc='the lines written for the first k initial n-grams: level TAB n-gram LF')

_ipw = Contract(
    OFO + ':save_omen_rules_to_disk#ip_writer',
    params={'omen_trainer': oks.TRAINER, 'omen_directory': TStr, 'encoding': TStr, '$fs': FS},
    cases=[Case('written', lambda c: PNone(),
                lambda c: None if not isinstance(c.result, PNone) else [
                    ('one_line_per_initial_ngram', FS.get(c.after['$fs'].term, B.pjoin(c.omen_directory.term, T.str_lit('IP.level'))) ==
                     IpChunks(c.omen_trainer.fields['grammar'].term, W_ITEMS.len(oks.g_items(c.omen_trainer.fields['grammar'].term))))]),
           Case('io_error', lambda c: zbool(False), lambda c: None if isinstance(c.result, PNone) else [('reported', z3.BoolVal(True))])],
    loops={0: LoopSpec(fingerprint='for key, data in omen_trainer.grammar.items()',
                       inv=lambda L: [('lines_so_far', FS.get(L.env['$fs'].term, B.pjoin(L.entry.args['omen_directory'].term, T.str_lit('IP.level'))) ==
                                       IpChunks(L.entry.args['omen_trainer'].fields['grammar'].term, L.i))],
                       extra_writes=['$fs'])},
    raises=(),
    note='C11.writer.ip: IP.level holds one line per entry of the trainer table, in iteration order: its ip_level, TAB, the n-gram, LF (no entry skipped)',
)
_ipw.slice = ('full_path = os.path.join(omen_directory, "IP.level")', 2)


def cp_line(g, i, j):
    el = z3.Select(W_ITEMS.arr(oks.g_items(g)), i)
    nl = next_items(W_GENT.get(oks.GITEM.get(el, 1), 'next_letter'))
    it = z3.Select(N_ITEM.arr(nl), j)
    sh = T.TTuple([TStr, W_LV])
    return T.scat(T.scat(T.scat(T.scat(T.sofint(W_LV.get(sh.get(it, 1), 0)), T.str_lit('\t')), oks.GITEM.get(el, 0)), sh.get(it, 0)), T.str_lit('\n'))


def n_next(g, i):
    el = z3.Select(W_ITEMS.arr(oks.g_items(g)), i)
    return N_ITEM.len(next_items(W_GENT.get(oks.GITEM.get(el, 1), 'next_letter')))


CpInner = SpecFun('OmenCpInner', [W_GRAM.sort(), LSTR.sort(), T.IntS, T.IntS], LSTR.sort(),
                  lambda g, acc, i, j: z3.If(j <= 0, acc, app(CpInner(g, acc, i, j - 1), cp_line(g, i, j - 1))),
                  doc='acc followed by the lines of the first j transitions of the i-th prefix')
CpOuter = SpecFun('OmenCpOuter', [W_GRAM.sort(), T.IntS], LSTR.sort(),
                  lambda g, i: z3.If(i <= 0, _empty_lstr(), CpInner(g, CpOuter(g, i - 1), i - 1, n_next(g, i - 1))),
                  doc='the lines written for the first i prefixes (all their transitions)')


def _cpw_path(L):
    return B.pjoin(L.entry.args['omen_directory'].term, T.str_lit('CP.level'))


_cpw = Contract(
    OFO + ':save_omen_rules_to_disk#cp_writer',
    params={'omen_trainer': oks.TRAINER, 'omen_directory': TStr, 'encoding': TStr, '$fs': FS},
    ensures=lambda c: [('one_line_per_transition', FS.get(c.after['$fs'].term, B.pjoin(c.omen_directory.term, T.str_lit('CP.level'))) ==
                        CpOuter(c.omen_trainer.fields['grammar'].term, W_ITEMS.len(oks.g_items(c.omen_trainer.fields['grammar'].term))))],
    loops={0: LoopSpec(fingerprint='for key, data in omen_trainer.grammar.items()',
                       inv=lambda L: [('lines_so_far', FS.get(L.env['$fs'].term, _cpw_path(L)) == CpOuter(L.entry.args['omen_trainer'].fields['grammar'].term, L.i))],
                       extra_writes=['$fs']),
           1: LoopSpec(fingerprint="for last_letter, level in data['next_letter'].items()",
                       inv=lambda L: [('lines_so_far', FS.get(L.env['$fs'].term, _cpw_path(L)) ==
                                       CpInner(L.entry.args['omen_trainer'].fields['grammar'].term,
                                               CpOuter(L.entry.args['omen_trainer'].fields['grammar'].term, L.env['$i0'].term), L.env['$i0'].term, L.i)),
                                      ('key', z3.And(L.key.term == oks.GITEM.get(z3.Select(W_ITEMS.arr(oks.g_items(L.entry.args['omen_trainer'].fields['grammar'].term)), L.env['$i0'].term), 0)))],
                       extra_writes=['$fs'])},
    raises=('*',),
    note='C11.writer.cp: CP.level holds one line per transition of every prefix, in iteration order: its level, TAB, prefix + letter, LF',
)
_cpw.slice = ('full_path = os.path.join(omen_directory, "CP.level")', 2)


# =============================================================================================== guesser: _load_length (LN.level) and _load_config
LVL_INTS = TDict(TInt, LINT)
GRAM_LN = TRec({'max_level': TInt, 'ln': LVL_INTS})


def _empty_lint():
    from pyvc.engine import empty_list
    return empty_list(LINT)


def appi(lst, x):
    return LINT.mk(LINT.len(lst) + 1, z3.Store(LINT.arr(lst), LINT.len(lst), x))


LnLens = SpecFun('OmenLnLens', [LSTR.sort(), T.IntS, T.IntS, T.IntS], LINT.sort(),
                 lambda L, k, l, m: z3.If(k <= 0, _empty_lint(),
                                          z3.If(z3.And(ln_line_level(line_at(L, k - 1)) == l, k >= m), appi(LnLens(L, k - 1, l, m), k - (m - 1)), LnLens(L, k - 1, l, m))),
                 doc='for the first k lines of LN.level (line k = password length k): the lengths >= min_size whose level is l, as numbers of transitions k - (min_size - 1)',
                 quantified=True)


def ln_table(tab, L, k, max_level, m):
    l = z3.Int('l!ln')
    return [('keys', z3.ForAll([l], LVL_INTS.has(tab, l) == z3.And(0 <= l, l <= max_level), patterns=[LVL_INTS.has(tab, l)])),
            ('vals', z3.ForAll([l], z3.Implies(z3.And(0 <= l, l <= max_level), LVL_INTS.get(tab, l) == LnLens(L, k, l, m)),
                               patterns=[LnLens(L, k, l, m), LVL_INTS.get(tab, l)]))]


def wf_ln(L, max_level):
    k = z3.Int('k!wn')
    line = line_at(L, k)
    return z3.ForAll([k], z3.Implies(z3.And(0 <= k, k < LSTR.len(L)), z3.And(B.s_isint(rstrip_nl(line)), 0 <= ln_line_level(line), ln_line_level(line) <= max_level)),
                     patterns=[line_at(L, k)])


def _ln_init(L):
    l = z3.Int('l!li')
    tab = L.grammar.fields['ln'].term
    return [('levels_so_far', z3.ForAll([l], z3.And(LVL_INTS.has(tab, l) == z3.And(0 <= l, l < L.i),
                                                    z3.Implies(z3.And(0 <= l, l < L.i), LVL_INTS.get(tab, l) == _empty_lint())),
                                        patterns=[LVL_INTS.has(tab, l), LVL_INTS.get(tab, l)])),
            ('max_level_kept', L.grammar.fields['max_level'].term == L.entry.args['grammar'].fields['max_level'].term)]


Contract(
    IO + ':_load_length',
    params={'base_directory': TStr, 'filename': TStr, 'grammar': GRAM_LN, 'name': TStr, 'min_size': TInt},
    requires=lambda c: [('max_level', c.grammar.fields['max_level'].term >= 0), ('min_size', c.min_size.term >= 1),
                        ('wf_lines', wf_ln(B.fs_lines(path_of(c)), c.grammar.fields['max_level'].term))],
    cases=[Case('loaded', lambda c: PNone(),
                lambda c: ln_table(c.after['grammar'].fields['ln'].term, B.fs_lines(path_of(c)), LSTR.len(B.fs_lines(path_of(c))),
                                   c.grammar.fields['max_level'].term, c.min_size.term) +
                [('max_level_kept', c.after['grammar'].fields['max_level'].term == c.grammar.fields['max_level'].term)])],
    mutates=('grammar',),
    loops={0: LoopSpec(fingerprint="for level in range(0,grammar['max_level']+1)", inv=_ln_init),
           1: LoopSpec(fingerprint='for line in file',
                       inv=lambda L: ln_table(L.grammar.fields['ln'].term, B.fs_lines(path_of(L.entry)), L.i, L.entry.args['grammar'].fields['max_level'].term,
                                              L.entry.args['min_size'].term) +
                       [('cursor', L.cur_length.term == L.i + 1),
                        ('max_level_kept', L.grammar.fields['max_level'].term == L.entry.args['grammar'].fields['max_level'].term)])},
    raises=('IOError', 'ValueError', 'Exception'),
    note="C11/C18.loader.ln: grammar['ln'][l] lists, in order, every password length k >= min_size (the n-gram size) whose LN.level line k has level l, as the "
         'number of transitions k - (min_size - 1); shorter lengths are dropped',
).variants = [{'name': zstr('ln')}]


# ---- _load_config: ConfigParser.read(path) modelled here (read_file is in pyvc.builtins)
def _cfg_read(eng, e, st, args, kw):
    """config.read(path): the parser holds the options of that file afterwards (a missing file leaves it empty; not distinguished here)"""
    from pyvc.engine import box
    obj, path = args[0], args[1]
    B._use(eng, 'ConfigParser.read(path) loads fs_config(path)')
    new = ZV(B.CONFIG_OPTS, B.fs_config(box(path, TStr)))
    eng.assign(e.func.value, obj.with_field('opts', new), st)
    return PNone()


def install_config(eng):
    eng.builtins[B.CONFIG_CLS + '.read'] = _cfg_read


GRAM_CFG = TRec({'alphabet_encoding': TStr, 'ngram': TInt, 'max_level': TInt})
K_ENC = B.CONFIG_KEY.mk(T.str_lit('training_settings'), T.str_lit('encoding'))
K_NGRAM = B.CONFIG_KEY.mk(T.str_lit('training_settings'), T.str_lit('ngram'))


def _cfg_ensures(c):
    opts = B.fs_config(path_of(c))
    g1 = c.after['grammar']
    return [('ngram_is_the_saved_ngram_option', g1.fields['ngram'].term == B.s_toint(B.CONFIG_OPTS.get(opts, K_NGRAM))),
            ('encoding_is_the_saved_encoding_option', g1.fields['alphabet_encoding'].term == B.CONFIG_OPTS.get(opts, K_ENC)),
            ('max_level', g1.fields['max_level'].term == 10)]


Contract(
    IO + ':_load_config',
    params={'base_directory': TStr, 'filename': TStr, 'grammar': GRAM_CFG},
    requires=lambda c: [('options_present', z3.And(B.CONFIG_OPTS.has(B.fs_config(path_of(c)), K_ENC), B.CONFIG_OPTS.has(B.fs_config(path_of(c)), K_NGRAM)))],
    ensures=_cfg_ensures,
    mutates=('grammar',),
    raises=('IOError', 'configparser.Error'),
    note="C11.loader.config: the guesser's n-gram size and encoding are the options 'ngram' and 'encoding' of section training_settings of Omen/config.txt "
         '(the options the trainer writes), max_level is 10',
)


# ---- trainer: _save_config writes the options the guesser's _load_config reads
PINFO = TRec({'ngram': TInt, 'encoding': TStr})


def _sc_ok(c):
    from pyvc.engine import ZV as _ZV
    if not (isinstance(c.result, _ZV) and c.result.shape == TBool) or c.result.pyval is False:
        return None
    disk = c.after['$disk'].term
    return [('ngram_option', z3.And(B.CONFIG_OPTS.has(disk, K_NGRAM), B.CONFIG_OPTS.get(disk, K_NGRAM) == T.sofint(c.program_info.fields['ngram'].term))),
            ('encoding_option', z3.And(B.CONFIG_OPTS.has(disk, K_ENC), B.CONFIG_OPTS.get(disk, K_ENC) == c.program_info.fields['encoding'].term))]


Contract(
    OFO + ':_save_config',
    params={'file_name': TStr, 'directory': TStr, 'program_info': PINFO, '$disk': B.CONFIG_OPTS},
    cases=[Case('saved', lambda c: zbool(True), _sc_ok),
           Case('io_error', lambda c: zbool(False), lambda c: None if c.result.pyval is True else [('reported', z3.BoolVal(True))])],
    raises=(),
    note="C11.writer.config: Omen/config.txt holds training_settings.ngram = str(n-gram size) and training_settings.encoding = the ruleset's encoding",
)


# =============================================================================================== scorer: lib_scorer.grammar_io._load_from_file
import contracts.guesser_loader as gld     # noqa: E402  (fields of a terminal line: rstrip() then split on TAB)
SGIO = 'lib_scorer.grammar_io'
PROBMAP = TDict(TStr, T.TF, counter=True)

HasVal = SpecFun('ScorerHasVal', [LSTR.sort(), T.IntS, T.Str], z3.BoolSort(),
                 lambda L, k, s: z3.If(k <= 0, z3.BoolVal(False), z3.Or(HasVal(L, k - 1, s), gld.F0(line_at(L, k - 1)) == s)),
                 doc='some of the first k lines lists the value s', quantified=True)
LastProb = SpecFun('ScorerLastProb', [LSTR.sort(), T.IntS, T.Str], T.F,
                   lambda L, k, s: z3.If(k <= 0, T.F_ZERO, z3.If(gld.F0(line_at(L, k - 1)) == s, B.s_tofloat(gld.F1(line_at(L, k - 1))), LastProb(L, k - 1, s))),
                   doc='the probability on the last of the first k lines that lists the value s', quantified=True)


def prob_map(tab0, tab, L, k):
    s = z3.Const('s!pm', T.Str)
    return z3.ForAll([s], z3.And(PROBMAP.has(tab, s) == z3.Or(PROBMAP.has(tab0, s), HasVal(L, k, s)),
                                 z3.Implies(HasVal(L, k, s), PROBMAP.get(tab, s) == LastProb(L, k, s)),
                                 z3.Implies(z3.Not(HasVal(L, k, s)), PROBMAP.get(tab, s) == PROBMAP.get(tab0, s))),
                     patterns=[PROBMAP.has(tab, s), HasVal(L, k, s), PROBMAP.get(tab, s)])


def _slf_ok(c):
    if not (isinstance(c.result, ZV) and c.result.shape == TBool) or c.result.pyval is False:
        return None
    L = B.fs_lines(c.filename.term)
    return [('every_value_with_its_probability', prob_map(c.grammar_counter.term, c.after['grammar_counter'].term, L, LSTR.len(L)))]


Contract(
    SGIO + ':_load_from_file',
    params={'grammar_counter': PROBMAP, 'filename': TStr, 'encoding': TStr},
    requires=lambda c: [('wf_lines', gld.wf_value_lines(B.fs_lines(c.filename.term)))],
    cases=[Case('loaded', lambda c: zbool(True), _slf_ok),
           Case('failed', lambda c: zbool(False), lambda c: None if c.result.pyval is True else [('reported', z3.BoolVal(True))])],
    mutates=('grammar_counter',),
    loops={0: LoopSpec(fingerprint='for value in file',
                       inv=lambda L: [('values_so_far', prob_map(L.entry.args['grammar_counter'].term, L.grammar_counter.term, B.fs_lines(L.entry.args['filename'].term), L.i))])},
    raises=(),
    note="C07.scorer.reader: the scorer's table maps every value listed in the file (first field, line terminator and trailing blanks of the LINE removed by rstrip()) "
         'to float of the second field of its last line; entries of other values are untouched',
)
