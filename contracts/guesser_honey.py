"""
Sidecar contracts for honeyword / random-walk mode (C16): PcfgGrammar.random_walk,
_honeyword_recursive_guess, create_guesses(is_honeyword=True), HoneywordSession.__init__/run.

Randomness is modelled by its contract: random.seed(s) resets the generator to a state that is a
function of s; random.random() returns the next element of the ghost stream $draws (each in [0,1));
random.choice(xs) returns xs[i] for the next element i of the ghost stream $picks (0 <= i < len(xs)).

Spec
  SelBase(base, u, k)    least b < k with Cum_b >= u  (Cum_b = p_0 + ... + p_b, left fold of float +), or -1
  SelGroup(G, t, u, k)   least i < k with W_i >= u, W_i the running sum of prob_i * len(values_i), or -1
"""
import z3

from pyvc import theory as T
from pyvc import builtins as B
from pyvc.theory import TInt, TBool, TF, TStr, TList, TTuple, TRec, TOpt, TDict, TSeq, SpecFun
from pyvc.engine import (Contract, Case, LoopSpec, ObjShape, ZV, PObj, PRec, PTuple, PNone, PList,
                         box, unbox, fresh, ShapeMismatch, zbool, zint, fresh_name, int_to_f)
from contracts.guesser_core import *      # noqa
from contracts.guesser_expand import *    # noqa
from contracts import guesser_expand as ge
from contracts import guesser_lemmas as gl

fv = T.fval
DRAWS = TList(TF)
PICKS = TList(TInt)
LSTR = TList(TStr)
draws_of_seed = z3.Function('draws_of_seed', T.IntS, DRAWS.sort())
picks_of_seed = z3.Function('picks_of_seed', T.IntS, PICKS.sort())


# ---- the random module ------------------------------------------------------------------------------
def _rnd_random(eng, e, st, args, kw):
    B._use(eng, 'random.random() returns the next draw of the generator state, in [0,1)')
    d, p = st.env['$draws'], st.env['$dpos']
    v = z3.Select(DRAWS.arr(d.term), p.term)
    st.assume(z3.And(fv(v) >= 0, fv(v) < 1))
    st.env['$dpos'] = ZV(TInt, p.term + 1)
    return ZV(TF, v)


def _rnd_choice(eng, e, st, args, kw):
    B._use(eng, 'random.choice(xs) returns xs[i] for a generator-determined 0 <= i < len(xs)')
    xs = args[0]
    d, p = st.env['$picks'], st.env['$ppos']
    i = z3.Select(PICKS.arr(d.term), p.term)
    n = eng.length(xs, st)
    eng.safety(st, n > 0, 'choice_nonempty', e)
    st.assume(z3.And(0 <= i, i < n))
    st.env['$ppos'] = ZV(TInt, p.term + 1)
    return eng.getitem(xs, ZV(TInt, i), st, e, safe=False)


def _rnd_seed(eng, e, st, args, kw):
    B._use(eng, 'random.seed(s): the generator state becomes a function of s')
    s = eng.as_int(args[0])
    st.env['$draws'] = ZV(DRAWS, draws_of_seed(s))
    st.env['$picks'] = ZV(PICKS, picks_of_seed(s))
    st.env['$dpos'] = zint(0)
    st.env['$ppos'] = zint(0)
    if '$seeds' in st.env:
        SL = TList(TInt)
        st.env['$seeds'] = ZV(SL, SL.mk(SL.len(st.env['$seeds'].term) + 1, z3.Store(SL.arr(st.env['$seeds'].term), SL.len(st.env['$seeds'].term), s)))
    return PNone()


def _rnd_randint(eng, e, st, args, kw):
    return fresh(TInt, 'randint')


def install(eng):
    ge.install(eng)
    eng.builtins['random.random'] = _rnd_random
    eng.builtins['random.choice'] = _rnd_choice
    eng.builtins['random.seed'] = _rnd_seed
    eng.builtins['random.randint'] = _rnd_randint
    eng.builtin_writes.update({'random.random': ['$dpos'], 'random.choice': ['$ppos'],
                               'random.seed': ['$draws', '$picks', '$dpos', '$ppos', '$seeds']})


# ---- selection specs -----------------------------------------------------------------------------------
def bprob(base, k):
    return BASE_ELEM.get(z3.Select(BASE.arr(base), k), 'prob')


def _cum_def(base, k):
    return z3.If(k <= 0, T.F_ZERO, T.fadd(CumBase(base, k - 1), bprob(base, k - 1)))


CumBase = SpecFun('CumBase', [BASE.sort(), T.IntS], T.F, _cum_def, doc='running sum of the first k base-structure probabilities')


def _selbase_def(base, u, k):
    prev = SelBase(base, u, k - 1)
    return z3.If(k <= 0, z3.IntVal(-1), z3.If(prev != -1, prev, z3.If(fv(CumBase(base, k)) >= fv(u), k - 1, z3.IntVal(-1))))


SelBase = SpecFun('SelBase', [BASE.sort(), T.F, T.IntS], T.IntS, _selbase_def,
                  doc='least base structure among the first k whose cumulative probability reaches u, or -1')


def gweight(G, ty, i):
    return T.fmul(gprob(G, ty, i), T.int2f(LSTR.len(gvalues(G, ty, i))))


def _cumw_def(G, ty, k):
    return z3.If(k <= 0, T.F_ZERO, T.fadd(CumW(G, ty, k - 1), gweight(G, ty, k - 1)))


CumW = SpecFun('CumW', [GRAMMAR.sort(), T.Str, T.IntS], T.F, _cumw_def, doc='running sum of prob*len(values) of the first k groups')


def _selgroup_def(G, ty, u, k):
    prev = SelGroup(G, ty, u, k - 1)
    return z3.If(k <= 0, z3.IntVal(-1), z3.If(prev != -1, prev, z3.If(fv(CumW(G, ty, k)) >= fv(u), k - 1, z3.IntVal(-1))))


SelGroup = SpecFun('SelGroup', [GRAMMAR.sort(), T.Str, T.F, T.IntS], T.IntS, _selgroup_def,
                   doc='least group among the first k whose cumulative weight reaches u, or -1')


def draw(c_or_term, k):
    return z3.Select(DRAWS.arr(c_or_term), k)


def walk_pt_ok(G, base, pt, b, draws, p0, upto):
    """positions < upto of pt carry the group selected by their own draw (index 0 when the weights never reach the draw)"""
    k = z3.Int('k!wp')
    RL = TList(TStr)
    repl = BASE_ELEM.get(z3.Select(BASE.arr(base), b), 'replacements')
    ty = z3.Select(RL.arr(repl), k)
    sel = SelGroup(G, ty, draw(draws, p0 + 1 + k), GLIST.len(glist(G, ty)))
    return z3.ForAll([k], z3.Implies(z3.And(0 <= k, k < upto),
                                     z3.And(pt_type(pt, k) == ty, pt_idx(pt, k) == z3.If(sel == -1, 0, sel),
                                            GRAMMAR.has(G, ty), 0 <= pt_idx(pt, k), pt_idx(pt, k) < GLIST.len(glist(G, ty)))),
                     patterns=[z3.Select(PT.arr(pt), k)])


def _rw_requires(c):
    G = g_of(c.self)
    base = c.self.fields['base'].term
    n = z3.Int('n!rwq')
    nonempty = z3.ForAll([n], z3.Implies(z3.And(0 <= n, n < BASE.len(base)),
                                         TList(TStr).len(BASE_ELEM.get(z3.Select(BASE.arr(base), n), 'replacements')) >= 1),
                         patterns=[z3.Select(BASE.arr(base), n)])
    return [('wf_base', wf_base(G, base)), ('has_base', BASE.len(base) >= 1), ('structures_nonempty', nonempty),
            ('draw_pos', c.args['$dpos'].term >= 0)]


def _rw_ensures(c):
    G = g_of(c.self)
    base = c.self.fields['base'].term
    r = c.result
    pt = r.fields['pt'].term
    draws, p0 = c.args['$draws'].term, c.args['$dpos'].term
    sel = SelBase(base, draw(draws, p0), BASE.len(base))
    b = z3.If(sel == -1, BASE.len(base) - 1, sel)
    RL = TList(TStr)
    repl = BASE_ELEM.get(z3.Select(BASE.arr(base), b), 'replacements')
    return [('base_selected_by_first_draw', PT.len(pt) == RL.len(repl)),
            ('groups_selected_by_their_draws', walk_pt_ok(G, base, pt, b, draws, p0, PT.len(pt))),
            ('is_a_node', z3.And(wf_pt(G, pt), PT.len(pt) >= 1)),
            ('draws_consumed', c.after['$dpos'].term == p0 + 1 + PT.len(pt)),
            ('prob_attached', r.fields['prob'].term == P(G, pt, T.F_ONE))]


RW_ITEM = TRec({'base_prob': TF, 'pt': PT, 'prob': TF})


# ---- stability lemmas (once selected, the selection does not change for longer prefixes) -------------------
from pyvc.lemma import Schema     # noqa: E402


def _selbase_stable(base, u, i, d):
    return [0 <= i, 0 <= d, SelBase(base, u, i) == -1, fv(CumBase(base, i + 1)) >= fv(u)], SelBase(base, u, i + 1 + d) == i


selbase_stable = Schema('C16.selbase_stable', [('base', BASE.sort()), ('u', T.F), ('i', T.IntS), ('d', T.IntS)], _selbase_stable,
                        induction='d', doc='the first base structure whose cumulative probability reaches the draw stays selected')


def _selgroup_stable(G, ty, u, i, d):
    return [0 <= i, 0 <= d, SelGroup(G, ty, u, i) == -1, fv(CumW(G, ty, i + 1)) >= fv(u)], SelGroup(G, ty, u, i + 1 + d) == i


selgroup_stable = Schema('C16.selgroup_stable', [('G', GRAMMAR.sort()), ('ty', T.Str), ('u', T.F), ('i', T.IntS), ('d', T.IntS)],
                         _selgroup_stable, induction='d', doc='the first group whose cumulative weight reaches the draw stays selected')


# ---- random_walk: loop invariants ----------------------------------------------------------------------------
def _u0(L):
    return draw(L.entry.args['$draws'].term, L.entry.args['$dpos'].term)


def _rw_inv_base(L):
    base = L.self.fields['base'].term
    sh = TOpt(BASE_ELEM)
    sel = L.selected_base.term
    return [('none_reached_yet', SelBase(base, _u0(L), L.i) == -1),
            ('running_sum', L.cur_prob.term == CumBase(base, L.i)),
            ('remembers_last', z3.If(L.i == 0, sh.is_none(sel),
                                     z3.And(z3.Not(sh.is_none(sel)), sh.val(sel) == z3.Select(BASE.arr(base), L.i - 1)))),
            ('one_draw', L.env['$dpos'].term == L.entry.args['$dpos'].term + 1)]


def _rw_hints_base(L):
    base = L.self.fields['base'].term
    return [selbase_stable.inst(base, _u0(L), L.i, BASE.len(base) - L.i - 1)]


def _chosen_base(L):
    base = L.self.fields['base'].term
    sel = SelBase(base, _u0(L), BASE.len(base))
    return z3.If(sel == -1, BASE.len(base) - 1, sel)


def _rw_inv_repl(L):
    base = L.self.fields['base'].term
    b = _chosen_base(L)
    RL = TList(TStr)
    repl = BASE_ELEM.get(z3.Select(BASE.arr(base), b), 'replacements')
    pt = L.pt_item.fields['pt'].term
    k = z3.Int('k!rr')
    return [('chosen', TOpt(BASE_ELEM).val(L.selected_base.term) == z3.Select(BASE.arr(base), b)),
            ('chosen_in_range', z3.And(0 <= b, b < BASE.len(base))),
            ('len', PT.len(pt) == L.i),
            ('pointwise', z3.ForAll([k], z3.Implies(z3.And(0 <= k, k < L.i),
                                                    z3.Select(PT.arr(pt), k) == PT_ELEM.mk(z3.Select(RL.arr(repl), k), z3.IntVal(0))),
                                    patterns=[z3.Select(PT.arr(pt), k)])),
            ('base_prob_kept', L.pt_item.fields['base_prob'].term == T.F_ONE),
            ('one_draw', L.env['$dpos'].term == L.entry.args['$dpos'].term + 1)]


def _rw_inv_walk(L):
    G = g_of(L.self)
    base = L.self.fields['base'].term
    b = _chosen_base(L)
    RL = TList(TStr)
    repl = BASE_ELEM.get(z3.Select(BASE.arr(base), b), 'replacements')
    pt = L.pt_item.fields['pt'].term
    k = z3.Int('k!rw')
    draws, p0 = L.entry.args['$draws'].term, L.entry.args['$dpos'].term
    return [('len', PT.len(pt) == RL.len(repl)),
            ('chosen_in_range', z3.And(0 <= b, b < BASE.len(base))),
            ('done_positions', walk_pt_ok(G, base, pt, b, draws, p0, L.i)),
            ('pending_positions', z3.ForAll([k], z3.Implies(z3.And(L.i <= k, k < PT.len(pt)),
                                                            z3.Select(PT.arr(pt), k) == PT_ELEM.mk(z3.Select(RL.arr(repl), k), z3.IntVal(0))),
                                            patterns=[z3.Select(PT.arr(pt), k)])),
            ('base_prob_kept', L.pt_item.fields['base_prob'].term == T.F_ONE),
            ('draws', L.env['$dpos'].term == p0 + 1 + L.i)]


def _rw_inv_group(L):
    G = g_of(L.self)
    ty = L.pt_type.term
    u = L.prob_target.term
    pt = L.pt_item.fields['pt'].term
    pre_pt = L.pre['pt_item'].fields['pt'].term
    return [('none_reached_yet', SelGroup(G, ty, u, L.i) == -1),
            ('running_sum', L.cur_prob.term == CumW(G, ty, L.i)),
            ('pt_untouched', pt == pre_pt),
            ('base_prob_kept', L.pt_item.fields['base_prob'].term == T.F_ONE)]


def _rw_hints_group(L):
    G = g_of(L.self)
    ty = L.pt_type.term
    return [selgroup_stable.inst(G, ty, L.prob_target.term, L.i, GLIST.len(glist(G, ty)) - L.i - 1)]


def _rw_assumed(c):
    pt = c.result.fields['pt'].term
    return [('A_WFX_expandable', wf_expand(g_of(c.self), T.S_EMPTY, pt))]


_rw = Contract(
    MOD + ':PcfgGrammar.random_walk',
    params={'self': GRAMMAR_OBJ, '$draws': DRAWS, '$dpos': TInt},
    requires=_rw_requires,
    cases=[Case('item', lambda c: fresh(RW_ITEM, 'walk_item'), _rw_ensures)],
    locals={'selected_base': TOpt(BASE_ELEM), 'cur_prob': TF, 'pt_item': TRec({'base_prob': TF, 'pt': PT})},
    loops={0: LoopSpec(fingerprint='for item in self.base', inv=_rw_inv_base, hints=_rw_hints_base),
           1: LoopSpec(fingerprint="for replacement in selected_base['replacements']", inv=_rw_inv_repl),
           2: LoopSpec(fingerprint="enumerate(pt_item['pt'])", inv=_rw_inv_walk),
           3: LoopSpec(fingerprint='for index in range', inv=_rw_inv_group, hints=_rw_hints_group)},
    note='C16.walk.post / C16.walk.total: base structure and every group are those selected by the cumulative sums against the '
         'successive draws; the result is always a node of the grammar',
)


_rw.assumed_ensures = _rw_assumed


# ---- _honeyword_recursive_guess ---------------------------------------------------------------------------
def pick(picks, k):
    return z3.Select(PICKS.arr(picks), k)


def _hw_def(G, cur, pt, picks, pos):
    return z3.If(PT.len(pt) <= 0, cur, HW(G, step(G, cur, pt, pick(picks, pos)), tail(pt), picks, pos + 1))


HW = SpecFun('HW', [GRAMMAR.sort(), T.Str, PT.sort(), PICKS.sort(), T.IntS], T.Str, _hw_def,
             doc='the word obtained by taking, position by position, the value (or mask) number picks[pos], picks[pos+1], ... '
                 'of each chosen group: one element of the pre-terminal\'s expansion')


def _hr_requires(c):
    G = g_of(c.self)
    pt = c.pt.term
    return [('wf_pt', wf_pt(G, pt)), ('nonempty', PT.len(pt) >= 1), ('wf_expand', wf_expand(G, c.cur_guess.term, pt)),
            ('limit_ok', limit_ok(c.limit.term)), ('not_debug', z3.Not(c.self.fields['debug'].term)),
            ('pick_pos', c.args['$ppos'].term >= 0)]


def _hr_ensures(c):
    G = g_of(c.self)
    pt = c.pt.term
    out0, out1 = c.args['$out'].term, c.after['$out'].term
    res = c.result.term
    is_m = category(pt) == ord('M')
    w = HW(G, c.cur_guess.term, pt, c.args['$picks'].term, c.args['$ppos'].term)
    return [('zero_or_one', z3.Or(res == 0, res == 1)),
            ('markov_yields_nothing', z3.Implies(is_m, z3.And(res == 0, out1 == out0))),
            ('one_word_of_the_expansion', z3.Implies(z3.Not(is_m), z3.And(res == 1, out1 == z3.Concat(out0, unit(w)),
                                                                         c.after['$ppos'].term == c.args['$ppos'].term + PT.len(pt)))),
            ('picks_kept', c.after['$picks'].term == c.args['$picks'].term)]


def _hr_inv_mask(L):
    cur = L.entry.args['cur_guess'].term
    return [('masked_prefix', L.new_end.term == MaskList(cur, L.mask_len.term, L.mask.term, L.i)),
            ('index', L.index.term == L.i)]


_hr = Contract(
    MOD + ':PcfgGrammar._honeyword_recursive_guess',
    params={'self': GRAMMAR_OBJ, 'cur_guess': TStr, 'pt': PT, 'limit': TOpt(TInt), '$out': OUT, '$picks': PICKS, '$ppos': TInt},
    requires=_hr_requires,
    result=TInt,
    ensures=_hr_ensures,
    locals={'limit': TOpt(TInt), 'new_end': LSTR},
    loops={0: LoopSpec(fingerprint='for item in mask', inv=_hr_inv_mask)},
    note='C16.one_word: exactly one element of the expansion is written (none for a Markov pre-terminal)',
)
_hr.defaults = {'limit': lambda: PNone()}


# ---- create_guesses: honeyword entry (extends the contract of guesser_expand) --------------------------------
_cg = Contract.registry[MOD + ':PcfgGrammar.create_guesses']
_cg.params = dict(_cg.params, **{'$picks': PICKS, '$ppos': TInt})
_cg_requires_plain = _cg.requires
_cg_ensures_plain = _cg.cases[0].post


def _cg_requires(c):
    out = list(_cg_requires_plain(c))
    if c.is_honeyword.pyval is not False:
        out.append(('pick_pos', z3.Implies(c.is_honeyword.term, c.args['$ppos'].term >= 0)))
    return out


def _cg_honey_posts(c):
    G = g_of(c.self)
    pt = c.pt.term
    out0, out1 = c.args['$out'].term, c.after['$out'].term
    res = c.result.term
    is_m = category(pt) == ord('M')
    w = HW(G, T.S_EMPTY, pt, c.args['$picks'].term, c.args['$ppos'].term)
    return [('zero_or_one', z3.Or(res == 0, res == 1)),
            ('markov_yields_nothing', z3.Implies(is_m, z3.And(res == 0, out1 == out0))),
            ('one_word_of_the_expansion', z3.Implies(z3.Not(is_m), z3.And(res == 1, out1 == z3.Concat(out0, unit(w)))))]


def _cg_ensures(c):
    hw = c.is_honeyword
    if hw.pyval is False:
        return _cg_ensures_plain(c)
    if hw.pyval is True:
        return _cg_honey_posts(c)
    plain = _cg_ensures_plain(c)
    honey = _cg_honey_posts(c)
    return [(n, z3.Implies(z3.Not(hw.term), b)) for n, b in plain] + [(n, z3.Implies(hw.term, b)) for n, b in honey]


_cg.requires = _cg_requires
_cg.cases[0].post = _cg_ensures
_cg.variants = [{'is_honeyword': zbool(False)}, {'is_honeyword': zbool(True)}]


# ---- HoneywordSession ---------------------------------------------------------------------------------------
HS = 'lib_guesser.honeyword_session:HoneywordSession'
HS_OBJ = ObjShape(HS, {'pcfg': GRAMMAR_OBJ, 'mode': TStr, 'random_seed': TInt})
SEEDS = TList(TInt)

Contract(
    HS + '.__init__',
    params={'self': HS_OBJ, 'pcfg': GRAMMAR_OBJ, 'mode': TStr},
    self_modifies=('pcfg', 'mode', 'random_seed'),
    ensures=lambda c: [('reproducible_start', z3.Implies(ge_lit(c.mode.term, 'random_walk'), c.after['self'].fields['random_seed'].term == 1)),
                       ('mode', c.after['self'].fields['mode'].term == c.mode.term)],
    note='C16.reproducible: random-walk mode always starts from seed 1',
)


def ge_lit(term, lit):
    conj = [T.slen(term) == len(lit)]
    for i, ch in enumerate(lit):
        conj.append(T.sch(term, i) == ord(ch))
    return z3.And(conj)


def _hs_requires(c):
    G = g_of(c.self.fields['pcfg'])
    base = c.self.fields['pcfg'].fields['base'].term
    return list(_rw_requires_for(c.self.fields['pcfg'])) + [
        ('limit_ok', limit_ok(c.limit.term)), ('not_debug', z3.Not(c.self.fields['pcfg'].fields['debug'].term)),
        ('empty_seed_log', SEEDS.len(c.args['$seeds'].term) == 0)]


def _rw_requires_for(pcfg):
    class C:
        pass
    c = C()
    c.self = pcfg
    c.args = {'$dpos': zint(0)}
    return [x for x in _rw_requires(c) if x[0] != 'draw_pos']


def _hs_ensures(c):
    out0, out1 = c.args['$out'].term, c.after['$out'].term
    L = lim_val(c.limit.term)
    seeds = c.after['$seeds'].term
    k = z3.Int('k!hs')
    s0 = c.self.fields['random_seed'].term
    return [('returns_only_with_a_limit', lim_active(c.limit.term)),
            ('exactly_N_lines', z3.Length(out1) == z3.Length(out0) + L),
            ('seeds_are_consecutive', z3.ForAll([k], z3.Implies(z3.And(0 <= k, k < SEEDS.len(seeds)), z3.Select(SEEDS.arr(seeds), k) == s0 + k),
                                                patterns=[z3.Select(SEEDS.arr(seeds), k)]))]


def _hs_inv(L):
    e = L.entry
    lim0 = e.args['limit'].term
    sh = TOpt(TInt)
    out0 = e.args['$out'].term
    written = z3.Length(L.env['$out'].term) - z3.Length(out0)
    seeds = L.env['$seeds'].term
    s0 = e.args['self'].fields['random_seed'].term
    k = z3.Int('k!hi')
    return [('limit_tracks', z3.If(lim_active(lim0),
                                   z3.And(z3.Not(sh.is_none(L.limit.term)), sh.val(L.limit.term) == lim_val(lim0) - written,
                                          sh.val(L.limit.term) >= 1),
                                   L.limit.term == lim0)),
            ('written_nonneg', written >= 0),
            ('seed_advances', z3.And(L.self.fields['random_seed'].term == s0 + SEEDS.len(seeds), SEEDS.len(seeds) >= 0)),
            ('seeds_are_consecutive', z3.ForAll([k], z3.Implies(z3.And(0 <= k, k < SEEDS.len(seeds)), z3.Select(SEEDS.arr(seeds), k) == s0 + k),
                                                patterns=[z3.Select(SEEDS.arr(seeds), k)])),
            ('grammar_kept', z3.And(g_of(L.self.fields['pcfg']) == g_of(e.args['self'].fields['pcfg']),
                                    L.self.fields['pcfg'].fields['base'].term == e.args['self'].fields['pcfg'].fields['base'].term,
                                    z3.Not(L.self.fields['pcfg'].fields['debug'].term)))]


_hs = Contract(
    HS + '.run',
    params={'self': HS_OBJ, 'limit': TOpt(TInt), '$out': OUT, '$seeds': SEEDS, '$draws': DRAWS, '$dpos': TInt, '$picks': PICKS,
            '$ppos': TInt, '$quit': TBool, '$exit_seen': TBool},
    requires=_hs_requires,
    ensures=_hs_ensures,
    self_modifies=('random_seed', 'pcfg'),
    locals={'limit': TOpt(TInt)},
    loops={0: LoopSpec(fingerprint='while True', inv=_hs_inv)},
    note='C16.run.count: with --limit N exactly N lines; C16.reproducible: the k-th word is generated from seed s0 + k only',
)
_hs.defaults = {'limit': lambda: ZV(TOpt(TInt), TOpt(TInt).some(z3.IntVal(0)))}
