"""
Sidecar contracts: pcfg_guesser.py  main, load_save, create_save_config (C14.flags.from_save, C08.uuid).

Ghost state of main
  $load, $tpo     what the command line asked for: --load, and true_prob_order mode
  $loaded_flags   (skip_brute, skip_case) the grammar was loaded with;  $loaded_uuid its uuid
  $ran            CrackingSession.run was started
The save file is fs_config(save path): the options stored in the .sav on disk.
"""
import z3

from pyvc import theory as T
from pyvc import builtins as B
from pyvc.theory import TInt, TBool, TF, TStr, TList, TTuple, TRec, TOpt, TDict
from pyvc.engine import (Contract, Case, LoopSpec, ObjShape, ZV, PObj, PRec, PTuple, PNone, PList,
                         box, unbox, fresh, ShapeMismatch, zbool)
from contracts.guesser_core import GRAMMAR_OBJ, MOD, wf_base, g_of
from contracts.guesser_restore import CONFIG, KMAX, KMIN
from contracts import guesser_session as gs
from contracts import guesser_lemmas as gl

PG = 'pcfg_guesser'
PROGRAM_INFO = gs.PROGRAM_INFO


def key(sec, opt):
    return B.CONFIG_KEY.mk(T.str_lit(sec), T.str_lit(opt))


K_UUID = key('rule_info', 'uuid')
K_SB = key('rule_info', 'skip_brute')
K_SC = key('rule_info', 'skip_case')
K_RN = key('rule_info', 'rule_name')


def pi_field(pi, k):
    return pi.fields[k]


def same_except(p0, p1, changed):
    parts = []
    for k in p0.fields:
        if k in changed:
            continue
        a, b = p0.fields[k], p1.fields[k]
        if isinstance(a, ZV) and isinstance(b, ZV):
            parts.append(a.term == b.term)
    return z3.And(parts) if parts else z3.BoolVal(True)


# ---- load_save -------------------------------------------------------------------------------------
def _ls_post_some(c):
    if isinstance(c.result, PNone):
        raise ShapeMismatch()
    opts = c.result.fields['opts'].term
    disk = B.fs_config(c.save_filename.term)
    p1 = c.after['program_info']
    return [('is_the_file', opts == disk),
            ('well_formed', z3.And(B.CONFIG_OPTS.has(opts, K_UUID), B.CONFIG_OPTS.has(opts, K_SB), B.CONFIG_OPTS.has(opts, K_SC),
                                   B.CONFIG_OPTS.has(opts, K_RN))),
            ('flags_restored', z3.And(p1.fields['skip_brute'].term == B.s_tobool(B.CONFIG_OPTS.get(opts, K_SB)),
                                      p1.fields['skip_case'].term == B.s_tobool(B.CONFIG_OPTS.get(opts, K_SC)),
                                      p1.fields['rule_name'].term == B.CONFIG_OPTS.get(opts, K_RN))),
            ('rest_kept', same_except(c.program_info, p1, ('skip_brute', 'skip_case', 'rule_name')))]


def _ls_post_none(c):
    if not isinstance(c.result, PNone):
        raise ShapeMismatch()
    return [('program_info_kept', same_except(c.program_info, c.after['program_info'], ()))]


_ls = Contract(
    PG + ':load_save',
    params={'save_filename': TStr, 'program_info': PROGRAM_INFO},
    mutates=('program_info',),
    cases=[Case('loaded', lambda c: fresh(CONFIG, 'save_config'), _ls_post_some),
           Case('unusable', lambda c: PNone(), _ls_post_none)],
    note='C14.flags.from_save: the flags and rule name stored in the .sav are copied into program_info',
)
_ls.assumed_ensures = lambda c: [] if isinstance(c.result, PNone) else [
    ('A_sav_written_by_save_session', z3.And(B.CONFIG_OPTS.has(c.result.fields['opts'].term, KMIN),
                                             B.CONFIG_OPTS.has(c.result.fields['opts'].term, KMAX)))]

Contract(
    PG + ':create_save_config',
    params={'program_info': PROGRAM_INFO},
    cases=[Case('new', lambda c: fresh(CONFIG, 'new_config'),
                lambda c: [('no_uuid_yet', z3.Not(B.CONFIG_OPTS.has(c.result.fields['opts'].term, K_UUID)))])],
    trusted=True,
    note='builds a fresh ConfigParser from the flags (datetime bookkeeping not modelled)',
)

Contract('lib_guesser.banner_info:print_banner', params={}, trusted=True, note='stderr only (C09 frame)')

# ---- PcfgGrammar.__init__ (trusted: file loading is C07/C14.base) ------------------------------------
Contract(
    MOD + ':PcfgGrammar.__init__',
    params={'self': GRAMMAR_OBJ, 'rule_name': TStr, 'base_directory': TStr, 'version': TStr, 'save_file': TStr,
            'skip_brute': TBool, 'skip_case': TBool, 'debug': TBool, 'base_structure_folder': TStr},
    cases=[Case('loaded', lambda c: PNone(), lambda c: [
        ('debug_flag', c.result.fields['debug'].term == c.debug.term),
        ('save_file', c.result.fields['save_file'].term == c.save_file.term),
        ('fresh_flags', z3.And(z3.Not(c.result.fields['should_exit'].term), z3.Not(c.result.fields['omen_exit'].term))),
        ('A_WF_loaded', z3.And(wf_base(g_of(c.result), c.result.fields['base'].term), z3.And(gl.wf_grammar(g_of(c.result)))))])],
    raises=('Exception',),
    trusted=True,
    note='loads the ruleset (grammar_io, OMEN files). Assumed: a ruleset that loads is well formed (sorted probabilities in [0,1], '
         'every variable of a base structure has a group) -- the loader/trainer side of this is C06/C07/C14.base',
)
_gi = Contract.registry[MOD + ':PcfgGrammar.__init__']
_gi.defaults = {'save_file': lambda: ZV(TStr, T.S_EMPTY, ''), 'skip_brute': lambda: zbool(False), 'skip_case': lambda: zbool(False),
                'debug': lambda: zbool(False), 'base_structure_folder': lambda: ZV(TStr, T.str_lit('Grammar'), 'Grammar')}


def _grammar_hook(eng, st, c2, e, exprs):
    if '$loaded_sb' in st.env:
        st.env['$loaded_sb'] = c2.args['skip_brute']
        st.env['$loaded_sc'] = c2.args['skip_case']
        st.env['$loaded_dir'] = c2.args['base_directory']
        st.env['$loaded_uuid'] = c2.result.fields['ruleset_info'].fields['uuid'] if hasattr(c2.result.fields['ruleset_info'], 'fields') \
            else ZV(TStr, TRec({'uuid': TStr, 'encoding': TStr}).get(c2.result.fields['ruleset_info'].term, 'uuid'))


_gi.call_hook = _grammar_hook


def _pcl_hook(eng, st, c2, e, exprs):
    if '$load' in st.env:
        p1 = c2.after['program_info']
        st.env['$load'] = p1.fields['load_session']
        st.env['$tpo'] = ZV(TBool, eng.str_eq(p1.fields['cracking_mode'], ZV(TStr, T.str_lit('true_prob_order'), 'true_prob_order')))
        st.env['$rule_cmd'] = p1.fields['rule_name']
        st.env['$sb_cmd'] = p1.fields['skip_brute']
        st.env['$session'] = p1.fields['session_name']


_pcl = Contract.registry[PG + ':parse_command_line']
_pcl.call_hook = _pcl_hook
_pcl.assumed_ensures = lambda c: [('A_no_debug', z3.Not(c.after['program_info'].fields['debug'].term))]


def _run_hook(eng, st, c2, e, exprs):
    if '$ran' in st.env:
        st.env['$ran'] = zbool(True)
        st.env['$ran_load'] = c2.args['load_session']
        st.env['$ran_cfg'] = c2.args['self'].fields['save_config'].fields['opts']


Contract.registry[gs.CS + ':CrackingSession.run'].call_hook = _run_hook

HS = 'lib_guesser.honeyword_session:HoneywordSession'
Contract(HS + '.__init__', params={'self': ObjShape(HS, {'mode': TStr}), 'pcfg': GRAMMAR_OBJ, 'mode': TStr}, trusted=True, note='C16')
Contract(HS + '.run', params={'self': ObjShape(HS, {'mode': TStr}), 'limit': TOpt(TInt)}, trusted=True, note='C16')
Contract.registry[HS + '.run'].defaults = {'limit': lambda: PNone()}


def save_path(session):
    return B.pjoin(B.p_dirname(B.p_realpath(z3.Const('module_file_path', T.Str))), T.scat(session, T.str_lit('.sav')))


def _main_ensures(c):
    a = c.after
    ran = a['$ran'].term
    load = z3.And(a['$load'].term, a['$tpo'].term)
    disk = B.fs_config(save_path(a['$session'].term))
    return [
        ('C14_flags_from_save', z3.Implies(z3.And(ran, load), z3.And(
            a['$loaded_sb'].term == B.s_tobool(B.CONFIG_OPTS.get(disk, K_SB)),
            a['$loaded_sc'].term == B.s_tobool(B.CONFIG_OPTS.get(disk, K_SC))))),
        ('C14_flags_from_command_line_otherwise', z3.Implies(z3.And(ran, z3.Not(load)), a['$loaded_sb'].term == a['$sb_cmd'].term)),
        ('C08_uuid_refusal', z3.Implies(z3.And(ran, load), z3.And(
            B.CONFIG_OPTS.has(disk, K_UUID), B.CONFIG_OPTS.get(disk, K_UUID) == a['$loaded_uuid'].term))),
        ('resume_only_when_asked', z3.Implies(ran, a['$ran_load'].term == a['$load'].term)),
        ('resumed_from_the_file', z3.Implies(z3.And(ran, load), a['$ran_cfg'].term == disk)),
    ]


Contract(
    PG + ':main',
    params={'$load': TBool, '$tpo': TBool, '$rule_cmd': TStr, '$sb_cmd': TBool, '$session': TStr,
            '$loaded_sb': TBool, '$loaded_sc': TBool, '$loaded_dir': TStr, '$loaded_uuid': TStr,
            '$ran': TBool, '$ran_load': TBool, '$ran_cfg': B.CONFIG_OPTS,
            '$out': gs.OUT, '$quit': TBool, '$exit_seen': TBool, '$popped': gs.POPPED, '$disk': gs.DISK, '$saved': gs.PTITEMS},
    requires=lambda c: [('not_run_yet', z3.Not(c.args['$ran'].term)), ('empty_log', z3.Length(c.args['$popped'].term) == 0),
                        ('no_exit_yet', z3.Not(c.args['$exit_seen'].term))],
    ensures=_main_ensures,
    note='C14.flags.from_save and C08.uuid: a resumed session runs on a grammar loaded with the saved flags and only when the '
         'saved uuid equals the ruleset uuid',
)
