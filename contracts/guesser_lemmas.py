"""Lemma layer over the guesser-core contracts (C01, C02; reused by C08, C14, C17)."""
import z3

from pyvc import theory as T
from pyvc.theory import TInt, TF, TStr, TList
from pyvc.lemma import Schema
from pyvc.engine import Contract, Ctx, PObj, PRec, ZV, unbox, fresh, PNone
from contracts.guesser_core import *   # noqa: F401,F403  (spec vocabulary)
from contracts import guesser_core as gc

fv = T.fval


# ------------------------------------------------------------------ well-formed grammar (section 4: WF)
def sorted_desc(G):
    """group probabilities are non-increasing along every variable's list."""
    t = z3.Const('t!sd', T.Str)
    i, i2 = z3.Ints('i!sd i2!sd')
    arr = GLIST.arr(glist(G, t))
    return z3.ForAll([t, i, i2], z3.Implies(z3.And(0 <= i, i <= i2, i2 < GLIST.len(glist(G, t))),
                                            fv(GROUP.get(z3.Select(arr, i2), 'prob')) <= fv(GROUP.get(z3.Select(arr, i), 'prob'))),
                     patterns=[z3.MultiPattern(z3.Select(arr, i), z3.Select(arr, i2))])


def probs_unit(G):
    t = z3.Const('t!pu', T.Str)
    i = z3.Int('i!pu')
    arr = GLIST.arr(glist(G, t))
    p = fv(GROUP.get(z3.Select(arr, i), 'prob'))
    return z3.ForAll([t, i], z3.Implies(z3.And(0 <= i, i < GLIST.len(glist(G, t))), z3.And(0 <= p, p <= 1)),
                     patterns=[z3.Select(arr, i)])


def wf_grammar(G):
    return [sorted_desc(G), probs_unit(G)]


# ------------------------------------------------------------------ C01.fold_mono
def _fold_mono(G, pt, b, j, k):
    hyps = wf_grammar(G) + [
        wf_pt(G, pt), PT.len(pt) >= 0, fv(b) >= 0,
        0 <= j, j < PT.len(pt), pt_idx(pt, j) + 1 < GLIST.len(glist(G, pt_type(pt, j))),
        0 <= k, k <= PT.len(pt)]
    concl = z3.And(0 <= fv(Fold(G, inc(pt, j), b, k)),
                   fv(Fold(G, inc(pt, j), b, k)) <= fv(Fold(G, pt, b, k)))
    return hyps, concl


fold_mono = Schema('C01.fold_mono', [('G', GRAMMAR.sort()), ('pt', PT.sort()), ('b', T.F), ('j', T.IntS), ('k', T.IntS)],
                   _fold_mono, induction='k',
                   doc='raising one index never raises the left-to-right product (uses only monotonicity of fmul)')


def _fold_unit(G, pt, b, k):
    hyps = wf_grammar(G) + [wf_pt(G, pt), PT.len(pt) >= 0, fv(b) >= 0, fv(b) <= 1, 0 <= k, k <= PT.len(pt)]
    concl = z3.And(0 <= fv(Fold(G, pt, b, k)), fv(Fold(G, pt, b, k)) <= 1)
    return hyps, concl


fold_unit = Schema('C01.fold_unit', [('G', GRAMMAR.sort()), ('pt', PT.sort()), ('b', T.F), ('k', T.IntS)],
                   _fold_unit, induction='k', doc='a product of probabilities stays in [0,1] (so P(root) <= max_probability = 1.0)')


def _init_base_hint(L):
    """inside the outer loop of initalize_base_structures: the root built in this iteration has P <= 1."""
    G = g_of(L.self)
    base = L.self.fields['base'].term
    e = z3.Select(BASE.arr(base), L.i)
    repl = BASE_ELEM.get(e, 'replacements')
    pt = RootPt(repl, TList(TStr).len(repl))
    return [fold_unit.inst(G, pt, BASE_ELEM.get(e, 'prob'), PT.len(pt))]


gc.HOOKS['probs_unit'] = lambda G: z3.And(wf_grammar(G))
gc.HOOKS['init_base_hint'] = _init_base_hint


# ------------------------------------------------------------------ properties of Kids (induction on k)
def item_ok(G, it, b, n, pprob):
    pt = PTITEM.get(it, 'pt')
    return z3.And(wf_pt(G, pt), PT.len(pt) == n, PTITEM.get(it, 'base_prob') == b,
                  PTITEM.get(it, 'prob') == P(G, pt, b), fv(PTITEM.get(it, 'prob')) <= fv(pprob))


def _kids_props(G, pt, b, pprob, k):
    m = z3.Int('m!kp')
    ks = Kids(G, pt, b, pprob, k)
    hyps = wf_grammar(G) + [wf_pt(G, pt), PT.len(pt) >= 0, fv(b) >= 0, pprob == P(G, pt, b), 0 <= k, k <= PT.len(pt)]
    concl = z3.And(PTITEMS.len(ks) >= 0, PTITEMS.len(ks) <= k,
                   z3.ForAll([m], z3.Implies(z3.And(0 <= m, m < PTITEMS.len(ks)),
                                             item_ok(G, z3.Select(PTITEMS.arr(ks), m), b, PT.len(pt), pprob)),
                             patterns=[z3.Select(PTITEMS.arr(ks), m)]))
    return hyps, concl


def _kids_props_uses(G, pt, b, pprob, k):
    # instance of fold_mono for the position added by this step (k-1) at full length
    return [fold_mono.inst(G, pt, b, k - 1, PT.len(pt))]


kids_props = Schema('C01.kids_props', [('G', GRAMMAR.sort()), ('pt', PT.sort()), ('b', T.F), ('pprob', T.F), ('k', T.IntS)],
                    _kids_props, induction='k', uses=_kids_props_uses,
                    doc='every adopted child is a well-formed node carrying its own P, no more probable than its parent')


# ------------------------------------------------------------------ AddAll preserves a pointwise bound / rep invariant
def _addall_bound(bag, items, M, n):
    x = z3.Const('x!ab', QITEM.sort())
    m = z3.Int('m!ab')
    hyps = [0 <= n, n <= PTITEMS.len(items),
            z3.ForAll([x], z3.Implies(z3.Select(bag, x) > 0, fv(qprob(x)) <= fv(M)), patterns=[z3.Select(bag, x)]),
            z3.ForAll([m], z3.Implies(z3.And(0 <= m, m < PTITEMS.len(items)),
                                      fv(PTITEM.get(z3.Select(PTITEMS.arr(items), m), 'prob')) <= fv(M)),
                      patterns=[z3.Select(PTITEMS.arr(items), m)])]
    res = AddAll(bag, items, n)
    concl = z3.ForAll([x], z3.Implies(z3.Select(res, x) > 0, fv(qprob(x)) <= fv(M)), patterns=[z3.Select(res, x)])
    return hyps, concl


addall_bound = Schema('C01.addall_bound', [('bag', BAG.sort()), ('items', PTITEMS.sort()), ('M', T.F), ('n', T.IntS)],
                      _addall_bound, induction='n', doc='pushing items bounded by M keeps every queued probability <= M')


def _addall_rep(G, bag, items, n):
    x = z3.Const('x!ar', QITEM.sort())
    m = z3.Int('m!ar')
    it = z3.Select(PTITEMS.arr(items), m)
    pt = PTITEM.get(it, 'pt')
    hyps = [0 <= n, n <= PTITEMS.len(items), in_bag_all_wf(G, bag),
            z3.ForAll([x], z3.Select(bag, x) >= 0, patterns=[z3.Select(bag, x)]),
            z3.ForAll([m], z3.Implies(z3.And(0 <= m, m < PTITEMS.len(items)),
                                      z3.And(wf_pt(G, pt), PT.len(pt) >= 0, fv(PTITEM.get(it, 'base_prob')) >= 0,
                                             PTITEM.get(it, 'prob') == P(G, pt, PTITEM.get(it, 'base_prob')))),
                      patterns=[z3.Select(PTITEMS.arr(items), m)])]
    res = AddAll(bag, items, n)
    concl = z3.And(in_bag_all_wf(G, res),
                   z3.ForAll([x], z3.Select(res, x) >= 0, patterns=[z3.Select(res, x)]))
    return hyps, concl


addall_rep = Schema('C01.addall_rep', [('G', GRAMMAR.sort()), ('bag', BAG.sort()), ('items', PTITEMS.sort()), ('n', T.IntS)],
                    _addall_rep, induction='n', doc='pushing well-formed items keeps the queue representation invariant')


# ------------------------------------------------------------------ the run-level step (C01.queue.inv / C01.order)
def queue_bound(bag, M):
    x = z3.Const('x!qb', QITEM.sort())
    return z3.ForAll([x], z3.Implies(z3.Select(bag, x) > 0, fv(qprob(x)) <= fv(M)), patterns=[z3.Select(bag, x)])


def counts_nonneg(bag):
    x = z3.Const('x!cn', QITEM.sort())
    return z3.ForAll([x], z3.Select(bag, x) >= 0, patterns=[z3.Select(bag, x)])


def _queue_step_parts(G, H, M0, rt, H2, M1):
    """hypotheses = the *contract* of PcfgQueue.next (requires + postconditions of the popped case),
    instantiated on the given terms; conclusions = what the session loop needs."""
    con = Contract.registry[PQ + ':PcfgQueue.next']
    pcfg = PObj(gc.MOD + ':PcfgGrammar', {'grammar': ZV(GRAMMAR, G)})
    selfv = PObj(PQ + ':PcfgQueue', {'pcfg': pcfg, 'p_queue': ZV(BAG, H), 'max_probability': ZV(TF, M0)})
    after = PObj(PQ + ':PcfgQueue', {'pcfg': pcfg, 'p_queue': ZV(BAG, H2), 'max_probability': ZV(TF, M1)})
    res = unbox(rt, PTITEM)
    c0 = Ctx({'self': selfv})
    req = [b for _, b in con.requires(c0)]
    c1 = Ctx({'self': selfv}, result=res, after={'self': after})
    post = [b for _, b in con.cases[1].post(c1)]
    hyps = req + post + wf_grammar(G) + [queue_bound(H, M0)]
    return hyps


def _queue_step(G, H, M0, rt, H2, M1):
    pt = PTITEM.get(rt, 'pt')
    b = PTITEM.get(rt, 'base_prob')
    concl = z3.And(fv(PTITEM.get(rt, 'prob')) <= fv(M0),          # C01.order
                   queue_bound(H2, M1),                            # C01.queue.inv
                   in_bag_all_wf(G, H2), counts_nonneg(H2),        # C01.queue.rep (precondition of the next call)
                   PTITEM.get(rt, 'prob') == P(G, pt, b),          # C01.attached_prob
                   wf_pt(G, pt), PT.len(pt) >= 0)
    return _queue_step_parts(G, H, M0, rt, H2, M1), concl


def _queue_step_uses(G, H, M0, rt, H2, M1):
    pt = PTITEM.get(rt, 'pt')
    b = PTITEM.get(rt, 'base_prob')
    pprob = PTITEM.get(rt, 'prob')
    kids = Kids(G, pt, b, pprob, PT.len(pt))
    H1 = bag_del(H, qi(rt))
    return [kids_props.inst(G, pt, b, pprob, PT.len(pt)),
            addall_bound.inst(H1, kids, pprob, PTITEMS.len(kids)),
            addall_rep.inst(G, H1, kids, PTITEMS.len(kids))]


queue_step = Schema('C01.queue_step',
                    [('G', GRAMMAR.sort()), ('H', BAG.sort()), ('M0', T.F), ('rt', PTITEM.sort()), ('H2', BAG.sort()), ('M1', T.F)],
                    _queue_step, uses=_queue_step_uses,
                    doc="from next()'s contract: popped probability <= previous max (C01.order), every queued item <= the new max "
                        '(C01.queue.inv), queue representation invariant kept (C01.queue.rep), attached probability is P(pt)')


def next_step_lemmas():
    return queue_step.lemmas()


def all_c01_lemmas():
    out = []
    for s in (fold_mono, fold_unit, kids_props, addall_bound, addall_rep):
        out.extend(s.lemmas())
    out.extend(next_step_lemmas())
    return out


# =================================================================== C02: exactly once
def qv(G, child, b, j):
    """probability (as a real) of the co-parent of child at position j."""
    return fv(P(G, dec(child, j), b))


def beats(G, child, b, i, j):
    """parent i keeps the child against co-parent j."""
    return z3.Or(qv(G, child, b, j) > qv(G, child, b, i), z3.And(qv(G, child, b, j) == qv(G, child, b, i), j > i))


def _best_def(G, child, b, m):
    prev = Best(G, child, b, m - 1)
    j = m - 1
    better = z3.And(pt_idx(child, j) > 0, z3.Or(prev == -1, qv(G, child, b, j) < qv(G, child, b, prev)))
    return z3.If(m <= 0, z3.IntVal(-1), z3.If(better, j, prev))


Best = SpecFun('Best', [GRAMMAR.sort(), PT.sort(), T.F, T.IntS], T.IntS, _best_def,
               doc='position of the least probable parent among positions < m (lowest position on ties), -1 if none')


def _best_props(G, child, b, m):
    j = z3.Int('j!bp')
    bm = Best(G, child, b, m)
    hyps = [0 <= m, m <= PT.len(child)]
    concl = z3.And(
        bm >= -1, bm < m,
        z3.Implies(bm == -1, z3.ForAll([j], z3.Implies(z3.And(0 <= j, j < m), pt_idx(child, j) <= 0),
                                       patterns=[z3.Select(PT.arr(child), j)])),
        z3.Implies(bm != -1, z3.And(pt_idx(child, bm) > 0,
                                    z3.ForAll([j], z3.Implies(z3.And(0 <= j, j < m, j != bm, pt_idx(child, j) > 0),
                                                              beats(G, child, b, bm, j)),
                                              patterns=[z3.Select(PT.arr(child), j)]))))
    return hyps, concl


best_props = Schema('C02.adopt_unique.exists', [('G', GRAMMAR.sort()), ('child', PT.sort()), ('b', T.F), ('m', T.IntS)],
                    _best_props, induction='m',
                    doc='the (probability, position)-least parent exists for every non-root node: it adopts the child')


def adopt_by(G, child, b, i):
    """parent at position i adopts child (the real Adopt with the parent's own probability)."""
    return z3.And(0 <= i, i < PT.len(child), pt_idx(child, i) > 0,
                  adopt(G, child, b, i, P(G, dec(child, i), b)))


def adopt_unique_lemmas():
    from pyvc.runner import Lemma
    G = z3.Const('G!au', GRAMMAR.sort())
    child = z3.Const('child!au', PT.sort())
    b = z3.Const('b!au', T.F)
    i, i2 = z3.Ints('i!au i2!au')
    n = PT.len(child)
    out = [
        Lemma('C02.adopt_unique.unique', [n >= 0, adopt_by(G, child, b, i), adopt_by(G, child, b, i2)], i == i2,
              'two parents cannot both adopt the same child, also under exact probability ties'),
    ]
    # existence: the Best position adopts
    bm = Best(G, child, b, n)
    j = z3.Int('j!au')
    nonroot = z3.And(0 <= j, j < n, pt_idx(child, j) > 0)
    allnonneg = z3.ForAll([i], z3.Implies(z3.And(0 <= i, i < n), pt_idx(child, i) >= 0),
                          patterns=[z3.Select(PT.arr(child), i)])
    out.append(Lemma('C02.adopt_unique.adopts', [n >= 0, nonroot, allnonneg, best_props.inst(G, child, b, n)],
                     adopt_by(G, child, b, bm),
                     'every non-root node is adopted by some parent (so none is skipped)'))
    return out


def all_c02_lemmas():
    out = []
    out.extend(best_props.lemmas())
    out.extend(adopt_unique_lemmas())
    return out
