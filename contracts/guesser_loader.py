"""
Sidecar contracts: lib_guesser/grammar_io.py  (_load_base_structures; C14, C03.loader.c_insertion).

File model: open(path) yields a file whose text lines are fs_lines(path) (a function of the path,
stable during the call); `for value in file` consumes lines from the cursor, seek(0) rewinds.

Spec vocabulary
  F0(l), F1(l)     the first two TAB-separated fields of rstrip(l)
  Tok(v, k)        tokens of a structure string after k characters: a letter starts a token,
                   any other character is appended to the last token
  Proc(R, i)       the A->A,C insertion loop run from position i (tail-recursive mirror of the
                   loop; its equality with "a C<n> is inserted after every A<n>, nothing else
                   changes" is the bounded clause C03.bounded.cins)
  FirstM(L, k)     index of the first line among the first k whose structure is exactly 'M', or -1
  Sel(L, skip, tot, k)  the base structures loaded from the first k lines
"""
import z3

from pyvc import theory as T
from pyvc import builtins as B
from pyvc.theory import TInt, TBool, TF, TStr, TList, TTuple, TRec, TOpt, TDict, SpecFun
from pyvc.engine import (Contract, Case, LoopSpec, ObjShape, ZV, PObj, PRec, PTuple, PNone, PList,
                         box, unbox, fresh, empty_list, ShapeMismatch, zbool)
from contracts.guesser_core import BASE, BASE_ELEM, append

GIO = 'lib_guesser.grammar_io'
LSTR = TList(TStr)
LINES = LSTR
insert_str = T.list_fn('linsert', LSTR, [T.IntS, T.Str])
contains_str = T.list_contains(LSTR)
M_LIT = T.str_lit('M')


def fields(line):
    return B.s_split_tab(B.s_rstrip(line))


def F0(line):
    return z3.Select(LSTR.arr(fields(line)), 0)


def F1(line):
    return z3.Select(LSTR.arr(fields(line)), 1)


def line_at(L, k):
    return z3.Select(LINES.arr(L), k)


def _tok_def(v, k):
    j = k - 1
    prev = Tok(v, k - 1)
    c = T.sch(v, j)
    n = LSTR.len(prev)
    last = z3.Select(LSTR.arr(prev), n - 1)
    grown = LSTR.mk(n, z3.Store(LSTR.arr(prev), n - 1, T.scat(last, T.schar(c))))
    return z3.If(k <= 0, empty_list(LSTR), z3.If(T.c_isalpha(c), append(LSTR, prev, T.schar(c)), grown))


Tok = SpecFun('Tok', [T.Str, T.IntS], LSTR.sort(), _tok_def, doc='tokens of a base-structure string (first k characters)')


def tokens(v):
    return Tok(v, T.slen(v))


def _proc_def(R, i):
    e = z3.Select(LSTR.arr(R), i)
    ins = insert_str(R, i + 1, T.scat(T.schar(z3.IntVal(ord('C'))), T.sslice(e, z3.IntVal(1), T.slen(e))))
    return z3.If(i >= LSTR.len(R), R, z3.If(T.sch(e, 0) == ord('A'), Proc(ins, i + 1), Proc(R, i + 1)))


Proc = SpecFun('Proc', [LSTR.sort(), T.IntS], LSTR.sort(), _proc_def,
               doc='the replacement list after the C-insertion loop has run from position i')


def is_m_line(line):
    f = F0(line)
    return z3.And(T.slen(f) == 1, T.sch(f, 0) == ord('M'))


def _firstm_def(L, k):
    prev = FirstM(L, k - 1)
    return z3.If(k <= 0, z3.IntVal(-1), z3.If(prev != -1, prev, z3.If(is_m_line(line_at(L, k - 1)), k - 1, z3.IntVal(-1))))


FirstM = SpecFun('FirstM', [LINES.sort(), T.IntS], T.IntS, _firstm_def, doc="index of the first 'M' line among the first k, or -1")


from pyvc.lemma import Schema     # noqa: E402


def _firstm_stable(L, i, d):
    n = i + 1 + d
    return [0 <= i, 0 <= d, FirstM(L, i) == -1, is_m_line(line_at(L, i))], FirstM(L, n) == i


firstm_stable = Schema('C14.firstm_stable', [('L', LINES.sort()), ('i', T.IntS), ('d', T.IntS)], _firstm_stable, induction='d',
                       doc="once the first 'M' line is found at i, FirstM stays i for every longer prefix")


def mk_base(line, tot):
    return BASE_ELEM.mk(prob=T.fdiv(B.s_tofloat(F1(line)), tot), replacements=tokens(F0(line)))


def _sel_def(L, skip, tot, k):
    prev = Sel(L, skip, tot, k - 1)
    line = line_at(L, k - 1)
    keep = z3.Or(z3.Not(skip), z3.Not(contains_str(tokens(F0(line)), M_LIT)))
    return z3.If(k <= 0, empty_list(BASE), z3.If(keep, append(BASE, prev, mk_base(line, tot)), prev))


Sel = SpecFun('Sel', [LINES.sort(), T.BoolS, T.F, T.IntS], BASE.sort(), _sel_def,
              doc='base structures read from the first k lines: all of them, or with skip_brute those without an M token, '
                  'each probability divided by tot')


def _total_def(L, skip):
    n = LINES.len(L)
    fm = FirstM(L, n)
    return z3.If(z3.And(skip, fm != -1), T.fsub(T.F_ONE, B.s_tofloat(F1(line_at(L, fm)))), T.F_ONE)


total_prob = SpecFun('TotalProb', [LINES.sort(), T.BoolS], T.F, _total_def,
                     doc="1 - P('M' line) with skip_brute when such a line exists, else 1")
Loaded = SpecFun('Loaded', [LINES.sort(), T.BoolS], BASE.sort(),
                 lambda L, skip: Sel(L, skip, total_prob(L, skip), LINES.len(L)),
                 doc='the base structures selected from the whole file, rescaled')


def wf_lines(L):
    """every line has a structure string starting with a letter and a float second field"""
    k = z3.Int('k!wl')
    line = line_at(L, k)
    return z3.ForAll([k], z3.Implies(z3.And(0 <= k, k < LINES.len(L)),
                                     z3.And(LSTR.len(fields(line)) >= 2, B.s_isfloat(F1(line)),
                                            T.slen(F0(line)) >= 1, T.c_isalpha(T.sch(F0(line), 0)))),
                     patterns=[z3.Select(LINES.arr(L), k)])


def path_of(c):
    return B.pjoin(B.pjoin(c.base_directory.term, c.base_structure_folder.term), T.str_lit('grammar.txt'))


def with_c(bs0, bs1, n):
    """bs1 is bs0 with the C-insertion applied to the replacements of the first n entries."""
    m = z3.Int('m!wc')
    e0 = z3.Select(BASE.arr(bs0), m)
    e1 = z3.Select(BASE.arr(bs1), m)
    return z3.And(
        BASE.len(bs1) == BASE.len(bs0),
        z3.ForAll([m], z3.Implies(z3.And(0 <= m, m < n),
                                  z3.And(BASE_ELEM.get(e1, 'prob') == BASE_ELEM.get(e0, 'prob'),
                                         BASE_ELEM.get(e1, 'replacements') == Proc(BASE_ELEM.get(e0, 'replacements'), z3.IntVal(0)))),
                  patterns=[z3.Select(BASE.arr(bs1), m)]),
        z3.ForAll([m], z3.Implies(z3.And(n <= m, m < BASE.len(bs0)), e1 == e0), patterns=[z3.Select(BASE.arr(bs1), m)]))


def nonempty_tokens(bs):
    """every token of every loaded structure is a non-empty string (needed to index token[0])"""
    m, t = z3.Ints('m!ne t!ne')
    repl = BASE_ELEM.get(z3.Select(BASE.arr(bs), m), 'replacements')
    return z3.ForAll([m], z3.Implies(z3.And(0 <= m, m < BASE.len(bs)),
                                     z3.And(LSTR.len(repl) >= 0,
                                            z3.ForAll([t], z3.Implies(z3.And(0 <= t, t < LSTR.len(repl)),
                                                                      T.slen(z3.Select(LSTR.arr(repl), t)) >= 1),
                                                      patterns=[z3.Select(LSTR.arr(repl), t)]))),
                     patterns=[z3.Select(BASE.arr(bs), m)])


def _lbs_requires(c):
    L = B.fs_lines(path_of(c))
    return [('empty_target', c.base_structures.term == empty_list(BASE)),
            ('wf_lines', wf_lines(L)),
            ('markov_is_not_everything', T.fval(total_prob(L, c.skip_brute.term)) != 0),
            ('A_tokens_nonempty', nonempty_tokens(Loaded(L, c.skip_brute.term)))]


def _lbs_post_ok(c):
    if not (isinstance(c.result, ZV) and c.result.shape == TBool):
        raise ShapeMismatch()
    if c.result.pyval is False:
        return None
    L = B.fs_lines(path_of(c))
    skip = c.skip_brute.term
    loaded = Loaded(L, skip)
    bs1 = c.after['base_structures'].term
    return [('selected_rescaled_then_C_inserted', with_c(loaded, bs1, BASE.len(loaded)))]


def _lbs_post_fail(c):
    if not (isinstance(c.result, ZV) and c.result.shape == TBool):
        raise ShapeMismatch()
    if c.result.pyval is True:
        return None
    return [('nothing_loaded_on_io_error', z3.BoolVal(True))]


def _inv_scan(L):
    e = L.entry
    lines = B.fs_lines(path_of(e))
    return [('no_M_so_far', FirstM(lines, L.i) == -1),
            ('total_is_one', L.total_prob.term == T.F_ONE),
            ('target_empty', L.base_structures.term == e.args['base_structures'].term)]


def _inv_read(L):
    e = L.entry
    lines = B.fs_lines(path_of(e))
    skip = e.args['skip_brute'].term
    return [('selected_prefix', L.base_structures.term == Sel(lines, skip, L.total_prob.term, L.i)),
            ('total', L.total_prob.term == total_prob(lines, skip))]


def _inv_tok(L):
    return [('tokens_prefix', L.new_base.fields['replacements'].term == Tok(L.value.term, L.i)),
            ('nonempty_after_first', z3.Implies(L.i >= 1, LSTR.len(L.new_base.fields['replacements'].term) >= 1)),
            ('len_nonneg', LSTR.len(L.new_base.fields['replacements'].term) >= 0),
            ('prob_kept', L.new_base.fields['prob'].term == L.pre['new_base'].fields['prob'].term)]


def _inv_outer(L):
    e = L.entry
    lines = B.fs_lines(path_of(e))
    skip = e.args['skip_brute'].term
    loaded = Loaded(lines, skip)
    return [('c_inserted_prefix', with_c(loaded, L.base_structures.term, L.i)),
            ('len', BASE.len(L.base_structures.term) == BASE.len(loaded))]


def _inv_ins(L):
    e = L.entry
    lines = B.fs_lines(path_of(e))
    skip = e.args['skip_brute'].term
    loaded = Loaded(lines, skip)
    oi = L.alias['base'].steps[0][1].term          # index of the structure the outer loop is at
    bs = L.base_structures.term
    cur = z3.Select(BASE.arr(bs), oi)
    orig = z3.Select(BASE.arr(loaded), oi)
    pre = L.pre['base_structures'].term
    m = z3.Int('m!ii')
    others = z3.ForAll([m], z3.Implies(z3.And(0 <= m, m < BASE.len(bs), m != oi),
                                       z3.Select(BASE.arr(bs), m) == z3.Select(BASE.arr(pre), m)),
                       patterns=[z3.Select(BASE.arr(bs), m)])
    i = L.env['i'].term
    return [('same_result', Proc(BASE_ELEM.get(cur, 'replacements'), i) == Proc(BASE_ELEM.get(orig, 'replacements'), z3.IntVal(0))),
            ('prob_kept', BASE_ELEM.get(cur, 'prob') == BASE_ELEM.get(orig, 'prob')),
            ('index_nonneg', i >= 0),
            ('others_untouched', others),
            ('len', BASE.len(bs) == BASE.len(pre)),
            ('tokens_nonempty', nonempty_tokens(bs))]


Contract(
    GIO + ':_load_base_structures',
    params={'base_structures': BASE, 'base_directory': TStr, 'skip_brute': TBool, 'base_structure_folder': TStr},
    requires=_lbs_requires,
    cases=[Case('loaded', lambda c: zbool(True), _lbs_post_ok), Case('io_error', lambda c: zbool(False), _lbs_post_fail)],
    mutates=('base_structures',),
    locals={'new_base': TRec({'prob': TF, 'replacements': LSTR})},
    loops={0: LoopSpec(fingerprint='for value in file', inv=_inv_scan,
                       hints=lambda L: [firstm_stable.inst(B.fs_lines(path_of(L.entry)), L.i,
                                                           LINES.len(B.fs_lines(path_of(L.entry))) - L.i - 1)]),
           1: LoopSpec(fingerprint='for value in file', inv=_inv_read),
           2: LoopSpec(fingerprint='for item in value', inv=_inv_tok),
           3: LoopSpec(fingerprint='for base in base_structures', inv=_inv_outer),
           4: LoopSpec(fingerprint='while i < len(replacement)', inv=_inv_ins)},
    note='C14.base.post: with skip_brute exactly the structures without an M token, each probability divided by 1 - P(M) '
         '(1 when there is no M line); C03.loader.c_insertion',
)


# ================================================================== _load_from_file: grouping of consecutive equal probabilities
from contracts.guesser_core import GROUP, GLIST     # noqa: E402

fv = T.fval


def lv(L, k):
    return F0(line_at(L, k))


def lp(L, k):
    return B.s_tofloat(F1(line_at(L, k)))


def _groups_def(L, k):
    prev = Groups(L, k - 1)
    n = GLIST.len(prev)
    last = z3.Select(GLIST.arr(prev), n - 1)
    vals = GROUP.get(last, 'values')
    grown_vals = LSTR.mk(LSTR.len(vals) + 1, z3.Store(LSTR.arr(vals), LSTR.len(vals), lv(L, k - 1)))
    merged = GLIST.mk(n, z3.Store(GLIST.arr(prev), n - 1, GROUP.mk(prob=GROUP.get(last, 'prob'), values=grown_vals)))
    one = LSTR.mk(z3.IntVal(1), z3.Store(LSTR.arr(empty_list(LSTR)), 0, lv(L, k - 1)))
    fresh_group = GLIST.mk(n + 1, z3.Store(GLIST.arr(prev), n, GROUP.mk(prob=lp(L, k - 1), values=one)))
    same = z3.And(k >= 2, fv(lp(L, k - 1)) == fv(lp(L, k - 2)))
    return z3.If(k <= 0, empty_list(GLIST), z3.If(same, merged, fresh_group))


Groups = SpecFun('Groups', [LINES.sort(), T.IntS], GLIST.sort(), _groups_def,
                 doc='the groups built from the first k lines: consecutive lines with equal probability share one group')


def wf_value_lines(L):
    k = z3.Int('k!wv')
    line = line_at(L, k)
    return z3.ForAll([k], z3.Implies(z3.And(0 <= k, k < LINES.len(L)),
                                     z3.And(LSTR.len(fields(line)) >= 2, B.s_isfloat(F1(line)), fv(B.s_tofloat(F1(line))) >= 0)),
                     patterns=[z3.Select(LINES.arr(L), k)])


def _lff_inv(L):
    lines = B.fs_lines(L.entry.args['filename'].term)
    gs = L.grammar_section.term
    i = L.i
    last = z3.Select(GLIST.arr(gs), GLIST.len(gs) - 1)
    return [('groups_prefix', gs == Groups(lines, i)),
            ('prev_prob', z3.If(i == 0, fv(L.prev_prob.term) == -1, L.prev_prob.term == lp(lines, i - 1))),
            ('no_error_pending', z3.Not(L.error_flag.term)),
            ('nonempty_after_first', z3.Implies(i >= 1, z3.And(GLIST.len(gs) >= 1, GROUP.get(last, 'prob') == lp(lines, i - 1)))),
            ('len_nonneg', GLIST.len(gs) >= 0)]


def _lff_post_ok(c):
    if not (isinstance(c.result, ZV) and c.result.shape == TBool) or c.result.pyval is False:
        return None
    lines = B.fs_lines(c.filename.term)
    return [('grouped_values', c.after['grammar_section'].term == Groups(lines, LINES.len(lines)))]


def _lff_post_fail(c):
    if not (isinstance(c.result, ZV) and c.result.shape == TBool) or c.result.pyval is True:
        return None
    return [('reported', z3.BoolVal(True))]


Contract(
    GIO + ':_load_from_file',
    params={'grammar_section': GLIST, 'filename': TStr, 'encoding': TStr},
    requires=lambda c: [('empty_target', c.grammar_section.term == empty_list(GLIST)),
                        ('wf_lines', wf_value_lines(B.fs_lines(c.filename.term)))],
    cases=[Case('loaded', lambda c: zbool(True), _lff_post_ok), Case('failed', lambda c: zbool(False), _lff_post_fail)],
    mutates=('grammar_section',),
    loops={0: LoopSpec(fingerprint='for line in file', inv=_lff_inv)},
    note='C07 reader / C04.group_same_prob: every line contributes its value unchanged; consecutive lines with equal probability form one group '
         'carrying that probability',
)


# groups of a file sorted by probability are strictly decreasing (C01.load.groups_desc)
def _groups_desc(L, k):
    i, j, m = z3.Ints('i!gd j!gd m!gd')
    g = Groups(L, k)
    n = GLIST.len(g)
    sorted_lines = z3.ForAll([i, j], z3.Implies(z3.And(0 <= i, i <= j, j < LINES.len(L)), fv(lp(L, j)) <= fv(lp(L, i))),
                             patterns=[z3.MultiPattern(line_at(L, i), line_at(L, j))])
    hyps = [0 <= k, k <= LINES.len(L), sorted_lines]
    gp = lambda t: fv(GROUP.get(z3.Select(GLIST.arr(g), t), 'prob'))
    concl = z3.And(n >= 0, z3.Implies(k >= 1, z3.And(n >= 1, GROUP.get(z3.Select(GLIST.arr(g), n - 1), 'prob') == lp(L, k - 1))),
                   z3.ForAll([m], z3.Implies(z3.And(0 <= m, m + 1 < n), gp(m + 1) < gp(m)), patterns=[z3.Select(GLIST.arr(g), m)]),
                   z3.ForAll([m], z3.Implies(z3.And(0 <= m, m < n), gp(m) >= fv(lp(L, k - 1))), patterns=[z3.Select(GLIST.arr(g), m)]))
    return hyps, concl


groups_desc = Schema('C01.load.groups_desc', [('L', LINES.sort()), ('k', T.IntS)], _groups_desc, induction='k',
                     doc='a file whose probabilities are non-increasing yields strictly decreasing group probabilities')


def install_reader(eng):
    """engine set-up under which _load_from_file is verified (file model of the trainer side; A-CODEC on the reader side)"""
    import contracts.trainer_detect as td
    import contracts.trainer_io as tio
    td.install(eng)
    tio.install(eng, encode_may_fail=False)
