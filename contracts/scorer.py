"""
Contract for C13: lib_scorer.pcfg_password_scorer:PCFGPasswordScorer.parse.

Verified for every string and every loaded table:
  * an input in which the e-mail detector (resp., failing that, the website detector) finds something is classified 'e' (resp. 'w')
    and gets probability 0; an unsupported structure gets 'o' and 0;
  * the category is one of e, w, o, p, and 'p' is given only to a score above the limit or an OMEN level within the maximum;
  * the first and last components echo the input and the OMEN level of OmenScorer.parse;
  * parse updates no field of the scorer (frame of self: the score is a function of the string and the loaded ruleset).
The product itself (seven lookup loops under one try/except KeyError) is left abstract here -- that a non-zero product is matched by the
guesser is decided within the bounds of C13.bounded.score.
"""
import z3

from pyvc import theory as T
from pyvc.theory import TInt, TBool, TF, TStr, TList, TTuple, TDict, TOpt
from pyvc.engine import Contract, Case, LoopSpec, ObjShape, PTuple, PNone, ZV, fresh, box
import contracts.trainer_detect as td
import contracts.omen_level as ol

PS = 'lib_scorer.pcfg_password_scorer:PCFGPasswordScorer'
LSTR = td.LSTR
PROBTAB = TDict(TStr, TF)
LENTAB = TDict(TInt, PROBTAB)
CTAB = TDict(TStr, TF, counter=True)
OMEN_OBJ = ObjShape(ol.SC, dict(ol.SCORER.fields, max_omen_level=TInt))
SCORER_OBJ = ObjShape(PS, {
    'limit': TInt, 'count_keyboard': LENTAB, 'count_years': CTAB, 'count_context_sensitive': CTAB, 'count_alpha': LENTAB,
    'count_alpha_masks': LENTAB, 'count_digits': LENTAB, 'count_other': LENTAB, 'count_base_structures': CTAB,
    'multiword_detector': td.MW_OBJ, 'omen': OMEN_OBJ})


def _hook(name, idx=0):
    def hook(eng, st, c2, e, exprs):
        if name in st.env:
            r = c2.result
            st.env[name] = r if not isinstance(r, PTuple) else r.items[idx]
    return hook


def install(eng):
    td.install(eng)
    # ghost bookkeeping: what the e-mail and website detectors found (read by the postcondition)
    Contract.registry[td.DR + 'email_detection:email_detection'].call_hook = _hook('$emails')
    Contract.registry[td.DR + 'website_detection:website_detection'].call_hook = _hook('$urls')
    Contract.registry[td.KW].call_hook = _hook2([('$found_walks', 1)])
    Contract.registry[td.DR + 'year_detection:year_detection'].call_hook = _hook2([('$found_years', 0)])
    Contract.registry[td.DR + 'context_sensitive_detection:context_sensitive_detection'].call_hook = _hook2([('$found_ctx', 0)])
    Contract.registry[td.DR + 'alpha_detection:alpha_detection'].call_hook = _hook2([('$found_alpha', 0), ('$found_masks', 1)])
    Contract.registry[td.DR + 'digit_detection:digit_detection'].call_hook = _hook2([('$found_digits', 0)])
    Contract.registry[td.DR + 'other_detection:other_detection'].call_hook = _hook2([('$found_other', 0)])


def _item(lst, k):
    return z3.Select(LSTR.arr(lst), k)


ProdLen = T.SpecFun('ScoreProdLen', [LENTAB.sort(), LSTR.sort(), T.IntS, T.F], T.F,
                    lambda tab, lst, k, acc: z3.If(k <= 0, acc, T.fmul(ProdLen(tab, lst, k - 1, acc),
                                                                       PROBTAB.get(LENTAB.get(tab, T.slen(_item(lst, k - 1))), _item(lst, k - 1)))),
                    doc='acc times the table entries [len(item)][item] of the first k items, multiplied left to right')
ProdC = T.SpecFun('ScoreProdC', [CTAB.sort(), LSTR.sort(), T.IntS, T.F], T.F,
                  lambda tab, lst, k, acc: z3.If(k <= 0, acc, T.fmul(ProdC(tab, lst, k - 1, acc),
                                                                     z3.If(CTAB.has(tab, _item(lst, k - 1)), CTAB.get(tab, _item(lst, k - 1)), T.F_ZERO))),
                  doc='the same for a Counter table (a missing key counts 0)')
GHOST_LISTS = ['$found_walks', '$found_years', '$found_ctx', '$found_alpha', '$found_masks', '$found_digits', '$found_other']


def _hook2(names):
    def hook(eng, st, c2, e, exprs):
        r = c2.result
        for nm, idx in names:
            if nm in st.env:
                st.env[nm] = r if not isinstance(r, PTuple) else r.items[idx]
    return hook


def lit(s):
    return T.str_lit(s)


def _common(c, prob_is_zero, prob_term=None):
    r = c.result
    cat = box(r.items[1], TStr)
    emails, urls = c.after['$emails'].term, c.after['$urls'].term
    has_e = LSTR.len(emails) > 0
    has_w = LSTR.len(urls) > 0
    sup = c.after['$supported'].term
    omen = box(r.items[3], TInt)
    om_ok = z3.And(omen <= c.self.fields['omen'].fields['max_omen_level'].term, omen >= 0)
    out = [('echo_password', box(r.items[0], TStr) == c.password.term),
           ('omen_level', omen == ol.LevelS(c.self.fields['omen'], c.password.term)),
           ('category', z3.Or([cat == lit(x) for x in 'ewop'])),
           ('email_is_e', z3.Implies(has_e, cat == lit('e'))),
           ('website_is_w', z3.Implies(z3.And(z3.Not(has_e), has_w), cat == lit('w'))),
           ('e_w_only_when_detected', z3.And(z3.Implies(cat == lit('e'), has_e), z3.Implies(cat == lit('w'), z3.And(z3.Not(has_e), has_w))))]
    if prob_is_zero:
        out.append(('p_needs_score_or_omen_level', z3.Implies(cat == lit('p'), z3.Or(0 > c.self.fields['limit'].term, om_ok))))
    else:
        f = c.self.fields
        g = lambda n: c.after[n].term
        p = T.F_ONE
        p = ProdLen(f['count_keyboard'].term, g('$found_walks'), LSTR.len(g('$found_walks')), p)
        p = ProdC(f['count_years'].term, g('$found_years'), LSTR.len(g('$found_years')), p)
        p = ProdC(f['count_context_sensitive'].term, g('$found_ctx'), LSTR.len(g('$found_ctx')), p)
        p = ProdLen(f['count_alpha'].term, g('$found_alpha'), LSTR.len(g('$found_alpha')), p)
        p = ProdLen(f['count_alpha_masks'].term, g('$found_masks'), LSTR.len(g('$found_masks')), p)
        p = ProdLen(f['count_digits'].term, g('$found_digits'), LSTR.len(g('$found_digits')), p)
        p = ProdLen(f['count_other'].term, g('$found_other'), LSTR.len(g('$found_other')), p)
        bs = f['count_base_structures'].term
        st_ = c.after['$structure'].term
        p = T.fmul(p, z3.If(CTAB.has(bs, st_), CTAB.get(bs, st_), T.F_ZERO))
        # (a letter that the guesser cannot rebuild from its lower-case form and the mask forces the score to 0: never a wrong non-zero value)
        out.append(('a_non_zero_score_is_the_product_of_every_segment_and_the_structure', z3.Implies(T.fval(prob_term) != 0, prob_term == p)))
        out += [('email_or_website_never_scored', z3.And(z3.Not(has_e), z3.Not(has_w), sup)),
                ('p_needs_score_or_omen_level', z3.Implies(cat == lit('p'), z3.Or(T.fval(prob_term) > z3.ToReal(c.self.fields['limit'].term), om_ok)))]
    return out


def _zero_case(c):
    r = c.result
    if not (isinstance(r, PTuple) and len(r.items) == 4 and isinstance(r.items[2], ZV) and r.items[2].shape == TInt):
        return None
    return [('zero', r.items[2].term == 0)] + _common(c, True)


def _scored_case(c):
    r = c.result
    if not (isinstance(r, PTuple) and len(r.items) == 4 and isinstance(r.items[2], ZV) and r.items[2].shape == TF):
        return None
    return _common(c, False, r.items[2].term)


def _prod_inv(field, ghost, counter):
    def inv(L):
        tab = L.entry.args['self'].fields[field].term
        lst = L.env[ghost].term
        fn = ProdC if counter else ProdLen
        return [('product_so_far', L.cur_prob.term == fn(tab, lst, L.i, L.pre['cur_prob'].term))]
    return inv


def _kept_or_zero(v, pre):
    if isinstance(v, ZV) and v.shape == TF and isinstance(pre, ZV) and pre.shape == TF:
        return z3.Or(v.term == pre.term, T.fval(v.term) == 0)
    if isinstance(v, ZV) and v.shape == TInt:
        return v.term == 0
    return z3.BoolVal(False)


def _rebuild_inv(L):
    return [('score_kept_or_zero', _kept_or_zero(L.cur_prob, L.pre['cur_prob']))]


_sp = Contract(
    PS + '.parse',
    params={'self': SCORER_OBJ, 'password': TStr, '$pw': TStr, '$offs': td.OFFS, '$emails': LSTR, '$urls': LSTR,
            '$structure': TStr, '$supported': TBool, '$sections': td.SECTIONS,
            '$found_walks': LSTR, '$found_years': LSTR, '$found_ctx': LSTR, '$found_alpha': LSTR, '$found_masks': LSTR,
            '$found_digits': LSTR, '$found_other': LSTR},
    requires=lambda c: [('ghost_password', c.args['$pw'].term == c.password.term),
                        ('omen_class_invariant', z3.And(c.self.fields['omen'].fields['ngram'].term >= 2,
                                                        c.self.fields['omen'].fields['max_len'].term ==
                                                        TList(TInt).len(c.self.fields['omen'].fields['ln'].term) - 1)),
                        ('nothing_found_yet', z3.And(LSTR.len(c.args['$emails'].term) == 0, LSTR.len(c.args['$urls'].term) == 0))],
    cases=[Case('zero', lambda c: PTuple([fresh(TStr, 'pw'), fresh(TStr, 'cat'), fresh(TInt, 'zero'), fresh(TInt, 'omen')]), _zero_case),
           Case('scored', lambda c: PTuple([fresh(TStr, 'pw'), fresh(TStr, 'cat'), fresh(TF, 'prob'), fresh(TInt, 'omen')]), _scored_case)],
    loops={k: LoopSpec(fingerprint=fp, inv=_prod_inv(field, ghost, counter)) for k, (fp, field, ghost, counter) in enumerate([
        ('for item in found_walks', 'count_keyboard', '$found_walks', False), ('for item in found_years', 'count_years', '$found_years', True),
        ('for item in found_context_sensitive_strings', 'count_context_sensitive', '$found_ctx', True),
        ('for item in found_alpha_strings', 'count_alpha', '$found_alpha', False), ('for item in found_mask_list', 'count_alpha_masks', '$found_masks', False),
        ('for item in found_digit_strings', 'count_digits', '$found_digits', False), ('for item in found_other_strings', 'count_other', '$found_other', False)])},
    raises=(),
    note='C13.classify: e-mail / website inputs are classified as such and score 0; unsupported structures score 0; parse updates nothing',
)


# the two loops of the reproducibility check (added with the repair of F15): the score is left alone or forced to 0
_sp.loops[7] = LoopSpec(fingerprint='for section in section_list', inv=_rebuild_inv)
_sp.loops[8] = LoopSpec(fingerprint='for letter in section[0]', inv=_rebuild_inv)
