"""
Contracts for C18 (the saved OMEN keyspace is the number of guesses a level really produces).

  lib_trainer.omen.omen_file_output:save_omen_rules_to_disk   -- statement slice: the loop that computes pcfg_omen_prob
        every level listed with a non-zero keyspace gets (passwords_at_level / N) / keyspace, and nothing else is listed
  lib_trainer.omen.evaluate_password:calc_omen_keyspace        -- the level / initial n-gram / length loops
        keyspace[level] is the sum, over every initial n-gram whose level fits and every length >= n-gram size whose length level fits,
        of the recursive count for the remaining level and length - ngram + 1 transitions; a level that is listed is listed with its complete sum

_rec_calc_keyspace (memoised recursion through nested dictionaries created on demand) is a trusted contract here: it returns RecCount(...) >= 0
and touches only its caches.  That RecCount -- and therefore the listed keyspace -- is the number of distinct strings the guesser's MarkovCracker
emits is decided only within the bounds of C18.bounded.keyspace.
"""
import z3

from pyvc import theory as T
from pyvc.theory import TInt, TBool, TF, TStr, TList, TTuple, TRec, TDict, TOpt, SpecFun
from pyvc.engine import Contract, Case, LoopSpec, ObjShape, PTuple, PNone, ZV, PObj, fresh, box, unbox

OFO = 'lib_trainer.omen.omen_file_output'
EV = 'lib_trainer.omen.evaluate_password'

KS = TDict(TInt, TInt, counter=True)            # Counter level -> int
PROBS = TDict(TInt, TF, counter=True)           # Counter level -> float
KITEM = TTuple([TInt, TInt])
KITEMS = TList(KITEM)
ks_items = z3.Function('ks_items', KS.sort(), KITEMS.sort())


def items_axioms(d):
    """assumed contract of dict.items(): every present key exactly once, with its value"""
    i, j, k = z3.Ints('i!it j!it k!it')
    it = ks_items(d)
    el = lambda x: z3.Select(KITEMS.arr(it), x)
    idx = z3.Function('ks_index', KS.sort(), T.IntS, T.IntS)
    return [KITEMS.len(it) >= 0,
            z3.ForAll([i], z3.Implies(z3.And(0 <= i, i < KITEMS.len(it)),
                                      z3.And(KS.has(d, KITEM.get(el(i), 0)), KS.get(d, KITEM.get(el(i), 0)) == KITEM.get(el(i), 1),
                                             idx(d, KITEM.get(el(i), 0)) == i)), patterns=[el(i)]),
            z3.ForAll([k], z3.Implies(KS.has(d, k), z3.And(0 <= idx(d, k), idx(d, k) < KITEMS.len(it),
                                                           KITEM.get(el(idx(d, k)), 0) == k)), patterns=[KS.has(d, k)])]


def _items(eng, e, st, val, valexpr, args, kw):
    if isinstance(val, ZV) and val.shape == KS:
        for b in items_axioms(val.term):
            st.assume(b)
        eng.assumed.add('dict.items(): every present key exactly once with its value (order unspecified)')
        return ZV(KITEMS, ks_items(val.term))
    raise Exception('items() on %r' % (val,))


def install(eng):
    eng.builtins['method.items'] = _items


def want_prob(cnt, n, ks, level):
    return T.fdiv(T.fdiv(T.int2f(z3.If(KS.has(cnt, level), KS.get(cnt, level), 0)), T.int2f(n)), T.int2f(KS.get(ks, level)))


def listed_upto(ks, cnt, n, probs, m):
    """probs holds exactly the levels among the first m items of ks whose keyspace is non-zero, each with (count/N)/keyspace"""
    lv = z3.Int('lv!lu')
    idx = z3.Function('ks_index', KS.sort(), T.IntS, T.IntS)
    inside = z3.And(KS.has(ks, lv), idx(ks, lv) < m, KS.get(ks, lv) != 0)
    return z3.ForAll([lv], z3.And(PROBS.has(probs, lv) == inside,
                                  z3.Implies(inside, PROBS.get(probs, lv) == want_prob(cnt, n, ks, lv))),
                     patterns=[idx(ks, lv)])


_slice = Contract(
    OFO + ':save_omen_rules_to_disk#prob_loop',
    params={'omen_keyspace': KS, 'omen_levels_count': KS, 'num_valid_passwords': TInt, 'pcfg_omen_prob': PROBS},
    requires=lambda c: [('some_passwords', c.num_valid_passwords.term > 0)],
    mutates=('pcfg_omen_prob',),
    locals={'pcfg_omen_prob': PROBS},
    ensures=lambda c: [('probability_is_fraction_over_keyspace',
                        listed_upto(c.omen_keyspace.term, c.omen_levels_count.term, c.num_valid_passwords.term,
                                    c.after['pcfg_omen_prob'].term, KITEMS.len(ks_items(c.omen_keyspace.term))))],
    loops={0: LoopSpec(fingerprint='for item in omen_keyspace.items()',
                       inv=lambda L: [('so_far', listed_upto(L.entry.args['omen_keyspace'].term, L.entry.args['omen_levels_count'].term,
                                                             L.entry.args['num_valid_passwords'].term, L.pcfg_omen_prob.term, L.i))])},
    raises=(),
    note='C18.prob: pcfg_omen_prob lists exactly the levels with a non-zero keyspace, each with (passwords at that level / N) / keyspace',
)


def int_exact():
    """A-FP-INT: an int below 2**53 converts to the float of the same value (used only to know that a non-zero keyspace is a non-zero divisor)"""
    a = z3.Int('a!ie')
    return z3.ForAll([a], T.fval(T.int2f(a)) == z3.ToReal(a), patterns=[T.int2f(a)])


_slice.definitions = lambda c: [int_exact()]
_slice.slice = ('pcfg_omen_prob = Counter()', 'for item in omen_keyspace.items()')


# =============================================================================================== calc_omen_keyspace
LV = TTuple([TInt, TInt])                       # (level, count)
NEXT = TDict(TStr, LV)
GENT = TRec({'ip_level': TInt, 'next_letter': NEXT})
GRAM = TDict(TStr, GENT)
LNL = TList(LV)
TRAINER = ObjShape('lib_trainer.omen.alphabet_lookup:AlphabetLookup', {'ngram': TInt, 'ln_lookup': LNL, 'grammar': GRAM})
GITEM = TTuple([TStr, GENT])
GITEMS = TList(GITEM)
g_items = z3.Function('g_items', GRAM.sort(), GITEMS.sort())
# the recursive count of _rec_calc_keyspace(trainer, level, transitions, ip): strings of `transitions` letters after prefix ip whose
# transition levels sum to `level` exactly (trusted here; compared with the real generator by C18.bounded.keyspace)
RecCount = z3.Function('RecCount', GRAM.sort(), T.IntS, T.IntS, T.Str, T.IntS)


def _g_items(eng, e, st, val, valexpr, args, kw):
    if isinstance(val, ZV) and val.shape == GRAM:
        i = z3.Int('i!gi')
        it = g_items(val.term)
        el = z3.Select(GITEMS.arr(it), i)
        st.assume(GITEMS.len(it) >= 0)
        st.assume(z3.ForAll([i], z3.Implies(z3.And(0 <= i, i < GITEMS.len(it)),
                                            z3.And(GRAM.has(val.term, GITEM.get(el, 0)), GRAM.get(val.term, GITEM.get(el, 0)) == GITEM.get(el, 1))),
                            patterns=[el]))
        eng.assumed.add('dict.items(): every present key exactly once with its value (order unspecified)')
        return ZV(GITEMS, it)
    return _items(eng, e, st, val, valexpr, args, kw)


def install(eng):       # noqa: F811
    eng.builtins['method.items'] = _g_items


def term(tr, level, i, j):
    """what the body adds for the i-th initial n-gram and the length j+1"""
    g = tr.fields['grammar'].term
    n = tr.fields['ngram'].term
    ln = tr.fields['ln_lookup'].term
    el = z3.Select(GITEMS.arr(g_items(g)), i)
    ipl = GENT.get(GITEM.get(el, 1), 'ip_level')
    lnl = LV.get(z3.Select(LNL.arr(ln), j), 0)
    rest = level - ipl
    return z3.If(z3.And(rest >= 0, j + 1 >= n, lnl <= rest), RecCount(g, rest - lnl, j + 1 - n + 1, GITEM.get(el, 0)), z3.IntVal(0))


def mk_sums():
    G, L = GRAM.sort(), LNL.sort()

    class _TR:      # adapter: build the field view from raw terms
        def __init__(self, g, n, ln):
            self.fields = {'grammar': ZV(GRAM, g), 'ngram': ZV(TInt, n), 'ln_lookup': ZV(LNL, ln)}
    inner = SpecFun('KsInner', [G, T.IntS, L, T.IntS, T.IntS, T.IntS], T.IntS,
                    lambda g, n, ln, level, i, j: z3.If(j <= 0, z3.IntVal(0),
                                                        inner(g, n, ln, level, i, j - 1) + term(_TR(g, n, ln), level, i, j - 1)),
                    doc='sum over the first j lengths for the i-th initial n-gram')
    outer = SpecFun('KsOuter', [G, T.IntS, L, T.IntS, T.IntS], T.IntS,
                    lambda g, n, ln, level, i: z3.If(i <= 0, z3.IntVal(0),
                                                     outer(g, n, ln, level, i - 1) + inner(g, n, ln, level, i - 1, LNL.len(ln))),
                    doc='sum over the first i initial n-grams (all lengths)')
    return inner, outer


KsInner, KsOuter = mk_sums()


def _inner_zero(g, n, ln, level, i, j):
    el = z3.Select(GITEMS.arr(g_items(g)), i)
    return [level - GENT.get(GITEM.get(el, 1), 'ip_level') < 0], KsInner(g, n, ln, level, i, j) == 0


from pyvc.lemma import Schema     # noqa: E402
inner_zero = Schema('C18.inner_zero', [('g', GRAM.sort()), ('n', T.IntS), ('ln', LNL.sort()), ('level', T.IntS), ('i', T.IntS), ('j', T.IntS)],
                    _inner_zero, induction='j',
                    doc='an initial n-gram whose own level exceeds the target level contributes nothing, whatever the lengths')


def tr_args(tr):
    return tr.fields['grammar'].term, tr.fields['ngram'].term, tr.fields['ln_lookup'].term


def cget(ks, level):
    return z3.If(KS.has(ks, level), KS.get(ks, level), z3.IntVal(0))


def full(tr, level):
    g, n, ln = tr_args(tr)
    return KsOuter(g, n, ln, level, GITEMS.len(g_items(g)))


def complete_below(tr, ks, upto):
    """every level 1..upto-1 holds its complete sum; no other level is listed"""
    lv = z3.Int('lv!cb')
    return z3.ForAll([lv], z3.And(z3.Implies(z3.And(1 <= lv, lv < upto), cget(ks, lv) == full(tr, lv)),
                                  z3.Implies(z3.Or(lv < 1, lv >= upto), z3.Not(KS.has(ks, lv)))),
                     patterns=[full(tr, lv)])


Contract(
    EV + ':_rec_calc_keyspace',
    params={'omen_trainer': TRAINER, 'level': TInt, 'length': TInt, 'ip': TStr},
    result=TInt,
    ensures=lambda c: [('count', z3.And(c.result.term == RecCount(c.omen_trainer.fields['grammar'].term, c.level.term, c.length.term, c.ip.term),
                                        c.result.term >= 0))],
    trusted=True,
    note='trusted: the memoised recursive count (its caches are outside the abstraction of the trainer object used here); '
         'compared with the real generator by C18.bounded.keyspace',
)


def _ck_requires(c):
    tr = c.omen_trainer
    return [('class_invariant', z3.And(tr.fields['ngram'].term >= 2, c.max_level.term >= 0))]


def _ck_ensures(c):
    tr = c.omen_trainer
    ks = c.result.term
    lv = z3.Int('lv!ce')
    return [
        # every listed level carries its complete sum over all initial n-grams and lengths (also the level at which the cut-off stops the run)
        ('listed_levels_are_complete', z3.ForAll([lv], z3.Implies(KS.has(ks, lv), z3.And(1 <= lv, lv <= c.max_level.term,
                                                                                         KS.get(ks, lv) == full(tr, lv))),
                                                 patterns=[full(tr, lv)])),
    ]


def _ck_inv_level(L):
    tr = L.entry.args['omen_trainer']
    lv = z3.Int('lv!il')
    return [('levels_done', z3.And(1 <= L.i, complete_below(tr, L.keyspace.term, L.i)))]


def others_kept(tr, ks, level):
    lv = z3.Int('lv!ok')
    return z3.ForAll([lv], z3.And(z3.Implies(z3.And(1 <= lv, lv < level), cget(ks, lv) == full(tr, lv)),
                                  z3.Implies(z3.Or(lv < 1, lv > level), z3.Not(KS.has(ks, lv)))),
                     patterns=[full(tr, lv)])


def _ck_inv_ip(L):
    tr = L.entry.args['omen_trainer']
    g, n, ln = tr_args(tr)
    level = L.level.term
    return [('partial_ip', cget(L.keyspace.term, level) == KsOuter(g, n, ln, level, L.i)),
            ('others_kept', others_kept(tr, L.keyspace.term, level))]


def _ck_inv_len(L):
    tr = L.entry.args['omen_trainer']
    g, n, ln = tr_args(tr)
    level = L.level.term
    i = L.env['$i1'].term
    el = z3.Select(GITEMS.arr(g_items(g)), i)
    return [('partial_len', cget(L.keyspace.term, level) == KsOuter(g, n, ln, level, i) + KsInner(g, n, ln, level, i, L.i)),
            ('others_kept', others_kept(tr, L.keyspace.term, level)),
            ('ip_fixed', z3.And(L.level_minus_ip.term == level - GENT.get(GITEM.get(el, 1), 'ip_level'), L.ip.term == GITEM.get(el, 0)))]


_ck = Contract(
    EV + ':calc_omen_keyspace',
    params={'omen_trainer': TRAINER, 'max_level': TInt, 'max_keyspace': TInt},
    requires=_ck_requires,
    result=KS,
    ensures=_ck_ensures,
    locals={'keyspace': KS},
    loops={0: LoopSpec(fingerprint='for level in range(1,max_level+1)', inv=_ck_inv_level),
           1: LoopSpec(fingerprint='for ip, ip_info in omen_trainer.grammar.items()', inv=_ck_inv_ip,
                       hints=lambda L: [inner_zero.inst(*tr_args(L.entry.args['omen_trainer']), L.level.term, L.i,
                                                        LNL.len(L.entry.args['omen_trainer'].fields['ln_lookup'].term))]),
           2: LoopSpec(fingerprint='for length, length_info in enumerate(omen_trainer.ln_lookup)', inv=_ck_inv_len)},
    raises=(),
    note='C18.keyspace: keyspace[level] = sum over initial n-grams with ip_level <= level and lengths >= ngram with length level <= the rest of '
         'RecCount(rest, length - ngram + 1, ip); a listed level is complete (the max_keyspace cut-off is applied only after the level is finished)',
)
_ck.defaults = {'max_level': lambda: ZV(TInt, z3.IntVal(18), 18), 'max_keyspace': lambda: ZV(TInt, z3.IntVal(10000000000), 10000000000)}
