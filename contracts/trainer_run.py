"""
Sidecar contract: lib_trainer/run_trainer.py:run_trainer  (C06.coverage, C19.same_sequence, C19.N).

The three passes, the OMEN trainer and the savers are behind trusted one-line contracts (their own
properties are decided elsewhere: C05 parse, C11/C18 OMEN, C06/C07 savers).  What is proved of
run_trainer itself:
  * the three TrainerFileInput objects are built from identical arguments, so (read_password being a function of
    file content and those arguments, C19) all passes see the same password sequence;
  * N used for the coverage pseudo-count and for the OMEN probabilities is num_passwords of pass 1;
  * the Markov base structure: coverage == 1 leaves the base-structure counter untouched, coverage == 0 makes it {'M': 1},
    otherwise count['M'] = N / coverage - N.
"""
import z3

from pyvc import theory as T
from pyvc import builtins as B
from pyvc.theory import TInt, TBool, TF, TStr, TList, TTuple, TRec, TOpt, TDict, SpecFun
from pyvc.engine import (Contract, Case, LoopSpec, ObjShape, ZV, PObj, PRec, PTuple, PNone, PList,
                         box, unbox, fresh, empty_list, ShapeMismatch, zbool, zint, zstr)
from contracts import trainer_detect as td
from contracts import trainer_io as tio

RT = 'lib_trainer.run_trainer'
fv = T.fval
LSTR = TList(TStr)

PROGRAM_INFO = TRec({'training_file': TStr, 'encoding': TStr, 'prefixcount': TBool, 'alphabet_size': TInt, 'ngram': TInt,
                     'multiword': TOpt(TStr), 'max_len': TInt, 'coverage': TF, 'save_sensitive': TBool, 'alphabet': TStr,
                     'rule_name': TStr, 'comments': TStr})

OPQ = {}


def opaque_sort(name):
    if name not in OPQ:
        OPQ[name] = T._Prim(name, z3.DeclareSort(name))
    return OPQ[name]


# ---- TrainerFileInput ------------------------------------------------------------------------------------
TFI = 'lib_trainer.trainer_file_input:TrainerFileInput'
FI_OBJ = ObjShape(TFI, {'filename': TStr, 'encoding': TStr, 'prefixcount': TBool, 'num_passwords': TInt, 'num_encoding_errors': TInt,
                        'duplicates_found': TBool, 'num_to_look_for_duplicates': TInt})
PasswordsOf = z3.Function('PasswordsOf', T.Str, T.Str, T.BoolS, LSTR.sort())    # C19: the yielded sequence as a function of (file, encoding, prefixcount)

_fi = Contract(
    TFI + '.__init__',
    params={'self': FI_OBJ, 'filename': TStr, 'encoding': TStr, 'prefixcount': TBool},
    cases=[Case('opened', lambda c: PNone(), lambda c: [
        ('fields', z3.And(c.result.fields['filename'].term == c.filename.term, c.result.fields['encoding'].term == c.encoding.term,
                          c.result.fields['prefixcount'].term == c.prefixcount.term, c.result.fields['num_passwords'].term == 0))])],
    trusted=True, raises=('IOError',), note='opens the training file (C19)')
_fi.defaults = {'encoding': lambda: zstr('utf-8'), 'prefixcount': lambda: zbool(False)}

Contract(
    TFI + '.read_password',
    params={'self': FI_OBJ},
    self_modifies=('num_passwords', 'num_encoding_errors', 'duplicates_found'),
    cases=[Case('all', lambda c: fresh(LSTR, 'passwords'), lambda c: [
        ('the_sequence_is_a_function_of_file_and_arguments', c.result.term == PasswordsOf(
            c.self.fields['filename'].term, c.self.fields['encoding'].term, c.self.fields['prefixcount'].term)),
        ('N_is_the_number_yielded', c.after['self'].fields['num_passwords'].term ==
         c.self.fields['num_passwords'].term + LSTR.len(c.result.term))])],
    trusted=True, raises=('IOError',),
    note='C19 (verified for the generator body in props/C19): iterating read_password() to the end yields the sequence determined by the file '
         'content and the constructor arguments, and advances num_passwords by its length (the generator is modelled by the list it yields)')


def trusted(qual, params, result=None, self_modifies=None, mutates=(), note='', raises=()):
    return Contract(qual, params=params, result=result, self_modifies=self_modifies, mutates=mutates, trusted=True, raises=raises, note=note)


AG = 'lib_trainer.omen.alphabet_generator:AlphabetGenerator'
AG_OBJ = ObjShape(AG, {'state': opaque_sort('AgState')})
trusted(AG + '.__init__', {'self': AG_OBJ, 'alphabet_size': TInt, 'ngram': TInt}, note='OMEN alphabet (C11)')
trusted(AG + '.process_password', {'self': AG_OBJ, 'password': TStr}, self_modifies=('state',))
trusted(AG + '.get_alphabet', {'self': AG_OBJ}, result=TStr)
MW = td.MW
trusted(MW + '.__init__', {'self': td.MW_OBJ, 'threshold': TInt, 'min_len': TInt, 'max_len': TInt})
trusted(MW + '.train', {'self': td.MW_OBJ, 'input_password': TStr, 'set_threshold': TBool}, self_modifies=('lookup',))
Contract.registry[MW + '.train'].defaults = {'set_threshold': lambda: zbool(False)}
AL = 'lib_trainer.omen.alphabet_lookup:AlphabetLookup'
AL_OBJ = ObjShape(AL, {'state': opaque_sort('OmenTrainerState')})
trusted(AL + '.__init__', {'self': AL_OBJ, 'alphabet': TStr, 'ngram': TInt, 'max_length': TInt})
trusted(AL + '.parse', {'self': AL_OBJ, 'password': TStr}, self_modifies=('state',))
trusted(AL + '.apply_smoothing', {'self': AL_OBJ}, self_modifies=('state',))
KEYSPACE = opaque_sort('OmenKeyspace')
trusted('lib_trainer.omen.evaluate_password:calc_omen_keyspace', {'omen_trainer': AL_OBJ}, result=KEYSPACE, note='C18')
trusted('lib_trainer.omen.evaluate_password:find_omen_level', {'omen_trainer': AL_OBJ, 'password': TStr}, result=TInt, note='C11')
trusted('lib_trainer.print_statistics:print_statistics', {'pcfg_parser': td.ANY if hasattr(td, 'ANY') else TInt})


# the parser as run_trainer sees it: only the base-structure counter matters here (numbers, since 'M' gets a float pseudo-count)
NUMCOUNTER = TDict(TStr, TF, counter=True)
PARSER_RT = ObjShape(td.PP, {'count_base_structures': NUMCOUNTER, 'rest': opaque_sort('ParserRest')})
trusted(td.PP + '.__init__', {'self': PARSER_RT, 'multiword_detector': td.MW_OBJ})

# in run_trainer's world PCFGPasswordParser.parse is an opaque step (its own contract is verified under C05)
Contract(td.PP + '.parse', params={'self': PARSER_RT, 'password': TStr}, result=TBool,
         self_modifies=('count_base_structures', 'rest'), trusted=True, note='C05/C06.unsupported decide what parse() tallies')
CF = 'lib_trainer.config_file:save_config_file'
trusted(CF, {'base_directory': TStr, 'program_info': PROGRAM_INFO, 'file_input': FI_OBJ, 'pcfg_parser': PARSER_RT}, result=TBool)
SO = 'lib_trainer.omen.omen_file_output:save_omen_rules_to_disk'
trusted(SO, {'omen_trainer': AL_OBJ, 'omen_keyspace': KEYSPACE, 'omen_levels_count': TDict(TInt, TInt, counter=True),
             'num_valid_passwords': TInt, 'base_directory': TStr, 'program_info': PROGRAM_INFO}, result=TBool, note='C18.prob.post uses this N')
SD = 'lib_trainer.save_pcfg_data:save_pcfg_data'
trusted(SD, {'base_directory': TStr, 'pcfg_parser': PARSER_RT, 'encoding': TStr, 'save_sensitive': TBool}, result=TBool)


def _hook_save(eng, st, c2, e, exprs):
    if '$saved_counter' in st.env:
        st.env['$saved_counter'] = c2.args['pcfg_parser'].fields['count_base_structures']
        st.env['$saved'] = zbool(True)


def _hook_omen(eng, st, c2, e, exprs):
    if '$N_omen' in st.env:
        st.env['$N_omen'] = c2.args['num_valid_passwords']


Contract.registry[SD].call_hook = _hook_save
Contract.registry[SO].call_hook = _hook_omen


def _hook_fi(eng, st, c2, e, exprs):
    # remember the arguments of the k-th TrainerFileInput(...) built from program_info['training_file']
    if '$fi_count' in st.env:
        k = st.env['$fi_k'].pyval if '$fi_k' in st.env else 0
        is_training = isinstance(e.args[0], __import__('ast').Subscript) and 'training_file' in __import__('ast').unparse(e.args[0])
        if is_training and k is not None and k < 3:
            st.env['$fi_file_%d' % k] = c2.args['filename']
            st.env['$fi_enc_%d' % k] = c2.args['encoding']
            st.env['$fi_pc_%d' % k] = c2.args['prefixcount']
            st.env['$fi_k'] = zint(k + 1)
            st.env['$fi_count'] = zint(k + 1)


Contract.registry[TFI + '.__init__'].call_hook = _hook_fi


def _hook_parse(eng, st, c2, e, exprs):
    pass


M_KEY = T.str_lit('M')


def _rt_ensures(c):
    a = c.after
    saved = a['$saved'].term
    cov = c.program_info.fields['coverage'].term
    seq = PasswordsOf(c.program_info.fields['training_file'].term, c.program_info.fields['encoding'].term,
                      c.program_info.fields['prefixcount'].term)
    N = LSTR.len(seq)
    parsed = a['$parsed_counter'].term
    sc = a['$saved_counter'].term
    only_m = NUMCOUNTER.put(NUMCOUNTER.mk(z3.K(T.Str, z3.BoolVal(False)), z3.K(T.Str, T.F_ZERO)), M_KEY, T.F_ONE)
    pseudo = T.fsub(T.fdiv(T.int2f(N), cov), T.int2f(N))
    same_args = z3.And([z3.And(a['$fi_file_%d' % k].term == c.program_info.fields['training_file'].term,
                               a['$fi_enc_%d' % k].term == c.program_info.fields['encoding'].term,
                               a['$fi_pc_%d' % k].term == c.program_info.fields['prefixcount'].term) for k in range(3)])
    return [
        ('C19_three_passes_read_the_same_sequence', z3.Implies(saved, z3.And(a['$fi_count'].term == 3, same_args))),
        ('C19_N_is_pass_one', z3.Implies(saved, a['$N_omen'].term == N)),
        ('C06_coverage_one_leaves_structures_alone', z3.Implies(z3.And(saved, fv(cov) == 1), sc == parsed)),
        ('C06_coverage_zero_is_markov_only', z3.Implies(z3.And(saved, fv(cov) == 0), sc == only_m)),
        ('C06_markov_pseudo_count', z3.Implies(z3.And(saved, fv(cov) != 0, fv(cov) != 1), sc == NUMCOUNTER.put(parsed, M_KEY, pseudo))),
    ]


def _inv_pass2(L):
    return [('training_file_inputs_so_far', L.env['$fi_count'].term == 2)]


def _ghost_parsed(eng, st):
    st.env['$parsed_counter'] = st.env['pcfg_parser'].fields['count_base_structures']


_rt = Contract(
    RT + ':run_trainer',
    params={'program_info': PROGRAM_INFO, 'base_directory': TStr,
            '$fi_count': TInt, '$fi_file_0': TStr, '$fi_enc_0': TStr, '$fi_pc_0': TBool, '$fi_file_1': TStr, '$fi_enc_1': TStr, '$fi_pc_1': TBool,
            '$fi_file_2': TStr, '$fi_enc_2': TStr, '$fi_pc_2': TBool, '$N_omen': TInt, '$saved': TBool, '$saved_counter': NUMCOUNTER,
            '$parsed_counter': NUMCOUNTER},
    requires=lambda c: [('ghost_start', z3.And(c.args['$fi_count'].term == 0, z3.Not(c.args['$saved'].term)))],
    cases=[Case('done', lambda c: fresh(TOpt(TBool), 'ok'), _rt_ensures)],
    mutates=('program_info',),
    raises=('IOError',),
    locals={'omen_levels_count': TDict(TInt, TInt, counter=True)},
    loops={0: LoopSpec(fingerprint='for multiword in multiword_input.read_password()', inv=lambda L: []),
           1: LoopSpec(fingerprint='for password in file_input.read_password()', inv=lambda L: []),
           2: LoopSpec(fingerprint='for password in file_input.read_password()', inv=lambda L: []),
           3: LoopSpec(fingerprint='for password in file_input.read_password()', inv=lambda L: [
               ('parsed_counter_fixed', L.env['$parsed_counter'].term == L.pcfg_parser.fields['count_base_structures'].term)],
               ghost_entry=_ghost_parsed)},
    note='C06.coverage, C19.same_sequence, C19.N',
)
