"""
Sidecar contracts for PRINCE-LING (C17): lib_princeling/wordlist_generation.py:create_prince_wordlist,
PcfgGrammar.save_to_file / write_guess_to_file, lib_trainer/prince_metrics.py:prince_evaluation.
"""
import z3

from pyvc import theory as T
from pyvc import builtins as B
from pyvc.theory import TInt, TBool, TF, TStr, TList, TTuple, TRec, TOpt, TDict, TSeq, SpecFun
from pyvc.engine import (Contract, Case, LoopSpec, ObjShape, ZV, PObj, PRec, PTuple, PNone, PList, PFun,
                         box, unbox, fresh, ShapeMismatch, zbool)
from contracts.guesser_core import *      # noqa
from contracts.guesser_expand import *    # noqa
from contracts.guesser_session import FlatE, POPPED, PSEQ, flat_ext
from contracts import guesser_lemmas as gl
from contracts import guesser_session as gs

WG = 'lib_princeling.wordlist_generation'


def _cpw_requires(c):
    G = g_of(c.pcfg)
    return [('wf_base', wf_base(G, c.pcfg.fields['base'].term)), ('wf_grammar', z3.And(gl.wf_grammar(G))),
            ('not_debug', z3.Not(c.pcfg.fields['debug'].term)),
            ('no_keyboard_thread', z3.And(z3.Not(c.args['$quit'].term), z3.Not(c.args['$exit_seen'].term))),
            ('empty_log', z3.Length(c.args['$popped'].term) == 0)]


def _cpw_ensures(c):
    G = g_of(c.pcfg)
    OG = c.pcfg.fields['omen_grammar'].term
    popped = c.after['$popped'].term
    n = z3.Length(popped)
    out0, out1 = c.args['$out'].term, c.after['$out'].term
    sh = TOpt(TInt)
    N = sh.val(c.max_size.term)
    bounded = z3.Not(sh.is_none(c.max_size.term))
    written = z3.Length(out1) - z3.Length(out0)
    whole = FlatE(G, OG, popped, n)
    last = popped[n - 1]
    cut = z3.And(n >= 1, out1 == z3.Concat(out0, FlatE(G, OG, popped, n - 1),
                                           take(N - z3.Length(FlatE(G, OG, popped, n - 1)),
                                                ExpandL(G, OG, T.S_EMPTY, PTITEM.get(last, 'pt')))))
    return [('at_most_size', z3.Implies(bounded, written <= z3.If(N < 0, 0, N))),
            ('first_N_of_the_unbounded_list', z3.Or(out1 == z3.Concat(out0, whole), z3.And(bounded, cut, written == N))),
            ('short_only_if_exhausted', z3.Implies(z3.And(bounded, written < N), out1 == z3.Concat(out0, whole)))]


def _cpw_inv(L):
    e = L.entry
    pcfg = L.pcfg
    G = g_of(pcfg)
    OG = pcfg.fields['omen_grammar'].term
    q = L.pqueue
    H = q.fields['p_queue'].term
    popped = L.env['$popped'].term
    n = z3.Length(popped)
    done = FlatE(G, OG, popped, n)
    sh = TOpt(TInt)
    return [('queue_rep', z3.And(in_bag_all_wf(G, H), gl.counts_nonneg(H), gl.queue_bound(H, q.fields['max_probability'].term))),
            ('stream', z3.Or(L.env['$out'].term == z3.Concat(e.args['$out'].term, done),
                             z3.And(z3.Not(sh.is_none(e.args['max_size'].term)), n >= 1,
                                    L.num_generated_guesses.term == sh.val(e.args['max_size'].term),
                                    L.env['$out'].term == z3.Concat(
                                        e.args['$out'].term, FlatE(G, OG, popped, n - 1),
                                        take(sh.val(e.args['max_size'].term) - z3.Length(FlatE(G, OG, popped, n - 1)),
                                             ExpandL(G, OG, T.S_EMPTY, PTITEM.get(popped[n - 1], 'pt'))))))),
            ('count', L.num_generated_guesses.term == z3.Length(L.env['$out'].term) - z3.Length(e.args['$out'].term)),
            ('bound', z3.Or(sh.is_none(e.args['max_size'].term), L.num_generated_guesses.term <= z3.If(sh.val(e.args['max_size'].term) < 0, 0, sh.val(e.args['max_size'].term)))),
            ('grammar_kept', z3.And(G == g_of(e.args['pcfg']), OG == e.args['pcfg'].fields['omen_grammar'].term,
                                    z3.Not(pcfg.fields['debug'].term))),
            ('no_exit', z3.Not(L.env['$exit_seen'].term))]


_cpw = Contract(
    WG + ':create_prince_wordlist',
    params={'pcfg': GRAMMAR_OBJ, 'max_size': TOpt(TInt), '$out': OUT, '$quit': TBool, '$exit_seen': TBool, '$popped': POPPED,
            '$saved': PTITEMS},
    requires=_cpw_requires,
    ensures=_cpw_ensures,
    mutates=('pcfg',),
    locals={'limit': TOpt(TInt)},
    loops={0: LoopSpec(fingerprint='while max_size is None or', inv=_cpw_inv,
                       extra_writes=['$popped', '$exit_seen'])},
    note='C17.size.post: at most --size words, namely the first N of the unbounded list',
)


# ---- output to a file -----------------------------------------------------------------------------------
OUTFILE_CLS = 'codecs:StreamReaderWriter'
GRAMMAR_FILE_OBJ = ObjShape(MOD + ':PcfgGrammar', dict(GRAMMAR_OBJ.fields, output_filename=TOpt(TStr),
                                                      output_file=ObjShape(OUTFILE_CLS, {'text': TStr, 'name': TStr})))


def _file_write(eng, e, st, args, kw):
    f, s = args[0], args[1]
    new = f.with_field('text', ZV(TStr, eng.mk_cat(f.fields['text'].term, box(s, TStr))))
    eng.assign(e.func.value, new, st)
    return PNone()


def _codecs_open(eng, e, st, args, kw):
    mode = args[1] if len(args) > 1 else kw.get('mode')
    if isinstance(mode, ZV) and mode.pyval == 'w':
        return PObj(OUTFILE_CLS, {'text': ZV(TStr, T.S_EMPTY, ''), 'name': args[0]})
    return B._open(eng, e, st, args, kw)


def install(eng):
    gs.install(eng)
    eng.builtins[OUTFILE_CLS + '.write'] = _file_write
    eng.builtins['codecs.open'] = _codecs_open


Contract(
    MOD + ':PcfgGrammar.write_guess_to_file',
    params={'self': GRAMMAR_FILE_OBJ, 'guess': TStr},
    self_modifies=('output_file',),
    ensures=lambda c: [('one_line', c.after['self'].fields['output_file'].fields['text'].term ==
                        T.scat(T.scat(c.self.fields['output_file'].fields['text'].term, c.guess.term), T.schar(z3.IntVal(10))))],
    note='C17.file_eq_stdout: the file receives guess + LF, the line print(guess) would produce',
)


def _stf_ensures(c):
    s1 = c.after['self']
    pg = s1.fields.get('print_guess')
    named = box(c.filename, TOpt(TStr))
    sh = TOpt(TStr)
    truthy = z3.And(z3.Not(sh.is_none(named)), T.slen(sh.val(named)) != 0)
    redirected = isinstance(pg, PFun) and pg.kind == 'method' and pg.payload[1] == 'write_guess_to_file'
    out = [('filename_recorded', box(s1.fields['output_filename'], TOpt(TStr)) == named)]
    if redirected:
        out.append(('redirected_only_with_a_filename', truthy))
        out.append(('starts_empty', s1.fields['output_file'].fields['text'].term == T.S_EMPTY))
    else:
        out.append(('stdout_kept_without_a_filename', z3.Not(truthy)))
    return out


Contract(
    MOD + ':PcfgGrammar.save_to_file',
    params={'self': GRAMMAR_FILE_OBJ, 'filename': TOpt(TStr)},
    self_modifies=('output_filename', 'output_file', 'print_guess'),
    ensures=_stf_ensures,
    note='C17: with a filename the single output point becomes write_guess_to_file on a freshly opened file, otherwise print_guess stays',
)


# ---- trainer side: prince_evaluation ----------------------------------------------------------------------
PM = 'lib_trainer.prince_metrics'
SECTION = TTuple([TStr, TOpt(TStr)])
SECTIONS = TList(SECTION)
COUNTER = TDict(TOpt(TStr), TInt, counter=True)


def _cnt_def(sl, lab, k):
    e = z3.Select(SECTIONS.arr(sl), k - 1)
    return z3.If(k <= 0, z3.IntVal(0), CountLabel(sl, lab, k - 1) + z3.If(SECTION.get(e, 1) == lab, 1, 0))


CountLabel = SpecFun('CountLabel', [SECTIONS.sort(), TOpt(TStr).sort(), T.IntS], T.IntS, _cnt_def,
                     doc='number of the first k sections carrying the label', quantified=True)


def counter_get(cnt, lab):
    return z3.If(COUNTER.has(cnt, lab), COUNTER.get(cnt, lab), z3.IntVal(0))


def _pe_tally(c0, c1, sl, k):
    lab = z3.Const('lab!pe', TOpt(TStr).sort())
    return z3.ForAll([lab], counter_get(c1, lab) == counter_get(c0, lab) + CountLabel(sl, lab, k),
                     patterns=[CountLabel(sl, lab, k)])


Contract(
    PM + ':prince_evaluation',
    params={'count_prince': COUNTER, 'section_list': SECTIONS},
    mutates=('count_prince',),
    ensures=lambda c: [('tally', _pe_tally(c.count_prince.term, c.after['count_prince'].term, c.section_list.term,
                                          SECTIONS.len(c.section_list.term)))],
    loops={0: LoopSpec(fingerprint='for item in section_list',
                       inv=lambda L: [('tally_prefix', _pe_tally(L.entry.args['count_prince'].term, L.count_prince.term,
                                                                 L.section_list.term, L.i))])},
    note='C17.prince.tally: every label of every section is counted once',
)
