"""
Sidecar contracts: lib_guesser/pcfg_grammar.py (queue-facing part) and
lib_guesser/priority_queue.py.   Properties C01, C02 (and reused by C08, C14, C16, C17).

Vocabulary (DESIGN.md section 4):
  G      : dict  type -> list of groups {values: list[str], prob: float}
  pt     : list of (type, index)
  Fold(G, pt, b, k)   left-to-right product  b * G[t0][i0].prob * ... * G[t(k-1)][i(k-1)].prob
  P(pt)  = Fold(G, pt, base_prob, len(pt))
  inc(pt,j)/dec(pt,j) : pt with index j one higher / lower
  OkPar(child, j, ppos, pprob): the co-parent at position j does not take the child away
        from the calling parent:  j == ppos  or  child[j].index == 0  or
        P(dec(child,j)) > pprob  or  (P(dec(child,j)) == pprob and j > ppos)
  Adopt(child, ppos, pprob) = forall j in [0,len). OkPar(child,j,ppos,pprob)
  Kids(G, pt, b, pprob, k)  : the children adopted at positions < k, in position order
"""
import z3

from pyvc import theory as T
from pyvc.theory import TInt, TBool, TF, TStr, TList, TTuple, TRec, TOpt, TDict, TBag, SpecFun
from pyvc.engine import (Contract, Case, LoopSpec, ObjShape, FunShape, ZV, PObj, PRec, PTuple, PNone, PList,
                         box, unbox, fresh, empty_list, ShapeMismatch)

MOD = 'lib_guesser.pcfg_grammar'
PQ = 'lib_guesser.priority_queue'

# ------------------------------------------------------------------------------- shapes
PT_ELEM = TTuple([TStr, TInt])
PT = TList(PT_ELEM)
PTITEM = TRec({'prob': TF, 'pt': PT, 'base_prob': TF})
GROUP = TRec({'values': TList(TStr), 'prob': TF})
GLIST = TList(GROUP)
GRAMMAR = TDict(TStr, GLIST)
BASE_ELEM = TRec({'prob': TF, 'replacements': TList(TStr)})
BASE = TList(BASE_ELEM)
PTITEMS = TList(PTITEM)

OMEN_GRAMMAR = T._Prim('omen_grammar', z3.DeclareSort('OmenGrammar'))
OMEN_OPT = T._Prim('omen_optimizer', z3.DeclareSort('OmenOptimizer'))
GRAMMAR_OBJ = ObjShape(MOD + ':PcfgGrammar', {
    'grammar': GRAMMAR, 'base': BASE, 'debug': TBool, 'omen_grammar': OMEN_GRAMMAR, 'omen_optimizer': OMEN_OPT,
    'omen_guess_num': TInt, 'should_exit': TBool, 'omen_exit': TBool, 'save_file': TStr,
    'ruleset_info': TRec({'uuid': TStr, 'encoding': TStr})})
QITEM = ObjShape(PQ + ':QueueItem', {'pt_item': PTITEM})
BAG = TBag(QITEM)
QUEUE_OBJ = ObjShape(PQ + ':PcfgQueue', {
    'pcfg': GRAMMAR_OBJ, 'p_queue': BAG, 'max_probability': TF, 'min_probability': TF,
    'max_queue_size': TInt})


# ------------------------------------------------------------------------------- spec terms
def g_of(selfv):
    return selfv.fields['grammar'].term


def pt_type(pt, k):
    return PT_ELEM.get(z3.Select(PT.arr(pt), k), 0)


def pt_idx(pt, k):
    return PT_ELEM.get(z3.Select(PT.arr(pt), k), 1)


def glist(G, ty):
    return GRAMMAR.get(G, ty)


def gprob(G, ty, i):
    return GROUP.get(z3.Select(GLIST.arr(glist(G, ty)), i), 'prob')


def gvalues(G, ty, i):
    return GROUP.get(z3.Select(GLIST.arr(glist(G, ty)), i), 'values')


def wf_pt(G, pt):
    """every (type, index) of pt designates a group of G."""
    k = z3.Int('k!wf')
    return z3.ForAll([k], z3.Implies(z3.And(0 <= k, k < PT.len(pt)),
                                     z3.And(GRAMMAR.has(G, pt_type(pt, k)), 0 <= pt_idx(pt, k),
                                            pt_idx(pt, k) < GLIST.len(glist(G, pt_type(pt, k))))),
                     patterns=[z3.Select(PT.arr(pt), k)])


def with_idx(pt, j, d):
    e = z3.Select(PT.arr(pt), j)
    return PT.mk(PT.len(pt), z3.Store(PT.arr(pt), j, PT_ELEM.mk(PT_ELEM.get(e, 0), PT_ELEM.get(e, 1) + d)))


def inc(pt, j):
    return with_idx(pt, j, 1)


def dec(pt, j):
    return with_idx(pt, j, -1)


def _fold_def(G, pt, b, k):
    return z3.If(k <= 0, b, T.fmul(Fold(G, pt, b, k - 1), gprob(G, pt_type(pt, k - 1), pt_idx(pt, k - 1))))


Fold = SpecFun('Fold', [GRAMMAR.sort(), PT.sort(), T.F, T.IntS], T.F, _fold_def,
               doc='left-to-right product of base probability and the first k group probabilities')


def P(G, pt, b):
    return Fold(G, pt, b, PT.len(pt))


def ok_par(G, child, b, j, ppos, pprob):
    q = T.fval(P(G, dec(child, j), b))
    pp = T.fval(pprob)
    return z3.Or(j == ppos, pt_idx(child, j) == 0, q > pp, z3.And(q == pp, j > ppos))


def adopt_upto(G, child, b, ppos, pprob, n):
    j = z3.Int('j!ad')
    return z3.ForAll([j], z3.Implies(z3.And(0 <= j, j < n), ok_par(G, child, b, j, ppos, pprob)),
                     patterns=[z3.Select(PT.arr(child), j)])


def adopt(G, child, b, ppos, pprob):
    return adopt_upto(G, child, b, ppos, pprob, PT.len(child))


# Adopt as a named predicate so that list-valued specs can mention it without nesting
# quantifiers under recursive definitions.
AdoptP = SpecFun('AdoptP', [GRAMMAR.sort(), PT.sort(), T.F, T.IntS, T.F], T.BoolS,
                 lambda G, child, b, ppos, pprob: [AdoptP(G, child, b, ppos, pprob) == adopt(G, child, b, ppos, pprob)],
                 doc='Adopt(child, ppos, pprob): the calling parent is the one that inserts the child')


def mk_item(G, pt, b):
    return PTITEM.mk(base_prob=b, prob=P(G, pt, b), pt=pt)


def eligible(G, pt, j):
    return GLIST.len(glist(G, pt_type(pt, j))) != pt_idx(pt, j) + 1


def append(L, lst, x):
    return L.mk(L.len(lst) + 1, z3.Store(L.arr(lst), L.len(lst), x))


def _kids_def(G, pt, b, pprob, k):
    j = k - 1
    prev = Kids(G, pt, b, pprob, k - 1)
    child = inc(pt, j)
    take = z3.And(eligible(G, pt, j), AdoptP(G, child, b, j, pprob))
    return z3.If(k <= 0, empty_list(PTITEMS), z3.If(take, append(PTITEMS, prev, mk_item(G, child, b)), prev))


Kids = SpecFun('Kids', [GRAMMAR.sort(), PT.sort(), T.F, T.F, T.IntS], PTITEMS.sort(), _kids_def,
               doc='children adopted by the parent pt at positions < k, in position order')


# roots: one all-zero node per base structure
def _rootpt_def(repl, k):
    RL = TList(TStr)
    return z3.If(k <= 0, empty_list(PT),
                 append(PT, RootPt(repl, k - 1), PT_ELEM.mk(z3.Select(RL.arr(repl), k - 1), z3.IntVal(0))))


RootPt = SpecFun('RootPt', [TList(TStr).sort(), T.IntS], PT.sort(), _rootpt_def,
                 doc='[(replacements[0],0), ..., (replacements[k-1],0)]')


def root_item(G, base, n):
    e = z3.Select(BASE.arr(base), n)
    repl = BASE_ELEM.get(e, 'replacements')
    pt = RootPt(repl, TList(TStr).len(repl))
    return mk_item(G, pt, BASE_ELEM.get(e, 'prob'))


def _roots_def(G, base, k):
    return z3.If(k <= 0, empty_list(PTITEMS), append(PTITEMS, Roots(G, base, k - 1), root_item(G, base, k - 1)))


Roots = SpecFun('Roots', [GRAMMAR.sort(), BASE.sort(), T.IntS], PTITEMS.sort(), _roots_def,
                doc='the root pre-terminals of the first k base structures')


def wf_base(G, base):
    """every replacement of every base structure has at least one group in G."""
    n, k = z3.Ints('n!wb k!wb')
    RL = TList(TStr)
    e = z3.Select(BASE.arr(base), n)
    repl = BASE_ELEM.get(e, 'replacements')
    return z3.ForAll([n], z3.Implies(z3.And(0 <= n, n < BASE.len(base)),
                                     z3.And(RL.len(repl) >= 0, T.fval(BASE_ELEM.get(e, 'prob')) >= 0,
                                            T.fval(BASE_ELEM.get(e, 'prob')) <= 1,
                                            z3.ForAll([k], z3.Implies(z3.And(0 <= k, k < RL.len(repl)),
                                                                      z3.And(GRAMMAR.has(G, z3.Select(RL.arr(repl), k)),
                                                                             GLIST.len(glist(G, z3.Select(RL.arr(repl), k))) >= 1)),
                                                      patterns=[z3.Select(RL.arr(repl), k)]))),
                     patterns=[z3.Select(BASE.arr(base), n)])


# ------------------------------------------------------------------------------- bag (heap view)
bag_size = T.bag_size(BAG)


def bag_add(bag, x):
    return z3.Store(bag, x, z3.Select(bag, x) + 1)


def bag_del(bag, x):
    return z3.Store(bag, x, z3.Select(bag, x) - 1)


def qi(item_term):
    return QITEM.rec().mk(pt_item=item_term)


def _addall_def(bag, items, k):
    prev = AddAll(bag, items, k - 1)
    return z3.If(k <= 0, bag, bag_add(prev, qi(z3.Select(PTITEMS.arr(items), k - 1))))


AddAll = SpecFun('AddAll', [BAG.sort(), PTITEMS.sort(), T.IntS], BAG.sort(), _addall_def,
                 doc='the heap multiset after pushing the first k items of a list')


def qprob(q):
    return PTITEM.get(QITEM.rec().get(q, 'pt_item'), 'prob')


HOOKS = {}     # filled by contracts.guesser_lemmas (lemma instances used as hints)


# ------------------------------------------------------------------------------- contracts
def V(v):
    return v.term


Contract(
    MOD + ':PcfgGrammar._find_prob',
    params={'self': GRAMMAR_OBJ, 'pt': PT, 'base_prob': TF},
    requires=lambda c: [('wf_pt', wf_pt(g_of(c.self), V(c.pt)))],
    result=TF,
    ensures=lambda c: [('fold', V(c.result) == P(g_of(c.self), V(c.pt), V(c.base_prob)))],
    loops={0: LoopSpec(
        fingerprint='for item in pt',
        inv=lambda L: [('fold_prefix', V(L.prob) == Fold(g_of(L.self), V(L.pt), V(L.base_prob), L.i))])},
    note='C01._find_prob.post; also the determinism clause: the result is a function of (G, pt, base_prob)',
)


Contract(
    MOD + ':PcfgGrammar._are_you_my_child',
    params={'self': GRAMMAR_OBJ, 'child': PT, 'base_prob': TF, 'parent_pos': TInt, 'parent_prob': TF},
    requires=lambda c: [
        ('wf_child', wf_pt(g_of(c.self), V(c.child))),
        ('pos_in_range', z3.And(0 <= V(c.parent_pos), V(c.parent_pos) < PT.len(V(c.child)))),
    ],
    result=TBool,
    ensures=lambda c: [('adopt', V(c.result) == adopt(g_of(c.self), V(c.child), V(c.base_prob),
                                                      V(c.parent_pos), V(c.parent_prob)))],
    loops={0: LoopSpec(
        fingerprint='enumerate(child)',
        inv=lambda L: [('adopt_prefix', adopt_upto(g_of(L.self), V(L.child), V(L.base_prob), V(L.parent_pos),
                                                  V(L.parent_prob), L.i))])},
    note='C02._are_you_my_child.post',
)


def _find_children_requires(c):
    item = c.pt_item
    G = g_of(c.self)
    pt = item.fields['pt'].term
    return [('wf_pt', wf_pt(G, pt)),
            ('prob_is_P', item.fields['prob'].term == P(G, pt, item.fields['base_prob'].term))]


def _find_children_ensures(c):
    item = c.pt_item
    G = g_of(c.self)
    pt = item.fields['pt'].term
    b = item.fields['base_prob'].term
    return [('exact', V(c.result) == Kids(G, pt, b, item.fields['prob'].term, PT.len(pt)))]


def _find_children_inv(L):
    item = L.pt_item
    G = g_of(L.self)
    pt = item.fields['pt'].term
    b = item.fields['base_prob'].term
    return [('kids_prefix', V(L.children_list) == Kids(G, pt, b, item.fields['prob'].term, L.i))]


Contract(
    MOD + ':PcfgGrammar.find_children',
    params={'self': GRAMMAR_OBJ, 'pt_item': PTITEM},
    requires=_find_children_requires,
    result=PTITEMS,
    ensures=_find_children_ensures,
    locals={'children_list': PTITEMS},
    loops={0: LoopSpec(fingerprint='enumerate(parent_pt)', inv=_find_children_inv)},
    note='C02.find_children.exact, C01.find_children.post (each child carries P(child) and the base prob)',
)


def item_wf(G, it):
    pt = PTITEM.get(it, 'pt')
    return z3.And(wf_pt(G, pt), PT.len(pt) >= 0, T.fval(PTITEM.get(it, 'base_prob')) >= 0,
                  T.fval(PTITEM.get(it, 'base_prob')) <= 1,
                  PTITEM.get(it, 'prob') == P(G, pt, PTITEM.get(it, 'base_prob')),
                  T.fval(PTITEM.get(it, 'prob')) <= 1)


def items_wf(G, items, n):
    m = z3.Int('m!iw')
    return z3.ForAll([m], z3.Implies(z3.And(0 <= m, m < n), item_wf(G, z3.Select(PTITEMS.arr(items), m))),
                     patterns=[z3.Select(PTITEMS.arr(items), m)])


def _init_base_inv_outer(L):
    G = g_of(L.self)
    base = L.self.fields['base'].term
    return [('roots_prefix', V(L.pt_list) == Roots(G, base, L.i)),
            ('len', PTITEMS.len(V(L.pt_list)) == L.i),
            ('items_wf', items_wf(G, V(L.pt_list), L.i))]


def _init_base_inv_inner(L):
    item = L.item
    repl = item.fields['replacements'].term
    cur = L.pt_item
    k = z3.Int('k!ri')
    RL = TList(TStr)
    pt = cur.fields['pt'].term
    return [('rootpt_prefix', pt == RootPt(repl, L.i)),
            ('len', PT.len(pt) == L.i),
            ('pointwise', z3.ForAll([k], z3.Implies(z3.And(0 <= k, k < L.i),
                                                    z3.Select(PT.arr(pt), k) == PT_ELEM.mk(z3.Select(RL.arr(repl), k), z3.IntVal(0))),
                                    patterns=[z3.Select(PT.arr(pt), k)])),
            ('base_prob_kept', cur.fields['base_prob'].term == item.fields['prob'].term)]


Contract(
    MOD + ':PcfgGrammar.initalize_base_structures',
    params={'self': GRAMMAR_OBJ},
    requires=lambda c: [('wf_base', wf_base(g_of(c.self), c.self.fields['base'].term)),
                        ('probs_unit', HOOKS['probs_unit'](g_of(c.self)))],
    result=PTITEMS,
    ensures=lambda c: [('roots', V(c.result) == Roots(g_of(c.self), c.self.fields['base'].term,
                                                       BASE.len(c.self.fields['base'].term))),
                       ('len', PTITEMS.len(V(c.result)) == BASE.len(c.self.fields['base'].term)),
                       ('items_wf', items_wf(g_of(c.self), V(c.result), PTITEMS.len(V(c.result))))],
    locals={'pt_list': PTITEMS, 'pt_item': TRec({'base_prob': TF, 'pt': PT})},
    loops={0: LoopSpec(fingerprint='for item in self.base', inv=_init_base_inv_outer,
                       hints=lambda L: HOOKS['init_base_hint'](L)),
           1: LoopSpec(fingerprint="for replacement in item['replacements']", inv=_init_base_inv_inner,
                       shapes={'pt_item': TRec({'base_prob': TF, 'pt': PT})})},
    note='C01: one most-probable node per base structure, prob = P(root)',
)


# ---- priority_queue.py ----------------------------------------------------------------------
def _cmp_contract(name, rel):
    Contract(
        PQ + ':QueueItem.' + name,
        params={'self': QITEM, 'other': QITEM},
        result=TBool,
        ensures=lambda c, _rel=rel: [('inverted', V(c.result) == _rel(
            T.fval(c.self.fields['pt_item'].fields['prob'].term),
            T.fval(c.other.fields['pt_item'].fields['prob'].term)))],
        note='C01.QueueItem.%s.post' % name,
    )


_cmp_contract('__lt__', lambda a, b: a > b)
_cmp_contract('__le__', lambda a, b: a >= b)
_cmp_contract('__eq__', lambda a, b: a == b)
_cmp_contract('__ne__', lambda a, b: a != b)
_cmp_contract('__gt__', lambda a, b: a < b)
_cmp_contract('__ge__', lambda a, b: a <= b)


Contract(
    PQ + ':PcfgQueue.insert_queue',
    params={'self': QUEUE_OBJ, 'queue_item': PTITEM},
    self_modifies=('p_queue',),
    ensures=lambda c: [
        ('pushed', c.after['self'].fields['p_queue'].term ==
         bag_add(c.self.fields['p_queue'].term, qi(box(c.queue_item, PTITEM)))),
        ('size', bag_size(c.after['self'].fields['p_queue'].term) == bag_size(c.self.fields['p_queue'].term) + 1)],
    note='heappush of QueueItem(queue_item)',
)


def in_bag_all_wf(G, bag):
    """representation invariant of the queue: every queued item is a node with its own P."""
    q = z3.Const('q!inv', QITEM.sort())
    it = QITEM.rec().get(q, 'pt_item')
    pt = PTITEM.get(it, 'pt')
    return z3.ForAll([q], z3.Implies(z3.Select(bag, q) > 0,
                                     z3.And(wf_pt(G, pt), PT.len(pt) >= 0, T.fval(PTITEM.get(it, 'base_prob')) >= 0,
                                            PTITEM.get(it, 'prob') == P(G, pt, PTITEM.get(it, 'base_prob')))),
                     patterns=[z3.Select(bag, q)])


def _next_requires(c):
    G = g_of(c.self.fields['pcfg'])
    bag = c.self.fields['p_queue'].term
    q = z3.Const('q!n', QITEM.sort())
    return [('rep_inv', in_bag_all_wf(G, bag)),
            ('counts_nonneg', z3.ForAll([q], z3.Select(bag, q) >= 0, patterns=[z3.Select(bag, q)]))]


def _next_case_none():
    def post(c):
        if not isinstance(c.result, PNone):
            raise ShapeMismatch()
        return [('empty', bag_size(c.self.fields['p_queue'].term) == 0),
                ('queue_kept', c.after['self'].fields['p_queue'].term == c.self.fields['p_queue'].term),
                ('max_kept', c.after['self'].fields['max_probability'].term == c.self.fields['max_probability'].term)]
    return Case('exhausted', lambda c: PNone(), post)


def _next_case_item():
    def post(c):
        r = c.result
        if isinstance(r, PNone):
            raise ShapeMismatch()
        G = g_of(c.self.fields['pcfg'])
        H = c.self.fields['p_queue'].term
        H2 = c.after['self'].fields['p_queue'].term
        rt = box(r, PTITEM)
        rq = qi(rt)
        y = z3.Const('y!n', QITEM.sort())
        pt = PTITEM.get(rt, 'pt')
        return [
            ('nonempty', bag_size(H) > 0),
            ('was_queued', z3.Select(H, rq) > 0),
            ('maximal', z3.ForAll([y], z3.Implies(z3.Select(H, y) > 0, T.fval(qprob(y)) <= T.fval(qprob(rq))),
                                  patterns=[z3.Select(H, y)])),
            ('heap_step', H2 == AddAll(bag_del(H, rq),
                                       Kids(G, pt, PTITEM.get(rt, 'base_prob'), PTITEM.get(rt, 'prob'), PT.len(pt)),
                                       PTITEMS.len(Kids(G, pt, PTITEM.get(rt, 'base_prob'), PTITEM.get(rt, 'prob'),
                                                        PT.len(pt))))),
            ('max_updated', c.after['self'].fields['max_probability'].term == PTITEM.get(rt, 'prob')),
        ]
    return Case('popped', lambda c: fresh(PTITEM, 'popped'), post)


def _next_inv(L):
    # p_queue == AddAll(H after pop, kids, i)
    H1 = L.pre['self'].fields['p_queue'].term
    kids = L.seq.term
    return [('pushed_prefix', L.self.fields['p_queue'].term == AddAll(H1, kids, L.i))]


Contract(
    PQ + ':PcfgQueue.next',
    params={'self': QUEUE_OBJ},
    requires=_next_requires,
    cases=[_next_case_none(), _next_case_item()],
    self_modifies=('p_queue', 'max_probability'),
    loops={0: LoopSpec(fingerprint='for child in self.pcfg.find_children', inv=_next_inv)},
    note='C01.next.post / C02 heap step: H\' = H - {r} + children(r), r maximal, max_probability\' = r.prob',
)
