"""
Contracts for C10 (the OMEN generator enumerates each level exactly) -- the functions of lib_guesser/omen within reach of the verifier:

  GuessStructure._find_cp        the level search: highest level in [bottom, min(top, max_level)] at which the prefix has transitions
  GuessStructure._format_guess   the emitted string is the initial n-gram followed by the letter each parse-tree element points at
  MarkovCracker._find_first_object   lowest level 0..max_level (inclusive) holding an entry
  MarkovCracker._increase_len_for_target / _increase_ip_for_target   the cursors over lengths and initial n-grams: next entry in level order within the budget

The backtracking successor (GuessStructure.next_guess / _fill_out_parse_tree with the shared memo table) updates a list of mixed-type
lists in place and is outside the subset the verifier accepts; exactness of the enumeration (each string of the level once, none missing,
independent of the cache history) is carried by the bounded stand-in C10.bounded.enum and labelled as such.
"""
import z3

from pyvc import theory as T
from pyvc.theory import TInt, TBool, TStr, TList, TTuple, TRec, TDict, TOpt, SpecFun
from pyvc.engine import Contract, Case, LoopSpec, ObjShape, PTuple, PNone, ZV, fresh, box

GSM = 'lib_guesser.omen.guess_structure:GuessStructure'
MCM = 'lib_guesser.omen.markov_cracker:MarkovCracker'
LSTR = TList(TStr)
LVLS = TDict(TInt, LSTR)
CPT = TDict(TStr, LVLS)
ELEM = TTuple([TStr, TInt, TInt])            # [prefix, level, index]
TREE = TList(ELEM)
GS_OBJ = ObjShape(GSM, {'cp': CPT, 'max_level': TInt, 'ip': TStr, 'parse_tree': TREE})


def cap(self_, top):
    m = self_.fields['max_level'].term
    return z3.If(m < top, m, top)


def none_between(levels, lo, hi):
    """no level t with lo < t <= hi is present"""
    t = z3.Int('t!nb')
    return z3.ForAll([t], z3.Implies(z3.And(lo < t, t <= hi), z3.Not(LVLS.has(levels, t))), patterns=[LVLS.has(levels, t)])


def _fc_none(c):
    if not (isinstance(c.result, PTuple) and all(isinstance(x, PNone) for x in c.result.items)):
        return None
    cp = c.self.fields['cp'].term
    ip = c.ip.term
    return [('nothing_in_range', z3.Or(z3.Not(CPT.has(cp, ip)),
                                       none_between(CPT.get(cp, ip), c.bottom_level.term - 1, cap(c.self, c.top_level.term))))]


def _fc_found(c):
    if not (isinstance(c.result, PTuple) and not isinstance(c.result.items[0], PNone)):
        return None
    cp = c.self.fields['cp'].term
    ip = c.ip.term
    lst, lvl = c.result.items
    lv = lvl.term
    return [('in_range', z3.And(c.bottom_level.term <= lv, lv <= cap(c.self, c.top_level.term))),
            ('present', z3.And(CPT.has(cp, ip), LVLS.has(CPT.get(cp, ip), lv))),
            ('the_transitions_of_that_level', box(lst, LSTR) == LVLS.get(CPT.get(cp, ip), lv)),
            ('highest', none_between(CPT.get(cp, ip), lv, cap(c.self, c.top_level.term)))]


def _fc_inv(L):
    e = L.entry
    cp = e.args['self'].fields['cp'].term
    ip = e.args['ip'].term
    top0 = cap(e.args['self'], e.args['top_level'].term)
    return [('scanned', z3.And(L.top_level.term <= top0, CPT.has(cp, ip),
                               none_between(CPT.get(cp, ip), L.top_level.term, top0)))]


Contract(
    GSM + '._find_cp',
    params={'self': GS_OBJ, 'ip': TStr, 'top_level': TInt, 'bottom_level': TInt},
    cases=[Case('none', lambda c: PTuple([PNone(), PNone()]), _fc_none),
           Case('found', lambda c: PTuple([fresh(LSTR, 'cp_list'), fresh(TInt, 'cp_level')]), _fc_found)],
    locals={'top_level': TInt},
    loops={0: LoopSpec(fingerprint='while top_level >= bottom_level', inv=_fc_inv)},
    raises=(),
    note='C10.find_cp: the highest level in [bottom_level, min(top_level, max_level)] at which the prefix has transitions, with exactly that list; '
         '(None, None) exactly when there is none',
)


# ---- _format_guess ---------------------------------------------------------------------------------
def letter(cp, el):
    return z3.Select(LSTR.arr(LVLS.get(CPT.get(cp, ELEM.get(el, 0)), ELEM.get(el, 1))), ELEM.get(el, 2))


Letters = SpecFun('OmenLetters', [CPT.sort(), TREE.sort(), T.IntS], T.Str,
                  lambda cp, tree, k: z3.If(k <= 0, T.S_EMPTY,
                                            T.scat(Letters(cp, tree, k - 1), letter(cp, z3.Select(TREE.arr(tree), k - 1)))),
                  doc='concatenation of the letters the first k parse-tree elements point at')


def tree_wf(cp, tree):
    k = z3.Int('k!twf')
    el = z3.Select(TREE.arr(tree), k)
    return z3.ForAll([k], z3.Implies(z3.And(0 <= k, k < TREE.len(tree)), z3.And(
        CPT.has(cp, ELEM.get(el, 0)), LVLS.has(CPT.get(cp, ELEM.get(el, 0)), ELEM.get(el, 1)),
        0 <= ELEM.get(el, 2), ELEM.get(el, 2) < LSTR.len(LVLS.get(CPT.get(cp, ELEM.get(el, 0)), ELEM.get(el, 1))))),
        patterns=[z3.Select(TREE.arr(tree), k)])


def _fg_hints(L):
    """associativity of string concatenation, instantiated for this step: (ip + letters_i) + l == ip + (letters_i + l)"""
    slf = L.entry.args['self']
    cp, tree, ip = slf.fields['cp'].term, slf.fields['parse_tree'].term, slf.fields['ip'].term
    li = Letters(cp, tree, L.i)
    l = letter(cp, z3.Select(TREE.arr(tree), L.i))
    return [T.scat(T.scat(ip, li), l) == T.scat(ip, T.scat(li, l))]


Contract(
    GSM + '._format_guess',
    params={'self': GS_OBJ},
    requires=lambda c: [('tree_wf', tree_wf(c.self.fields['cp'].term, c.self.fields['parse_tree'].term))],
    result=TStr,
    ensures=lambda c: [('string', c.result.term == T.scat(c.self.fields['ip'].term,
                                                          Letters(c.self.fields['cp'].term, c.self.fields['parse_tree'].term,
                                                                  TREE.len(c.self.fields['parse_tree'].term))))],
    loops={0: LoopSpec(fingerprint='for item in self.parse_tree',
                       inv=lambda L: [('so_far', L.guess.term == T.scat(L.entry.args['self'].fields['ip'].term,
                                                                        Letters(L.entry.args['self'].fields['cp'].term,
                                                                                L.entry.args['self'].fields['parse_tree'].term, L.i)))],
                       hints=_fg_hints)},
    raises=(),
    note='C10.format: the emitted string is the initial n-gram followed, in order, by the letter cp[prefix][level][index] of every element',
)


# ---- MarkovCracker._find_first_object --------------------------------------------------------------
MC_FF = ObjShape(MCM, {'max_level': TInt})
TABLE = TDict(TInt, LSTR)


def _ff_inv(L):
    tab = L.entry.args['lookup_table'].term
    t = z3.Int('t!ff')
    return [('scanned', z3.ForAll([t], z3.Implies(z3.And(0 <= t, t < L.i), LSTR.len(TABLE.get(tab, t)) == 0),
                                  patterns=[TABLE.get(tab, t)]))]


def _ff_requires(c):
    t = z3.Int('t!ffr')
    return [('levels_present', z3.And(c.self.fields['max_level'].term >= 0,
                                      z3.ForAll([t], z3.Implies(z3.And(0 <= t, t <= c.self.fields['max_level'].term),
                                                                TABLE.has(c.lookup_table.term, t)), patterns=[TABLE.has(c.lookup_table.term, t)])))]


def _ff_ensures(c):
    tab = c.lookup_table.term
    t = z3.Int('t!ffe')
    r = c.result.term
    return [('lowest_populated_level', z3.And(0 <= r, r <= c.self.fields['max_level'].term, LSTR.len(TABLE.get(tab, r)) != 0,
                                              z3.ForAll([t], z3.Implies(z3.And(0 <= t, t < r), LSTR.len(TABLE.get(tab, t)) == 0),
                                                        patterns=[TABLE.get(tab, t)])))]


def _ff_raise_only_if_empty(c):
    tab = c.lookup_table.term
    t = z3.Int('t!ffx')
    return z3.ForAll([t], z3.Implies(z3.And(0 <= t, t <= c.self.fields['max_level'].term), LSTR.len(TABLE.get(tab, t)) == 0),
                     patterns=[TABLE.get(tab, t)])


Contract(
    MCM + '._find_first_object',
    params={'self': MC_FF, 'lookup_table': TABLE},
    requires=_ff_requires,
    result=TInt,
    ensures=_ff_ensures,
    raises=('Exception',),
    loops={0: LoopSpec(fingerprint='for level in range(0,self.max_level + 1)', inv=_ff_inv)},
    note='C10.first_object: the lowest level in 0..max_level (inclusive) that holds an entry; raises only when every level is empty',
)


# ---- MarkovCracker._increase_len_for_target / _increase_ip_for_target (the cursors over lengths and initial n-grams) --------------
# cur_len / cur_ip are [level, index] into grammar['ln'] / grammar['ip'] (level -> list).  Each function moves its cursor to the NEXT entry in
# (level, index) order whose level does not exceed min(max_level, budget) -- budget = target_level for lengths, working_target for initial
# n-grams -- rebuilds the GuessStructure for it and returns True; it returns False, changing nothing, exactly when there is no such entry.
LINT = TList(TInt)
LNT = TDict(TInt, LINT)
IPT = TDict(TInt, LSTR)
OMEN_G = TRec({'ln': LNT, 'ip': IPT, 'cp': CPT})
OPT_OBJ = ObjShape('lib_guesser.omen.optimizer:Optimizer', {'max_length': TInt})
GS_NEW = ObjShape(GSM, {'first_guess': TBool, 'cp': CPT, 'max_level': TInt, 'ip': TStr, 'ip_length': TInt, 'cp_length': TInt, 'target_level': TInt,
                        'parse_tree': TREE, 'optimizer': OPT_OBJ})
MC_CUR = ObjShape(MCM, {'grammar': OMEN_G, 'max_level': TInt, 'target_level': TInt, 'start_ip': TInt, 'cur_len': LINT, 'cur_ip': LINT,
                        'cur_guess': GS_NEW, 'optimizer': OPT_OBJ})


def _at(lst, k):
    return z3.Select(LINT.arr(lst), k)


def _cap(a, b):
    return z3.If(a < b, a, b)


def _cur_parts(slf):
    f = slf.fields
    g = f['grammar'].fields if hasattr(f['grammar'], 'fields') else None
    if g is None:
        gt = f['grammar'].term
        ln, ip = OMEN_G.get(gt, 'ln'), OMEN_G.get(gt, 'ip')
    else:
        ln, ip = g['ln'].term, g['ip'].term
    return ln, ip


def _cur_cp(slf):
    g = slf.fields['grammar']
    return g.fields['cp'].term if hasattr(g, 'fields') else OMEN_G.get(g.term, 'cp')


def _same_obj(a, b):
    """two object values agree field by field (the same object, or an untouched copy of its fields)"""
    if a is b:
        return z3.BoolVal(True)
    parts = []
    for k in b.fields:
        x, y = a.fields.get(k), b.fields[k]
        if x is None:
            return z3.BoolVal(False)
        if isinstance(x, ZV) and isinstance(y, ZV):
            parts.append(x.term == y.term)
        elif hasattr(x, 'fields') and hasattr(y, 'fields'):
            parts.append(_same_obj(x, y))
        elif x is not y:
            return z3.BoolVal(False)
    return z3.And(parts) if parts else z3.BoolVal(True)


def _empty_between(size_at, lo, hi):
    """no level t with lo < t < hi holds an entry"""
    t = z3.Int('t!cur')
    return z3.ForAll([t], z3.Implies(z3.And(lo < t, t < hi), size_at(t) == 0), patterns=[size_at(t)])


def _cursor_requires(which):
    def req(c):
        f = c.self.fields
        ln, ip = _cur_parts(c.self)
        ml = f['max_level'].term
        t = z3.Int('t!cr')
        cur = f[which].term
        return [('cursor_wf', z3.And(LINT.len(f['cur_len'].term) == 2, LINT.len(f['cur_ip'].term) == 2, 0 <= _at(cur, 0), _at(cur, 0) <= ml, _at(cur, 1) >= -1)),
                ('levels_present', z3.ForAll([t], z3.Implies(z3.And(0 <= t, t <= ml), z3.And(LNT.has(ln, t), IPT.has(ip, t))),
                                             patterns=[LNT.has(ln, t), IPT.has(ip, t)])),
                ('len_cursor_valid', z3.And(0 <= _at(f['cur_len'].term, 0), _at(f['cur_len'].term, 0) <= ml, 0 <= _at(f['cur_len'].term, 1),
                                            _at(f['cur_len'].term, 1) < LINT.len(LNT.get(ln, _at(f['cur_len'].term, 0))))),
                ('list_lengths_are_non_negative', z3.ForAll([t], z3.And(LINT.len(LNT.get(ln, t)) >= 0, LSTR.len(IPT.get(ip, t)) >= 0),
                                                            patterns=[LNT.get(ln, t), IPT.get(ip, t)])),
                ('start_ip_valid', z3.And(0 <= f['start_ip'].term, f['start_ip'].term <= ml, LSTR.len(IPT.get(ip, f['start_ip'].term)) > 0))]
    return req


def _cursor_post(which, budget_of):
    def size_fn(c):
        ln, ip = _cur_parts(c.self)
        return (lambda t: LINT.len(LNT.get(ln, t))) if which == 'cur_len' else (lambda t: LSTR.len(IPT.get(ip, t)))

    def post(c):
        f0 = c.self.fields
        f1 = c.after['self'].fields
        ln, ip = _cur_parts(c.self)
        size = size_fn(c)
        l0, i0 = _at(f0[which].term, 0), _at(f0[which].term, 1)
        top = _cap(f0['max_level'].term, budget_of(c))
        r = c.result.term
        new = f1[which].term
        l1, i1 = _at(new, 0), _at(new, 1)
        same_level = z3.And(l1 == l0, i1 == i0 + 1, i0 + 1 < size(l0))
        higher = z3.And(l0 < l1, l1 <= top, i1 == 0, size(l1) > 0, i0 + 1 >= size(l0), _empty_between(size, l0, l1))
        nl, ni = _at(f1['cur_len'].term, 0), _at(f1['cur_len'].term, 1)
        pl, pi = _at(f1['cur_ip'].term, 0), _at(f1['cur_ip'].term, 1)
        gf = f1['cur_guess'].fields
        rebuilt = z3.And(gf['ip'].term == z3.Select(LSTR.arr(IPT.get(ip, pl)), pi),
                         gf['cp_length'].term == z3.Select(LINT.arr(LNT.get(ln, nl)), ni),
                         gf['target_level'].term == f0['target_level'].term - nl - pl,
                         gf['max_level'].term == f0['max_level'].term,
                         box(gf['cp'], CPT) == _cur_cp(c.self),
                         box(gf['first_guess'], TBool), TREE.len(box(gf['parse_tree'], TREE)) == 0)
        out = [('next_entry_in_level_order', z3.Implies(r, z3.And(LINT.len(new) == 2, z3.Or(same_level, higher)))),
               ('false_only_when_nothing_is_left', z3.Implies(z3.Not(r), z3.And(i0 + 1 >= size(l0), _empty_between(size, l0, top + 1)))),
               ('guess_structure_rebuilt_for_the_new_cursors', z3.Implies(r, rebuilt)),
               ('nothing_changes_on_false', z3.Implies(z3.Not(r), z3.And(f1['cur_len'].term == f0['cur_len'].term, f1['cur_ip'].term == f0['cur_ip'].term,
                                                                          _same_obj(f1['cur_guess'], f0['cur_guess']))))]
        if which == 'cur_len':
            out.append(('initial_ngram_cursor_reset', z3.Implies(r, z3.And(LINT.len(f1['cur_ip'].term) == 2, pl == f0['start_ip'].term, pi == 0))))
        else:
            out.append(('length_cursor_kept', f1['cur_len'].term == f0['cur_len'].term))
        return out
    return post


def _cursor_inv(which, budget_of):
    def inv(L):
        e = L.entry
        slf0 = e.args['self']
        f0 = slf0.fields
        ln, ip = _cur_parts(slf0)
        size = (lambda t: LINT.len(LNT.get(ln, t))) if which == 'cur_len' else (lambda t: LSTR.len(IPT.get(ip, t)))
        l0, i0 = _at(f0[which].term, 0), _at(f0[which].term, 1)
        lv, ix = L.level.term, L.index.term
        cur = L.env['self'].fields
        return [('position', z3.Or(z3.And(lv == l0, ix == i0 + 1),
                                   z3.And(lv > l0, lv <= f0['max_level'].term, lv <= budget_of(e), ix == 0, i0 + 1 >= size(l0), _empty_between(size, l0, lv)))),
                ('untouched_so_far', z3.And(cur['cur_len'].term == f0['cur_len'].term, cur['cur_ip'].term == f0['cur_ip'].term,
                                            _same_obj(cur['cur_guess'], f0['cur_guess']))),
                ('table', (L.ln.term == ln) if which == 'cur_len' else (L.ip.term == ip))]
    return inv


_len_budget = lambda c: c.args['self'].fields['target_level'].term      # noqa: E731
_ip_budget = lambda c: c.args['working_target'].term                    # noqa: E731

Contract(
    MCM + '._increase_len_for_target',
    params={'self': MC_CUR},
    requires=_cursor_requires('cur_len'),
    result=TBool,
    ensures=_cursor_post('cur_len', _len_budget),
    self_modifies=('cur_len', 'cur_ip', 'cur_guess'),
    loops={0: LoopSpec(fingerprint='while level <= self.max_level', inv=_cursor_inv('cur_len', _len_budget))},
    raises=(),
    note='C10.cursor.len: the length cursor moves to the next (level, index) entry of grammar[ln] in level order whose level is at most min(max_level, target_level); '
         'the initial n-gram cursor restarts at (start_ip, 0) and the GuessStructure is rebuilt for exactly these cursors with the remaining level; False, with nothing changed, '
         'exactly when no such entry is left',
)

_ipc = Contract(
    MCM + '._increase_ip_for_target',
    params={'self': MC_CUR, 'working_target': TInt},
    requires=_cursor_requires('cur_ip'),
    result=TBool,
    ensures=_cursor_post('cur_ip', _ip_budget),
    self_modifies=('cur_ip', 'cur_guess'),
    loops={0: LoopSpec(fingerprint='while level <= self.max_level', inv=_cursor_inv('cur_ip', _ip_budget))},
    raises=(),
    note='C10.cursor.ip: the initial n-gram cursor moves to the next (level, index) entry of grammar[ip] in level order whose level is at most min(max_level, working_target); '
         'the GuessStructure is rebuilt for it with the remaining level; False, with nothing changed, exactly when no such entry is left',
)
_ipc.defaults = {'working_target': lambda: ZV(TInt, z3.IntVal(0), 0)}
