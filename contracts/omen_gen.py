"""
Contracts for C10 (the OMEN generator enumerates each level exactly) -- the functions of lib_guesser/omen within reach of the verifier:

  GuessStructure._find_cp        the level search: highest level in [bottom, min(top, max_level)] at which the prefix has transitions
  GuessStructure._format_guess   the emitted string is the initial n-gram followed by the letter each parse-tree element points at
  MarkovCracker._find_first_object   lowest level 0..max_level (inclusive) holding an entry

The backtracking successor (GuessStructure.next_guess / _fill_out_parse_tree with the shared memo table) updates a list of mixed-type
lists in place and is outside the subset the verifier accepts; exactness of the enumeration (each string of the level once, none missing,
independent of the cache history) is carried by the bounded stand-in C10.bounded.enum and labelled as such.
"""
import z3

from pyvc import theory as T
from pyvc.theory import TInt, TBool, TStr, TList, TTuple, TRec, TDict, TOpt, SpecFun
from pyvc.engine import Contract, Case, LoopSpec, ObjShape, PTuple, PNone, ZV, fresh, box

GSM = 'lib_guesser.omen.guess_structure:GuessStructure'
MCM = 'lib_guesser.omen.markov_cracker:MarkovCracker'
LSTR = TList(TStr)
LVLS = TDict(TInt, LSTR)
CPT = TDict(TStr, LVLS)
ELEM = TTuple([TStr, TInt, TInt])            # [prefix, level, index]
TREE = TList(ELEM)
GS_OBJ = ObjShape(GSM, {'cp': CPT, 'max_level': TInt, 'ip': TStr, 'parse_tree': TREE})


def cap(self_, top):
    m = self_.fields['max_level'].term
    return z3.If(m < top, m, top)


def none_between(levels, lo, hi):
    """no level t with lo < t <= hi is present"""
    t = z3.Int('t!nb')
    return z3.ForAll([t], z3.Implies(z3.And(lo < t, t <= hi), z3.Not(LVLS.has(levels, t))), patterns=[LVLS.has(levels, t)])


def _fc_none(c):
    if not (isinstance(c.result, PTuple) and all(isinstance(x, PNone) for x in c.result.items)):
        return None
    cp = c.self.fields['cp'].term
    ip = c.ip.term
    return [('nothing_in_range', z3.Or(z3.Not(CPT.has(cp, ip)),
                                       none_between(CPT.get(cp, ip), c.bottom_level.term - 1, cap(c.self, c.top_level.term))))]


def _fc_found(c):
    if not (isinstance(c.result, PTuple) and not isinstance(c.result.items[0], PNone)):
        return None
    cp = c.self.fields['cp'].term
    ip = c.ip.term
    lst, lvl = c.result.items
    lv = lvl.term
    return [('in_range', z3.And(c.bottom_level.term <= lv, lv <= cap(c.self, c.top_level.term))),
            ('present', z3.And(CPT.has(cp, ip), LVLS.has(CPT.get(cp, ip), lv))),
            ('the_transitions_of_that_level', box(lst, LSTR) == LVLS.get(CPT.get(cp, ip), lv)),
            ('highest', none_between(CPT.get(cp, ip), lv, cap(c.self, c.top_level.term)))]


def _fc_inv(L):
    e = L.entry
    cp = e.args['self'].fields['cp'].term
    ip = e.args['ip'].term
    top0 = cap(e.args['self'], e.args['top_level'].term)
    return [('scanned', z3.And(L.top_level.term <= top0, CPT.has(cp, ip),
                               none_between(CPT.get(cp, ip), L.top_level.term, top0)))]


Contract(
    GSM + '._find_cp',
    params={'self': GS_OBJ, 'ip': TStr, 'top_level': TInt, 'bottom_level': TInt},
    cases=[Case('none', lambda c: PTuple([PNone(), PNone()]), _fc_none),
           Case('found', lambda c: PTuple([fresh(LSTR, 'cp_list'), fresh(TInt, 'cp_level')]), _fc_found)],
    locals={'top_level': TInt},
    loops={0: LoopSpec(fingerprint='while top_level >= bottom_level', inv=_fc_inv)},
    raises=(),
    note='C10.find_cp: the highest level in [bottom_level, min(top_level, max_level)] at which the prefix has transitions, with exactly that list; '
         '(None, None) exactly when there is none',
)


# ---- _format_guess ---------------------------------------------------------------------------------
def letter(cp, el):
    return z3.Select(LSTR.arr(LVLS.get(CPT.get(cp, ELEM.get(el, 0)), ELEM.get(el, 1))), ELEM.get(el, 2))


Letters = SpecFun('OmenLetters', [CPT.sort(), TREE.sort(), T.IntS], T.Str,
                  lambda cp, tree, k: z3.If(k <= 0, T.S_EMPTY,
                                            T.scat(Letters(cp, tree, k - 1), letter(cp, z3.Select(TREE.arr(tree), k - 1)))),
                  doc='concatenation of the letters the first k parse-tree elements point at')


def tree_wf(cp, tree):
    k = z3.Int('k!twf')
    el = z3.Select(TREE.arr(tree), k)
    return z3.ForAll([k], z3.Implies(z3.And(0 <= k, k < TREE.len(tree)), z3.And(
        CPT.has(cp, ELEM.get(el, 0)), LVLS.has(CPT.get(cp, ELEM.get(el, 0)), ELEM.get(el, 1)),
        0 <= ELEM.get(el, 2), ELEM.get(el, 2) < LSTR.len(LVLS.get(CPT.get(cp, ELEM.get(el, 0)), ELEM.get(el, 1))))),
        patterns=[z3.Select(TREE.arr(tree), k)])


def _fg_hints(L):
    """associativity of string concatenation, instantiated for this step: (ip + letters_i) + l == ip + (letters_i + l)"""
    slf = L.entry.args['self']
    cp, tree, ip = slf.fields['cp'].term, slf.fields['parse_tree'].term, slf.fields['ip'].term
    li = Letters(cp, tree, L.i)
    l = letter(cp, z3.Select(TREE.arr(tree), L.i))
    return [T.scat(T.scat(ip, li), l) == T.scat(ip, T.scat(li, l))]


Contract(
    GSM + '._format_guess',
    params={'self': GS_OBJ},
    requires=lambda c: [('tree_wf', tree_wf(c.self.fields['cp'].term, c.self.fields['parse_tree'].term))],
    result=TStr,
    ensures=lambda c: [('string', c.result.term == T.scat(c.self.fields['ip'].term,
                                                          Letters(c.self.fields['cp'].term, c.self.fields['parse_tree'].term,
                                                                  TREE.len(c.self.fields['parse_tree'].term))))],
    loops={0: LoopSpec(fingerprint='for item in self.parse_tree',
                       inv=lambda L: [('so_far', L.guess.term == T.scat(L.entry.args['self'].fields['ip'].term,
                                                                        Letters(L.entry.args['self'].fields['cp'].term,
                                                                                L.entry.args['self'].fields['parse_tree'].term, L.i)))],
                       hints=_fg_hints)},
    raises=(),
    note='C10.format: the emitted string is the initial n-gram followed, in order, by the letter cp[prefix][level][index] of every element',
)


# ---- MarkovCracker._find_first_object --------------------------------------------------------------
MC_FF = ObjShape(MCM, {'max_level': TInt})
TABLE = TDict(TInt, LSTR)


def _ff_inv(L):
    tab = L.entry.args['lookup_table'].term
    t = z3.Int('t!ff')
    return [('scanned', z3.ForAll([t], z3.Implies(z3.And(0 <= t, t < L.i), LSTR.len(TABLE.get(tab, t)) == 0),
                                  patterns=[TABLE.get(tab, t)]))]


def _ff_requires(c):
    t = z3.Int('t!ffr')
    return [('levels_present', z3.And(c.self.fields['max_level'].term >= 0,
                                      z3.ForAll([t], z3.Implies(z3.And(0 <= t, t <= c.self.fields['max_level'].term),
                                                                TABLE.has(c.lookup_table.term, t)), patterns=[TABLE.has(c.lookup_table.term, t)])))]


def _ff_ensures(c):
    tab = c.lookup_table.term
    t = z3.Int('t!ffe')
    r = c.result.term
    return [('lowest_populated_level', z3.And(0 <= r, r <= c.self.fields['max_level'].term, LSTR.len(TABLE.get(tab, r)) != 0,
                                              z3.ForAll([t], z3.Implies(z3.And(0 <= t, t < r), LSTR.len(TABLE.get(tab, t)) == 0),
                                                        patterns=[TABLE.get(tab, t)])))]


def _ff_raise_only_if_empty(c):
    tab = c.lookup_table.term
    t = z3.Int('t!ffx')
    return z3.ForAll([t], z3.Implies(z3.And(0 <= t, t <= c.self.fields['max_level'].term), LSTR.len(TABLE.get(tab, t)) == 0),
                     patterns=[TABLE.get(tab, t)])


Contract(
    MCM + '._find_first_object',
    params={'self': MC_FF, 'lookup_table': TABLE},
    requires=_ff_requires,
    result=TInt,
    ensures=_ff_ensures,
    raises=('Exception',),
    loops={0: LoopSpec(fingerprint='for level in range(0,self.max_level + 1)', inv=_ff_inv)},
    note='C10.first_object: the lowest level in 0..max_level (inclusive) that holds an entry; raises only when every level is empty',
)
