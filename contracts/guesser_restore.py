"""
Sidecar contracts for the session-restore path (C08): PcfgGrammar.is_parent_around,
_recursive_restore_prob_order, restore_prob_order; PcfgQueue.restore_base_item, __init__,
update_save_config.

Top-level clause taken from the property statement (DESIGN C08): with M the saved
probability, a node v may be put back into the queue only if
        min <= P(v) <= M   and   no parent p of v has P(p) <= M        (R1)
(a parent at exactly M is itself restored or re-created and will generate v again; putting
v back as well would repeat a pre-terminal whose probability differs from M).
"""
import z3

from pyvc import theory as T
from pyvc.theory import TInt, TBool, TF, TStr, TList, TTuple, TRec, TOpt, TDict, TBag, SpecFun
from pyvc.engine import (Contract, Case, LoopSpec, ObjShape, FunShape, ZV, PObj, PRec, PTuple, PNone, PList,
                         box, unbox, fresh, empty_list, ShapeMismatch, zbool)
from contracts.guesser_core import *   # noqa
from contracts import guesser_core as gc
from contracts import guesser_lemmas as gl

fv = T.fval


def parent_at_or_below(G, child, b, j, M):
    return z3.And(pt_idx(child, j) > 0, fv(P(G, dec(child, j), b)) <= fv(M))


def no_parent_upto(G, child, b, M, n):
    j = z3.Int('j!np')
    return z3.ForAll([j], z3.Implies(z3.And(0 <= j, j < n), z3.Not(parent_at_or_below(G, child, b, j, M))),
                     patterns=[z3.Select(PT.arr(child), j)])


def parent_around(G, child, b, M):
    """some parent of child has probability <= M"""
    return z3.Not(no_parent_upto(G, child, b, M, PT.len(child)))


Contract(
    MOD + ':PcfgGrammar.is_parent_around',
    params={'self': GRAMMAR_OBJ, 'pt_item': PTITEM, 'max_prob': TF},
    requires=lambda c: [('wf_pt', wf_pt(g_of(c.self), c.pt_item.fields['pt'].term))],
    result=TBool,
    ensures=lambda c: [('parent_at_or_below_max', c.result.term == parent_around(
        g_of(c.self), c.pt_item.fields['pt'].term, c.pt_item.fields['base_prob'].term, c.max_prob.term))],
    loops={0: LoopSpec(fingerprint='enumerate(child)',
                       inv=lambda L: [('none_so_far', no_parent_upto(
                           g_of(L.self), L.pt_item.fields['pt'].term, L.pt_item.fields['base_prob'].term,
                           L.max_prob.term, L.i))])},
    note='C08.is_parent_around.post: True iff a parent with probability <= max_prob exists',
)


# ---- the walk ------------------------------------------------------------------------------
def r1(G, it, lo, M):
    """R1 for a saved item."""
    pt = PTITEM.get(it, 'pt')
    b = PTITEM.get(it, 'base_prob')
    return z3.And(wf_pt(G, pt), PT.len(pt) >= 0, fv(b) >= 0,
                  PTITEM.get(it, 'prob') == P(G, pt, b),
                  fv(lo) <= fv(PTITEM.get(it, 'prob')), fv(PTITEM.get(it, 'prob')) <= fv(M),
                  z3.Not(parent_around(G, pt, b, M)))


def saved_ok(G, old, new, lo, M):
    """the ghost list of saved items grew by items that all satisfy R1; the old part is untouched."""
    k = z3.Int('k!sv')
    return z3.And(
        PTITEMS.len(new) >= PTITEMS.len(old),
        z3.ForAll([k], z3.Implies(z3.And(0 <= k, k < PTITEMS.len(old)),
                                  z3.Select(PTITEMS.arr(new), k) == z3.Select(PTITEMS.arr(old), k)),
                  patterns=[z3.Select(PTITEMS.arr(new), k)]),
        z3.ForAll([k], z3.Implies(z3.And(PTITEMS.len(old) <= k, k < PTITEMS.len(new)),
                                  r1(G, z3.Select(PTITEMS.arr(new), k), lo, M)),
                  patterns=[z3.Select(PTITEMS.arr(new), k)]))


def _save_handler(eng, st, args, kwargs, node):
    """spec of the save_function callback: it receives the item (appended to the ghost list)."""
    cur = st.env['$saved']
    item = args[0]
    st.env['$saved'] = ZV(PTITEMS, gc.append(PTITEMS, cur.term, box(item, PTITEM)))
    return PNone()


SAVE_FN = FunShape(_save_handler, 'save_function')


def _walk_requires(c):
    G = g_of(c.self)
    it = c.pt_item
    pt = it.fields['pt'].term
    return [('wf_pt', wf_pt(G, pt)),
            ('base_nonneg', fv(it.fields['base_prob'].term) >= 0),
            ('prob_is_P', it.fields['prob'].term == P(G, pt, it.fields['base_prob'].term)),
            ('left_index', z3.And(0 <= c.left_index.term))]


def _walk_ensures(c):
    G = g_of(c.self)
    return [('saved_r1', saved_ok(G, c.args['$saved'].term, c.after['$saved'].term, c.min_prob.term, c.max_prob.term))]


def _walk_inv(L):
    G = g_of(L.self)
    return [('saved_r1', saved_ok(G, L.entry.args['$saved'].term, L.env['$saved'].term, L.min_prob.term, L.max_prob.term))]


_walk = Contract(
    MOD + ':PcfgGrammar._recursive_restore_prob_order',
    params={'self': GRAMMAR_OBJ, 'pt_item': PTITEM, 'max_prob': TF, 'min_prob': TF, 'save_function': SAVE_FN,
            'left_index': TInt, '$saved': PTITEMS},
    requires=_walk_requires,
    ensures=_walk_ensures,
    loops={0: LoopSpec(fingerprint='for pos in range(left_index, parent_len)', inv=_walk_inv, extra_writes=['$saved'])},
    note='C08.walk R1: only nodes with min <= P <= M and no parent <= M are saved (partial correctness; '
         'completeness R3 and no-duplicates R2 are carried by the bounded stand-in C08.bounded.cuts)',
)
_walk.defaults = {'left_index': lambda: ZV(TInt, z3.IntVal(0), 0)}
_walk.call_writes = {'save_function': ['$saved']}


def _rpo_ensures(c):
    G = g_of(c.self)
    return [('saved_r1', saved_ok(G, c.args['$saved'].term, c.after['$saved'].term, c.min_prob.term, c.max_prob.term)),
            ('returns_true', c.result.term)]


Contract(
    MOD + ':PcfgGrammar.restore_prob_order',
    params={'self': GRAMMAR_OBJ, 'pt_item': PTITEM, 'max_prob': TF, 'min_prob': TF, 'save_function': SAVE_FN,
            '$saved': PTITEMS},
    requires=lambda c: _walk_requires(Ctx_with_left0(c)),
    result=TBool,
    ensures=_rpo_ensures,
    note='wrapper: raises the recursion limit and starts the walk at left_index 0 '
         '(RecursionError is outside the exception model, A-EXC)',
)


class Ctx_with_left0:
    def __init__(self, c):
        self._c = c
        self.left_index = ZV(TInt, z3.IntVal(0), 0)

    def __getattr__(self, k):
        return getattr(self._c, k)


# ---- priority_queue.py restore path -----------------------------------------------------------
from pyvc import builtins as B     # noqa: E402
from pyvc.lemma import Schema      # noqa: E402

CONFIG = B.config_shape()


def _addrange_def(bag, items, lo, hi):
    prev = AddRange(bag, items, lo, hi - 1)
    return z3.If(hi <= lo, bag, bag_add(prev, qi(z3.Select(PTITEMS.arr(items), hi - 1))))


AddRange = SpecFun('AddRange', [BAG.sort(), PTITEMS.sort(), T.IntS, T.IntS], BAG.sort(), _addrange_def,
                   doc='heap multiset after pushing items[lo:hi]')


def bag_all_r1(G, bag, lo, M):
    x = z3.Const('x!br', QITEM.sort())
    return z3.And(
        z3.ForAll([x], z3.Implies(z3.Select(bag, x) > 0, r1(G, QITEM.rec().get(x, 'pt_item'), lo, M)),
                  patterns=[z3.Select(bag, x)]),
        z3.ForAll([x], z3.Select(bag, x) >= 0, patterns=[z3.Select(bag, x)]))


def _addrange_r1(G, bag, items, lo_i, hi_i, lo, M):
    k = z3.Int('k!arr')
    hyps = [0 <= lo_i, lo_i <= hi_i, hi_i <= PTITEMS.len(items), bag_all_r1(G, bag, lo, M),
            z3.ForAll([k], z3.Implies(z3.And(lo_i <= k, k < PTITEMS.len(items)),
                                      r1(G, z3.Select(PTITEMS.arr(items), k), lo, M)),
                      patterns=[z3.Select(PTITEMS.arr(items), k)])]
    return hyps, bag_all_r1(G, AddRange(bag, items, lo_i, hi_i), lo, M)


def _addrange_r1_shift(G, bag, items, lo_i, d, lo, M):
    # induction on the number of pushed items d = hi - lo
    return _addrange_r1(G, bag, items, lo_i, lo_i + d, lo, M)


addrange_r1 = Schema('C08.addrange_r1',
                     [('G', GRAMMAR.sort()), ('bag', BAG.sort()), ('items', PTITEMS.sort()), ('lo_i', T.IntS),
                      ('d', T.IntS), ('lo', T.F), ('M', T.F)],
                     _addrange_r1_shift, induction='d',
                     doc='pushing items that satisfy R1 keeps "every queued item satisfies R1"')


def _rbi_hook(eng, st, c2, e, exprs):
    """call-site meaning of passing self.insert_queue as the callback: every callback invocation
    (= every item appended to the ghost list, in order) is one insert_queue call on that object."""
    from pyvc.engine import PFun
    fnv = c2.args.get('save_function')
    if isinstance(fnv, PFun) and fnv.kind == 'method':
        obj, name, objexpr = fnv.payload
        if name != 'insert_queue':
            raise Exception('unexpected callback %s' % name)
        old = st.env[objexpr.id] if False else eng.eval(objexpr, st)
        before = c2.args['$saved'].term
        after = c2.after['$saved'].term
        newq = ZV(BAG, AddRange(old.fields['p_queue'].term, after, PTITEMS.len(before), PTITEMS.len(after)))
        eng.assign(objexpr, old.with_field('p_queue', newq), st)


Contract.registry[MOD + ':PcfgGrammar.restore_prob_order'].call_hook = _rbi_hook


def _rbi_requires(c):
    G = g_of(c.self.fields['pcfg'])
    it = c.base_item
    pt = it.fields['pt'].term
    return [('wf_pt', wf_pt(G, pt)),
            ('base_nonneg', fv(it.fields['base_prob'].term) >= 0),
            ('prob_is_P', it.fields['prob'].term == P(G, pt, it.fields['base_prob'].term))]


def _rbi_ensures(c):
    G = g_of(c.self.fields['pcfg'])
    lo = c.self.fields['min_probability'].term
    M = c.self.fields['max_probability'].term
    s0, s1 = c.args['$saved'].term, c.after['$saved'].term
    return [('pushed_saved', c.after['self'].fields['p_queue'].term ==
             AddRange(c.self.fields['p_queue'].term, s1, PTITEMS.len(s0), PTITEMS.len(s1))),
            ('saved_r1', saved_ok(G, s0, s1, lo, M)),
            ('queue_r1_kept', z3.Implies(bag_all_r1(G, c.self.fields['p_queue'].term, lo, M),
                                         bag_all_r1(G, c.after['self'].fields['p_queue'].term, lo, M)))]


_rbi = Contract(
    PQ + ':PcfgQueue.restore_base_item',
    params={'self': QUEUE_OBJ, 'base_item': PTITEM, '$saved': PTITEMS},
    requires=_rbi_requires,
    ensures=_rbi_ensures,
    self_modifies=('p_queue',),
    note='C08: everything put back into the queue satisfies R1 (min <= P <= M, no parent <= M)',
)
_rbi.post_hints = lambda c: [addrange_r1.inst(
    g_of(c.self.fields['pcfg']), c.self.fields['p_queue'].term, c.after['$saved'].term,
    PTITEMS.len(c.args['$saved'].term), PTITEMS.len(c.after['$saved'].term) - PTITEMS.len(c.args['$saved'].term),
    c.self.fields['min_probability'].term, c.self.fields['max_probability'].term)]


def _usc_ensures(c):
    opts0 = c.save_config.fields['opts'].term
    opts1 = c.after['save_config'].fields['opts'].term
    kmin = B.CONFIG_KEY.mk(T.str_lit('guessing_info'), T.str_lit('min_probability'))
    kmax = B.CONFIG_KEY.mk(T.str_lit('guessing_info'), T.str_lit('max_probability'))
    return [('stores_both', opts1 == B.CONFIG_OPTS.put(
        B.CONFIG_OPTS.put(opts0, kmin, B.s_offloat(c.self.fields['min_probability'].term)),
        kmax, B.s_offloat(c.self.fields['max_probability'].term)))]


Contract(
    PQ + ':PcfgQueue.update_save_config',
    params={'self': QUEUE_OBJ, 'save_config': CONFIG},
    mutates=('save_config',),
    ensures=_usc_ensures,
    note="C08.save: the saved position is str(max_probability), i.e. the probability of the popped, not yet guessed item",
)


# ---- PcfgQueue.__init__ (both branches) --------------------------------------------------------
EMPTY_BAG = z3.K(QITEM.sort(), z3.IntVal(0))
KMIN = B.CONFIG_KEY.mk(T.str_lit('guessing_info'), T.str_lit('min_probability'))
KMAX = B.CONFIG_KEY.mk(T.str_lit('guessing_info'), T.str_lit('max_probability'))


def _init_requires(c):
    G = g_of(c.pcfg)
    out = [('wf_base', wf_base(G, c.pcfg.fields['base'].term)), ('wf_grammar', z3.And(gl.wf_grammar(G)))]
    if not isinstance(c.save_config, PNone):
        opts = c.save_config.fields['opts'].term
        out.append(('options_present', z3.And(B.CONFIG_OPTS.has(opts, KMIN), B.CONFIG_OPTS.has(opts, KMAX))))
    return out


def _init_ensures(c):
    s1 = c.after['self']
    G = g_of(c.pcfg)
    base = c.pcfg.fields['base'].term
    out = [('pcfg_kept', eng_same(s1.fields['pcfg'], c.pcfg))]
    if isinstance(c.save_config, PNone):
        roots = Roots(G, base, BASE.len(base))
        out += [('queue_is_roots', s1.fields['p_queue'].term == AddAll(EMPTY_BAG, roots, PTITEMS.len(roots))),
                ('queue_rep', z3.And(in_bag_all_wf(G, s1.fields['p_queue'].term), gl.counts_nonneg(s1.fields['p_queue'].term),
                                     gl.queue_bound(s1.fields['p_queue'].term, T.F_ONE))),
                ('max_is_one', s1.fields['max_probability'].term == T.F_ONE),
                ('min_is_zero', s1.fields['min_probability'].term == T.F_ZERO)]
    else:
        opts = c.save_config.fields['opts'].term
        M = B.s_tofloat(B.CONFIG_OPTS.get(opts, KMAX))
        lo = B.s_tofloat(B.CONFIG_OPTS.get(opts, KMIN))
        out += [('queue_rep', z3.And(in_bag_all_wf(G, s1.fields['p_queue'].term), gl.counts_nonneg(s1.fields['p_queue'].term),
                                     gl.queue_bound(s1.fields['p_queue'].term, M))),
                ('max_from_save', s1.fields['max_probability'].term == M),
                ('min_from_save', s1.fields['min_probability'].term == lo),
                ('restored_r1', bag_all_r1(G, s1.fields['p_queue'].term, lo, M))]
    return out


def eng_same(a, b):
    from pyvc.engine import Engine
    r = Engine.same(Engine.__new__(Engine), a, b)
    return z3.BoolVal(True) if r is True else r


def _init_inv_new(L):
    G = g_of(L.pcfg)
    return [('pushed_prefix', L.self.fields['p_queue'].term == AddAll(EMPTY_BAG, L.seq.term, L.i)),
            ('pcfg_kept', eng_same(L.self.fields['pcfg'], L.pcfg))]


def _init_inv_restore(L):
    G = g_of(L.pcfg)
    return [('queue_r1', bag_all_r1(G, L.self.fields['p_queue'].term, L.self.fields['min_probability'].term,
                                    L.self.fields['max_probability'].term)),
            ('pcfg_kept', eng_same(L.self.fields['pcfg'], L.pcfg))]


_init = Contract(
    PQ + ':PcfgQueue.__init__',
    params={'self': QUEUE_OBJ, 'pcfg': GRAMMAR_OBJ, 'save_config': CONFIG, '$saved': PTITEMS},
    requires=_init_requires,
    ensures=_init_ensures,
    self_modifies=('pcfg', 'p_queue', 'max_probability', 'min_probability', 'max_queue_size'),
    loops={0: LoopSpec(fingerprint='for base_item in self.pcfg.initalize_base_structures()', inv=_init_inv_new),
           1: LoopSpec(fingerprint='for base_item in self.pcfg.initalize_base_structures()', inv=_init_inv_restore)},
    note='new session: queue = the roots, max_probability = 1.0; restore: queue holds only R1 nodes, bounds from the save file',
)
def _init_hints(c):
    G = g_of(c.pcfg)
    base = c.pcfg.fields['base'].term
    roots = Roots(G, base, BASE.len(base))
    return [gl.addall_rep.inst(G, EMPTY_BAG, roots, PTITEMS.len(roots)),
            gl.addall_bound.inst(EMPTY_BAG, roots, T.F_ONE, PTITEMS.len(roots))]


_init.post_hints = _init_hints
_init.variants = [{'save_config': PNone()}, {}]
_init.defaults = {'save_config': lambda: PNone()}
