"""
Sidecar contracts for the trainer's detectors (C05): digit, year, context-sensitive, other, alpha.

A section is (text, label) with label None for "not yet classified".  A detector looks at one
unlabelled section and returns either the section unchanged (nothing found) or a list of 1-3 parts

        [ (text[0:a], None) ]?   (text[a:b], LABEL)   [ (text[b:], None) ]?

that tile the section: consecutive, non-empty, concatenating to the section text.  a and b are
pinned by characterising spec functions (least run / least occurrence), so the postcondition is
the strongest one: it says *which* part is carved, not only that the tiling is lossless.
"""
import z3

from pyvc import theory as T
from pyvc import builtins as B
from pyvc.theory import TInt, TBool, TF, TStr, TList, TTuple, TRec, TOpt, TDict, SpecFun
from pyvc.engine import (Contract, Case, LoopSpec, ObjShape, ZV, PObj, PRec, PTuple, PNone, PList,
                         box, unbox, fresh, empty_list, ShapeMismatch, zbool, Engine)

DR = 'lib_trainer.detection_rules.'
LABEL = TOpt(TStr)
SECTION = TTuple([TStr, LABEL])
SECTIONS = TList(SECTION)
LSTR = TList(TStr)
OFFS = TList(TInt)
lsplice_offs = T.list_fn('lsplice', OFFS, [T.IntS, OFFS.sort()])
_E = Engine.__new__(Engine)


def sl(s, a, b):
    return T.sslice(s, a, b)


def sec(text, label=None):
    return SECTION.mk(text, LABEL.none() if label is None else LABEL.some(label))


def app(lst, x):
    return SECTIONS.mk(SECTIONS.len(lst) + 1, z3.Store(SECTIONS.arr(lst), SECTIONS.len(lst), x))


def parts(s, a, b, label):
    """the expected parsing list for a carve [a,b) of s"""
    n = T.slen(s)
    l0 = empty_list(SECTIONS)
    l1 = z3.If(a > 0, app(l0, sec(sl(s, z3.IntVal(0), a))), l0)
    l2 = app(l1, sec(sl(s, a, b), label))
    return z3.If(b < n, app(l2, sec(sl(s, b, n))), l2)


def parts_cases(make_extra, post_found, post_none, n_extra):
    """Contract cases for a detector whose found-result is parts(s, a, b, label): four shapes by (a > 0, b < n), so that
    call sites see a list of statically known length."""
    cases = []
    for lead in (False, True):
        for trail in (False, True):
            def make(c, lead=lead, trail=trail):
                items = []
                if lead:
                    items.append(PTuple([fresh(TStr, 'before'), PNone()]))
                items.append(PTuple([fresh(TStr, 'carved'), fresh(TStr, 'label')]))
                if trail:
                    items.append(PTuple([fresh(TStr, 'after'), PNone()]))
                return PTuple([PList(items, SECTION)] + make_extra(c))

            def post(c, lead=lead, trail=trail):
                r = c.result
                if not isinstance(r, PTuple) or isinstance(r.items[1], PNone):
                    raise ShapeMismatch()
                lst = as_plist(r.items[0])
                if lst is not None:
                    def _none(it):
                        l = it.items[1]
                        return isinstance(l, PNone) or (isinstance(l, ZV) and isinstance(l.shape, TOpt) and z3.is_true(z3.simplify(l.shape.is_none(l.term))))
                    has_lead = len(lst.items) >= 2 and _none(lst.items[0])
                    has_trail = len(lst.items) >= 2 and _none(lst.items[-1]) and (len(lst.items) == 3 or not has_lead)
                    if (has_lead, has_trail) != (lead, trail) or len(lst.items) != 1 + int(lead) + int(trail):
                        raise ShapeMismatch()
                lst = r.items[0]
                return post_found(c) + [('shape', SECTIONS.len(as_zlist(lst)) == 1 + int(lead) + int(trail))]
            cases.append(Case('found_%d%d' % (lead, trail), make, post))
    cases.append(Case('none', lambda c: PTuple([c.section] + [PNone()] * n_extra), post_none))
    return cases


def parts_facts(lst, s, a, b, label, carved_from=None):
    """componentwise form of  lst == parts(s, a, b, label)  for a list of statically known length.
    carved_from: the string the carved text is sliced from (the lower-cased text for websites), default s."""
    pl = as_plist(lst)
    if pl is None:
        return [('parts', as_zlist(lst) == parts(s, a, b, label))]
    lst = pl
    items = lst.items

    def lab_none(it):
        l = it.items[1]
        return isinstance(l, PNone) or (isinstance(l, ZV) and isinstance(l.shape, TOpt) and z3.is_true(z3.simplify(l.shape.is_none(l.term))))
    lead = len(items) >= 2 and lab_none(items[0])
    trail = len(items) >= 2 and lab_none(items[-1]) and (len(items) == 3 or not lead)
    if len(items) != 1 + int(lead) + int(trail):
        return [('parts_shape', z3.BoolVal(False))]
    n = T.slen(s)
    ci = 1 if lead else 0
    src = s if carved_from is None else carved_from
    out = [('carve_in_range', z3.And(0 <= a, a < b, b <= n)),
           ('leading_part_iff_a_positive', (a > 0) if lead else (a == 0)),
           ('trailing_part_iff_b_before_end', (b < n) if trail else (b == n)),
           ('carved_text', box(items[ci].items[0], TStr) == sl(src, a, b)),
           ('carved_label', box(items[ci].items[1], LABEL) == LABEL.some(label))]
    if lead:
        out.append(('leading_text', box(items[0].items[0], TStr) == sl(s, z3.IntVal(0), a)))
    if trail:
        out.append(('trailing_text', box(items[-1].items[0], TStr) == sl(s, b, n)))
    return out


def as_plist(v):
    """a list value of statically known length as a python-level list (decodes mk(n, Store(...Store(empty, 0, x0)..., n-1, x_{n-1})))"""
    if isinstance(v, PList):
        return v
    if isinstance(v, ZV) and v.shape == SECTIONS:
        t = z3.simplify(v.term)
        if z3.is_app(t) and t.decl().name().startswith('mk_') and z3.is_int_value(t.arg(0)):
            n = t.arg(0).as_long()
            arr = t.arg(1)
            found = {}
            while z3.is_app(arr) and arr.decl().kind() == z3.Z3_OP_STORE:
                idx = z3.simplify(arr.arg(1))
                if not z3.is_int_value(idx):
                    return None
                found.setdefault(idx.as_long(), arr.arg(2))
                arr = arr.arg(0)
            if all(k in found for k in range(n)):
                return PList([unbox(found[k], SECTION) for k in range(n)], SECTION)
    return None


def parts_facts_self(lst, s, label, carved_from=None):
    """the parts tile s: a and b are read off the parts themselves (a = length of the leading part, b = a + length of the carved part)"""
    lst = as_plist(lst)
    if lst is None:
        raise ShapeMismatch()
    items = lst.items

    def lab_none(it):
        l = it.items[1]
        return isinstance(l, PNone) or (isinstance(l, ZV) and isinstance(l.shape, TOpt) and z3.is_true(z3.simplify(l.shape.is_none(l.term))))
    lead = len(items) >= 2 and lab_none(items[0])
    ci = 1 if lead else 0
    a = T.slen(box(items[0].items[0], TStr)) if lead else z3.IntVal(0)
    b = a + T.slen(box(items[ci].items[0], TStr))
    return parts_facts(lst, s, a, b, label, carved_from), a, b


def as_zlist(v):
    if isinstance(v, PList):
        return box(v, SECTIONS)
    if isinstance(v, ZV) and v.shape == SECTIONS:
        return v.term
    raise ShapeMismatch()


def text_of(section):
    return box(section.items[0], TStr) if isinstance(section, PTuple) else SECTION.get(section.term, 0)


def section_term(section):
    return box(section, SECTION)


def label_len(prefix, n):
    return T.scat(T.schar(z3.IntVal(ord(prefix))), T.sofint(n))


# ------------------------------------------------------------------ character-run spec (digits, letters)
from pyvc.lemma import Schema     # noqa: E402


def run_specs(name, pred):
    """First(s,k): least index < k whose character satisfies pred, or -1.
    End(s,a,k): end (exclusive) of the run of pred-characters starting at a, looking only at characters < k.
    Start(s) = First(s, len s), End(s) = End(s, Start(s), len s).  Recursive definitions (ground unfolding) plus
    stability lemmas proved by induction; nothing is left to quantifier instantiation heuristics."""
    def first_def(s, k):
        prev = First(s, k - 1)
        return z3.If(k <= 0, z3.IntVal(-1), z3.If(prev != -1, prev, z3.If(pred(T.sch(s, k - 1)), k - 1, z3.IntVal(-1))))

    def end_def(s, a, k):
        prev = End(s, a, k - 1)
        return z3.If(k <= a, a, z3.If(z3.And(prev == k - 1, pred(T.sch(s, k - 1))), k, prev))

    First = SpecFun(name + 'First', [T.Str, T.IntS], T.IntS, first_def, doc='least index < k with the character class, or -1')
    End = SpecFun(name + 'End', [T.Str, T.IntS, T.IntS], T.IntS, end_def, doc='end of the run starting at a, among characters < k')

    def start(s):
        return First(s, T.slen(s))

    def end(s):
        return End(s, start(s), T.slen(s))

    first_stable = Schema('C05.%s.first_stable' % name, [('s', T.Str), ('k', T.IntS), ('d', T.IntS)],
                          lambda s, k, d: ([0 <= k, 0 <= d, First(s, k) != -1], First(s, k + d) == First(s, k)), induction='d',
                          doc='once found, the first index does not change for longer prefixes')
    end_stable = Schema('C05.%s.end_stable' % name, [('s', T.Str), ('a', T.IntS), ('k', T.IntS), ('d', T.IntS)],
                        lambda s, a, k, d: ([0 <= a, a <= k, 0 <= d, End(s, a, k) < k], End(s, a, k + d) == End(s, a, k)), induction='d',
                        doc='once the run has ended it does not grow for longer prefixes')
    return First, End, start, end, first_stable, end_stable


DFirst, DEndK, DStart, DEnd, d_first_stable, d_end_stable = run_specs('DigitRun', T.c_isdigit)


def run_hints(First, End, first_stable, end_stable, s, i, st):
    """lemma instances used inside a scanning loop at position i (st = start of the current run)"""
    n = T.slen(s)
    return [first_stable.inst(s, i + 1, n - i - 1), end_stable.inst(s, st, i + 1, n - i - 1), end_stable.inst(s, i, i + 1, n - i - 1)]


# ------------------------------------------------------------------ detect_digits
def _dd_post_found(c):
    r = c.result
    if not isinstance(r, PTuple) or isinstance(r.items[1], PNone):
        raise ShapeMismatch()
    s = text_of(c.section)
    a, b = DStart(s), DEnd(s)
    found = box(r.items[1], TStr)
    return [('first_maximal_digit_run', a != -1)] + parts_facts(r.items[0], s, a, b, label_len('D', b - a)) + [
            ('found_is_the_run', found == sl(s, a, b))]


def _dd_post_none(c):
    r = c.result
    if not isinstance(r, PTuple) or not isinstance(r.items[1], PNone):
        raise ShapeMismatch()
    s = text_of(c.section)
    return [('no_digit', DStart(s) == -1), ('section_unchanged', section_term(r.items[0]) == section_term(c.section))]


def _dd_inv(L):
    s = text_of(L.section)
    j = z3.Int('j!dd')
    i = L.i
    run, st = L.is_run.term, L.start_pos.term
    return [('first_digit_so_far', DFirst(s, i) == z3.If(run, st, z3.IntVal(-1))),
            ('run_reaches_here', z3.Implies(run, z3.And(0 <= st, st < i, DEndK(s, st, i) == i))),
            ('run_continues', z3.Implies(run, i < T.slen(s))),
            ('nothing_appended', L.parsing.term == empty_list(SECTIONS))]


_dd = Contract(
    DR + 'digit_detection:detect_digits',
    params={'section': SECTION},
    cases=parts_cases(lambda c: [fresh(TStr, 'found')], lambda c: _dd_post_found(c), lambda c: _dd_post_none(c), 1),
    locals={'parsing': SECTIONS},
    loops={0: LoopSpec(fingerprint='enumerate(working_string)', inv=_dd_inv,
                       hints=lambda L: run_hints(DFirst, DEndK, d_first_stable, d_end_stable, text_of(L.section), L.i, L.start_pos.term))},
    note="C05.detect_digits.post: the first maximal digit run is carved out, labelled 'D'+its length, and the parts tile the section",
)


# ------------------------------------------------------------------ detect_year
def year_at(s, i, prefix):
    n = T.slen(s)
    d = T.c_isdigit
    return z3.And(0 <= i, i + 4 <= n, T.sch(s, i) == ord(prefix[0]), T.sch(s, i + 1) == ord(prefix[1]),
                  d(T.sch(s, i + 2)), d(T.sch(s, i + 3)),
                  z3.Or(i == 0, z3.Not(d(T.sch(s, i - 1)))), z3.Or(i + 4 == n, z3.Not(d(T.sch(s, i + 4)))))


def least_spec(name, pred):
    """f(s) = least i with pred(s, i), or -1 (characterising axiom for one string)."""
    f = z3.Function(name, T.Str, T.IntS)
    j = z3.Int('j!ls')

    def axiom(s):
        a = f(s)
        return z3.Or(z3.And(a == -1, z3.ForAll([j], z3.Not(pred(s, j)), patterns=[T.sch(s, j)])),
                     z3.And(pred(s, a), z3.ForAll([j], z3.Implies(z3.And(0 <= j, j < a), z3.Not(pred(s, j))), patterns=[T.sch(s, j)])))
    return f, axiom


Y19, y19_axiom = least_spec('Year19', lambda s, i: year_at(s, i, '19'))
Y20, y20_axiom = least_spec('Year20', lambda s, i: year_at(s, i, '20'))
Y1_LABEL = T.str_lit('Y1')


def year_pos(s):
    return z3.If(Y19(s) != -1, Y19(s), Y20(s))


def _dy_post_found(c):
    r = c.result
    if not isinstance(r, PTuple) or isinstance(r.items[1], PNone):
        raise ShapeMismatch()
    s = text_of(c.section)
    a = year_pos(s)
    return [('first_year', a != -1)] + parts_facts(r.items[0], s, a, a + 4, Y1_LABEL) + [
            ('found_is_the_year', box(r.items[1], TStr) == sl(s, a, a + 4))]


def _dy_post_none(c):
    r = c.result
    if not isinstance(r, PTuple) or not isinstance(r.items[1], PNone):
        raise ShapeMismatch()
    s = text_of(c.section)
    return [('no_year', z3.And(Y19(s) == -1, Y20(s) == -1)), ('section_unchanged', section_term(r.items[0]) == section_term(c.section))]


def _dy_inv(prefix, other_done):
    def inv(L):
        s = text_of(L.section)
        j = z3.Int('j!dy')
        st = L.start.term
        out = [('start_nonneg', st >= 0),
               ('none_before_start', z3.ForAll([j], z3.Implies(z3.And(0 <= j, j < st), z3.Not(year_at(s, j, prefix))), patterns=[T.sch(s, j)])),
               ('nothing_appended', L.parsing.term == empty_list(SECTIONS))]
        if other_done:
            out.append(('no_19_year', Y19(s) == -1))
        return out
    return inv


Contract(
    DR + 'year_detection:detect_year',
    params={'section': SECTION},
    cases=parts_cases(lambda c: [fresh(TStr, 'year')], lambda c: _dy_post_found(c), lambda c: _dy_post_none(c), 1),
    locals={'parsing': SECTIONS},
    loops={0: LoopSpec(fingerprint='for prefix in year_prefix', inv=lambda L: [], unroll=True),
           1: LoopSpec(fingerprint='while True', inv=lambda L: (_dy_inv('19', False) if L.prefix.pyval == '19' else _dy_inv('20', True))(L))},
    note="C05.detect_year.post: the first 19xx (else the first 20xx) that is four digits not adjacent to a digit is carved and labelled Y1",
)


# ------------------------------------------------------------------ detect_context_sensitive
CONTEXT_LIST = [';p', ':p', '*0*', '#1', 'No.1', 'no.1', 'No.', 'i<3', 'I<3', '<3', 'Mr.', 'mr.', 'MR.', 'MS.', 'Ms.', 'ms.',
                'Mz.', 'mz.', 'MZ.', 'St.', 'st.', 'Dr.', 'dr.']
X1_LABEL = T.str_lit('X1')
FirstOcc = {}


def first_occ(lit):
    if lit not in FirstOcc:
        FirstOcc[lit] = least_spec('FirstOcc_' + ''.join('%02x' % ord(ch) for ch in lit),
                                   lambda s, i, _l=lit: B.occurs_abs(s, z3.IntVal(0), T.slen(s), _l, i))
    return FirstOcc[lit]


def _dc_requires(c):
    s = text_of(c.section)
    return [('spec_occ_%d' % k, first_occ(lit)[1](s)) for k, lit in enumerate(CONTEXT_LIST)]


def _dc_post_found(c):
    r = c.result
    if not isinstance(r, PTuple) or isinstance(r.items[1], PNone):
        raise ShapeMismatch()
    s = text_of(c.section)
    found = box(r.items[1], TStr)
    known = r.items[1].pyval if isinstance(r.items[1], ZV) else None
    if known is not None and known not in CONTEXT_LIST:
        return [('found_is_in_the_fixed_list', z3.BoolVal(False))]
    facts, a, b = parts_facts_self(r.items[0], s, X1_LABEL)
    alts = []
    for lit in ([known] if known is not None else CONTEXT_LIST):
        p = first_occ(lit)[0](s)
        alts.append(z3.And(p != -1, found == T.str_lit(lit), a == p, b == p + len(lit)))
    return facts + [('carves_the_first_occurrence_of_a_listed_string', z3.Or(alts))]


def _dc_post_none(c):
    r = c.result
    if not isinstance(r, PTuple) or not isinstance(r.items[1], PNone):
        raise ShapeMismatch()
    return [('section_unchanged', section_term(r.items[0]) == section_term(c.section))]


Contract(
    DR + 'context_sensitive_detection:detect_context_sensitive',
    params={'section': SECTION},
    cases=parts_cases(lambda c: [fresh(TStr, 'cs')], lambda c: _dc_post_found(c), lambda c: _dc_post_none(c), 1),
    locals={'parsing': SECTIONS},
    loops={0: LoopSpec(fingerprint='for replacement in context_sensitive_replacements', inv=lambda L: [], unroll=True)},
    note="C05.detect_context_sensitive.post: the carved part is the first occurrence of one string of the fixed list, labelled X1",
)


# ------------------------------------------------------------------ other_detection
def other_sound(text):
    j = z3.Int('j!os')
    return z3.ForAll([j], z3.Implies(z3.And(0 <= j, j < T.slen(text)), z3.BoolVal(True)), patterns=[T.sch(text, j)])


def _od_inv(L):
    sl0 = L.entry.args['section_list'].term
    sl1 = L.section_list.term
    k = z3.Int('k!od')
    i = L.index.term
    e0 = z3.Select(SECTIONS.arr(sl0), k)
    e1 = z3.Select(SECTIONS.arr(sl1), k)
    lab0 = SECTION.get(e0, 1)
    return [('index', z3.And(0 <= i, i <= SECTIONS.len(sl1))),
            ('len_kept', SECTIONS.len(sl1) == SECTIONS.len(sl0)),
            ('texts_kept', z3.ForAll([k], z3.Implies(z3.And(0 <= k, k < SECTIONS.len(sl0)), SECTION.get(e1, 0) == SECTION.get(e0, 0)),
                                     patterns=[z3.Select(SECTIONS.arr(sl1), k)])),
            ('done_part', z3.ForAll([k], z3.Implies(z3.And(0 <= k, k < i),
                                                    SECTION.get(e1, 1) == z3.If(LABEL.is_none(lab0),
                                                                                LABEL.some(label_len('O', T.slen(SECTION.get(e0, 0)))), lab0)),
                                    patterns=[z3.Select(SECTIONS.arr(sl1), k)])),
            ('pending_part', z3.ForAll([k], z3.Implies(z3.And(i <= k, k < SECTIONS.len(sl0)), e1 == e0),
                                       patterns=[z3.Select(SECTIONS.arr(sl1), k)])),
            ('tally', L.other_list.term == OtherTally(sl0, i))]


def _othertally_def(sl0, k):
    e = z3.Select(SECTIONS.arr(sl0), k - 1)
    prev = OtherTally(sl0, k - 1)
    grown = LSTR.mk(LSTR.len(prev) + 1, z3.Store(LSTR.arr(prev), LSTR.len(prev), SECTION.get(e, 0)))
    return z3.If(k <= 0, empty_list(LSTR), z3.If(LABEL.is_none(SECTION.get(e, 1)), grown, prev))


OtherTally = SpecFun('OtherTally', [SECTIONS.sort(), T.IntS], LSTR.sort(), _othertally_def,
                     doc='texts of the unlabelled sections among the first k, in order')


def _od_ensures(c):
    sl0 = c.section_list.term
    sl1 = c.after['section_list'].term
    k = z3.Int('k!oe')
    e0 = z3.Select(SECTIONS.arr(sl0), k)
    e1 = z3.Select(SECTIONS.arr(sl1), k)
    lab0 = SECTION.get(e0, 1)
    n = SECTIONS.len(sl0)
    return [('len_kept', SECTIONS.len(sl1) == n),
            ('every_section_labelled', z3.ForAll([k], z3.Implies(z3.And(0 <= k, k < n), z3.And(
                SECTION.get(e1, 0) == SECTION.get(e0, 0),
                SECTION.get(e1, 1) == z3.If(LABEL.is_none(lab0), LABEL.some(label_len('O', T.slen(SECTION.get(e0, 0)))), lab0),
                z3.Not(LABEL.is_none(SECTION.get(e1, 1))))), patterns=[z3.Select(SECTIONS.arr(sl1), k)])),
            ('tally', c.result.term == OtherTally(sl0, n))]


Contract(
    DR + 'other_detection:other_detection',
    params={'section_list': SECTIONS, '$pw': TStr, '$offs': OFFS},
    mutates=('section_list',),
    result=LSTR,
    requires=lambda c: [('tiling', tiling(c.section_list.term, c.args['$offs'].term, c.args['$pw'].term))],
    ensures=lambda c: _od_ensures(c) + [('tiling_kept', tiling(c.after['section_list'].term, c.args['$offs'].term, c.args['$pw'].term)),
                                        ('offsets_kept', c.after['$offs'].term == c.args['$offs'].term)],
    locals={'other_list': LSTR},
    loops={0: LoopSpec(fingerprint='while index < len(section_list)', inv=_od_inv)},
    note="C05: everything still unlabelled becomes 'O'+len(text), texts untouched, no None label is left; the returned list is the tally",
)


# ------------------------------------------------------------------ lower_keep_length, detect_email
lowc = z3.Function('lowc', T.IntS, T.IntS)     # per-character lower-casing that keeps one character


def lower_spec(r, s):
    j = z3.Int('j!lk')
    return z3.And(T.slen(r) == T.slen(s),
                  z3.ForAll([j], z3.Implies(z3.And(0 <= j, j < T.slen(s)), T.sch(r, j) == lowc(T.sch(s, j))), patterns=[T.sch(r, j)]))


LowerKeep = z3.Function('LowerKeep', T.Str, T.Str)

Contract(
    DR + 'email_detection:lower_keep_length',
    params={'text': TStr},
    cases=[Case('lowered', lambda c: ZV(TStr, LowerKeep(c.text.term)),
                lambda c: [('same_length_charwise', lower_spec(box(c.result, TStr), c.text.term))])],
    trusted=True,
    note='character-table lemma (exhaustive over all code points in the bounded stand-in): the result has the length of the input and is '
         'lower-cased character by character',
)

E_LABEL = T.str_lit('E')
W_LABEL = T.str_lit('W')


def tld_list_literal(eng):
    import ast as _ast
    node, info, src = eng.src.function(DR + 'tld_list:get_tld_list')
    for n in _ast.walk(node):
        if isinstance(n, _ast.List):
            return [_ast.literal_eval(x) for x in n.elts]
    raise Exception('tld list not found')


def install(eng):
    eng.inline_ok.add(DR + 'tld_list:get_tld_list')
    eng.builtins['join.list'] = lambda eng, e, st, xs: ZV(TStr, sjoin_l(xs.term))


def tlds_nonempty(lst):
    k = z3.Int('k!tl')
    return z3.ForAll([k], z3.Implies(z3.And(0 <= k, k < LSTR.len(lst)), T.slen(z3.Select(LSTR.arr(lst), k)) >= 1),
                     patterns=[z3.Select(LSTR.arr(lst), k)])


def parts_from0(s, b, label):
    n = T.slen(s)
    l1 = app(empty_list(SECTIONS), sec(sl(s, z3.IntVal(0), b), label))
    return z3.If(b < n, app(l1, sec(sl(s, b, n))), l1)


def _de_post_found(c):
    r = c.result
    if not isinstance(r, PTuple) or isinstance(r.items[1], PNone):
        raise ShapeMismatch()
    s = text_of(c.section)
    w = LowerKeep(s)
    lst = r.items[0]
    facts, a0, end = parts_facts_self(lst, s, E_LABEL)
    at = z3.Int('at!de')
    return facts + [('email_starts_the_section', a0 == 0),
        ('found_is_lowercased_prefix', box(r.items[1], TStr) == sl(w, z3.IntVal(0), end)),
        ('provider_follows_an_at_sign', z3.Exists([at], z3.And(0 <= at, at < end, T.sch(w, at) == ord('@'),
                                                               box(r.items[2], TStr) == sl(w, at + 1, end))))]




def SECTION_first_len(parsing):
    return T.slen(SECTION.get(z3.Select(SECTIONS.arr(parsing), 0), 0))


def _de_post_none(c):
    r = c.result
    if not isinstance(r, PTuple) or not isinstance(r.items[1], PNone):
        raise ShapeMismatch()
    return [('section_unchanged', section_term(r.items[0]) == section_term(c.section))]


Contract(
    DR + 'email_detection:detect_email',
    params={'section': SECTION},
    cases=parts_cases(lambda c: [fresh(TStr, 'email'), fresh(TStr, 'provider')], lambda c: _de_post_found(c), lambda c: _de_post_none(c), 2),
    locals={'parsing': SECTIONS, 'tld_list': LSTR},
    loops={0: LoopSpec(fingerprint='for tld in tld_list', inv=lambda L: [('nothing_appended', L.parsing.term == empty_list(SECTIONS)),
                                                                         ('tlds_nonempty', tlds_nonempty(L.tld_list.term))])},
    note='C05.detect_email.post: the e-mail is a non-empty prefix of the section ending with a TLD, the rest follows; parts tile the section',
)


# ------------------------------------------------------------------ detect_website
def partsW(s, w, a, b):
    n = T.slen(s)
    l0 = empty_list(SECTIONS)
    l1 = z3.If(a > 0, app(l0, sec(sl(s, z3.IntVal(0), a))), l0)
    l2 = app(l1, sec(sl(w, a, b), W_LABEL))
    return z3.If(b < n, app(l2, sec(sl(s, b, n))), l2)




def _dw_post_found(c):
    r = c.result
    if not isinstance(r, PTuple) or isinstance(r.items[1], PNone):
        raise ShapeMismatch()
    s = text_of(c.section)
    w = LowerKeep(s)
    facts, a, b = parts_facts_self(r.items[0], s, W_LABEL, carved_from=w)
    return facts + [('found_is_the_url', box(r.items[1], TStr) == sl(w, a, b))]


def _dw_post_none(c):
    r = c.result
    if not isinstance(r, PTuple) or not isinstance(r.items[1], PNone):
        raise ShapeMismatch()
    return [('section_unchanged', section_term(r.items[0]) == section_term(c.section))]


def _dw_inv_outer(L):
    return [('nothing_appended', L.parsing.term == empty_list(SECTIONS)), ('tlds_nonempty', tlds_nonempty(L.tld_list.term))]


def _dw_inv_inner(L):
    w = L.working_string.term
    return [('nothing_appended', L.parsing.term == empty_list(SECTIONS)),
            ('tld_occurs_at_total_index', z3.Implies(L.end_index.term != -1,
                                                     B.occurs_sym(w, z3.IntVal(0), T.slen(w), L.tld.term, L.total_index.term))),
            ('tld_nonempty', T.slen(L.tld.term) >= 1)]


Contract(
    DR + 'website_detection:detect_website',
    params={'section': SECTION},
    cases=parts_cases(lambda c: [fresh(TStr, 'url'), fresh(TStr, 'host'), fresh(TOpt(TStr), 'prefix')], lambda c: _dw_post_found(c),
                      lambda c: _dw_post_none(c), 3),
    locals={'parsing': SECTIONS, 'tld_list': LSTR, 'prefix': TOpt(TStr)},
    loops={0: LoopSpec(fingerprint='for tld in tld_list', inv=_dw_inv_outer),
           1: LoopSpec(fingerprint='while end_index != -1', inv=_dw_inv_inner)},
    note='C05.detect_website.post: the website part is a non-empty interval of the section, kept lower-cased; the parts tile the section',
)


# ------------------------------------------------------------------ word lists that tile a string
def _off_def(L, k):
    return z3.If(k <= 0, z3.IntVal(0), Off(L, k - 1) + T.slen(z3.Select(LSTR.arr(L), k - 1)))


Off = SpecFun('Off', [LSTR.sort(), T.IntS], T.IntS, _off_def, doc='total length of the first k words', quantified=True)


def tiles(L, s):
    """the words are consecutive, non-empty slices of s covering it"""
    k = z3.Int('k!ti')
    return z3.And(LSTR.len(L) >= 1, Off(L, LSTR.len(L)) == T.slen(s),
                  z3.ForAll([k], z3.Implies(z3.And(0 <= k, k < LSTR.len(L)),
                                            z3.And(T.slen(z3.Select(LSTR.arr(L), k)) >= 1,
                                                   Off(L, k) >= 0, Off(L, k + 1) <= T.slen(s),
                                                   z3.Select(LSTR.arr(L), k) == sl(s, Off(L, k), Off(L, k + 1)))),
                            patterns=[z3.Select(LSTR.arr(L), k)]))


MW = 'lib_trainer.detection_rules.multiword_detector:MultiWordDetector'
LOOKUP = T._Prim('mw_lookup', z3.DeclareSort('MwLookup'))
MW_OBJ = ObjShape(MW, {'threshold': TInt, 'min_len': TInt, 'max_len': TInt, 'min_check_len': TInt, 'lookup': LOOKUP})
MwCount = z3.Function('MwCount', LOOKUP.sort(), T.Str, T.IntS)     # _get_count as a function of (trie, string)
MwWords = z3.Function('MwWords', LOOKUP.sort(), T.IntS, T.IntS, T.IntS, T.Str, LSTR.sort())   # parse() as a function of detector state and input


def mw_words(det, s):
    return MwWords(det.fields['lookup'].term, det.fields['threshold'].term, det.fields['min_len'].term, det.fields['max_len'].term, s)


def mw_axiom():
    """the (assumed) contract of MultiWordDetector.parse in axiom form: its word list tiles its input"""
    lk = z3.Const('lk!mw', LOOKUP.sort())
    th, mn, mx = z3.Ints('th!mw mn!mw mx!mw')
    s = z3.Const('s!mw', T.Str)
    return z3.ForAll([lk, th, mn, mx, s], z3.Implies(T.slen(s) >= 1, tiles(MwWords(lk, th, mn, mx, s), s)),
                     patterns=[MwWords(lk, th, mn, mx, s)])


def _mwp_post(c):
    r = c.result
    if not isinstance(r, PTuple):
        raise ShapeMismatch()
    words = box(r.items[1], LSTR) if not isinstance(r.items[1], PList) else box(r.items[1], LSTR)
    s = c.alpha_string.term
    lookup = c.self.fields['lookup'].term
    th = c.self.fields['threshold'].term
    k = z3.Int('k!mw')
    multi = LSTR.len(words) >= 2
    return [('words_are_a_function_of_detector_and_input', words == mw_words(c.self, s)),
            ('words_tile_the_input', z3.Implies(T.slen(s) >= 1, tiles(words, s))),
            ('split_only_into_known_words', z3.Implies(multi, z3.And(
                MwCount(lookup, s) < th,
                z3.ForAll([k], z3.Implies(z3.And(0 <= k, k < LSTR.len(words)), MwCount(lookup, z3.Select(LSTR.arr(words), k)) >= th),
                          patterns=[z3.Select(LSTR.arr(words), k)]))))]


Contract(
    MW + '.parse',
    params={'self': MW_OBJ, 'alpha_string': TStr},
    cases=[Case('parsed', lambda c: PTuple([fresh(TBool, 'is_multi'), fresh(LSTR, 'word_list')]), _mwp_post)],
    trusted=True,
    note='C05.multiword.parse.post: the words concatenate to the input; it is split into several only if the whole is below the threshold '
         'and every part is at or above it (assumed here; _identify_multi/_get_count are covered by the bounded stand-in)',
)


# ------------------------------------------------------------------ detect_alpha
AFirst, AEndK, AStart, AEnd, a_first_stable, a_end_stable = run_specs('AlphaRun', T.c_isalpha)


def _alpha_parts_def(s, W, a, k):
    prev = AlphaParts(s, W, a, k - 1)
    word = z3.Select(LSTR.arr(W), k - 1)
    seg = sl(s, a + Off(W, k - 1), a + Off(W, k - 1) + T.slen(word))
    return z3.If(k <= 0, z3.If(a > 0, app(empty_list(SECTIONS), sec(sl(s, z3.IntVal(0), a))), empty_list(SECTIONS)),
                 app(prev, sec(seg, label_len('A', T.slen(word)))))


AlphaParts = SpecFun('AlphaParts', [T.Str, LSTR.sort(), T.IntS, T.IntS], SECTIONS.sort(), _alpha_parts_def,
                     doc='the optional leading part followed by one A<len> section per word (first k words)')

c_mask = z3.Function('c_mask', T.IntS, T.IntS)    # 'U' for an upper-case character else 'L'


def _maskprefix_def(seg, k):
    c = T.sch(seg, k - 1)
    return z3.If(k <= 0, T.S_EMPTY, T.scat(MaskPrefix(seg, k - 1), T.schar(z3.If(T.c_isupper(c), z3.IntVal(ord('U')), z3.IntVal(ord('L'))))))


MaskPrefix = SpecFun('MaskPrefix', [T.Str, T.IntS], T.Str, _maskprefix_def, doc="'U' at upper-case letters, 'L' elsewhere (first k characters)")


MaskOf = SpecFun('MaskOf', [T.Str], T.Str, lambda seg: MaskPrefix(seg, T.slen(seg)), doc='the U/L capitalisation mask of a segment')


def _masks_def(s, W, a, k):
    prev = Masks(s, W, a, k - 1)
    word = z3.Select(LSTR.arr(W), k - 1)
    seg = sl(s, a + Off(W, k - 1), a + Off(W, k - 1) + T.slen(word))
    return z3.If(k <= 0, empty_list(LSTR), LSTR.mk(LSTR.len(prev) + 1, z3.Store(LSTR.arr(prev), LSTR.len(prev), MaskOf(seg))))


Masks = SpecFun('Masks', [T.Str, LSTR.sort(), T.IntS, T.IntS], LSTR.sort(), _masks_def, doc='capitalisation masks of the first k word segments')


def _da_post_found(c):
    r = c.result
    if not isinstance(r, PTuple) or isinstance(r.items[1], PNone):
        raise ShapeMismatch()
    s = text_of(c.section)
    w = T.slower(s)
    a, b = AStart(w), AEnd(w)
    W = box(r.items[1], LSTR)
    n = T.slen(s)
    nw = LSTR.len(W)
    body = AlphaParts(s, W, a, nw)
    expected = z3.If(b < n, app(body, sec(sl(s, b, n))), body)
    return [('first_alpha_run_of_the_lowercased_text', z3.And(a != -1, W == mw_words(c.multiword_detector, sl(w, a, b)))),
            ('one_A_section_per_word_then_the_rest', as_zlist(r.items[0]) == expected),
            ('masks', box(r.items[2], LSTR) == Masks(s, W, a, nw))]


def _da_post_none(c):
    r = c.result
    if not isinstance(r, PTuple) or not isinstance(r.items[1], PNone):
        raise ShapeMismatch()
    s = text_of(c.section)
    return [('no_letter', AStart(T.slower(s)) == -1), ('section_unchanged', section_term(r.items[0]) == section_term(c.section))]


def _da_inv_scan(L):
    s = text_of(L.section)
    w = T.slower(s)
    j = z3.Int('j!da')
    i = L.i
    run, st = L.is_run.term, L.start_pos.term
    al = T.c_isalpha
    return [('first_letter_so_far', AFirst(w, i) == z3.If(run, st, z3.IntVal(-1))),
            ('run_reaches_here', z3.Implies(run, z3.And(0 <= st, st < i, AEndK(w, st, i) == i))),
            ('run_continues', z3.Implies(run, i < T.slen(w))),
            ('nothing_appended', L.parsing.term == empty_list(SECTIONS))]


def _da_inv_words(L):
    s = text_of(L.section)
    W = L.word_list.term
    a = L.start_pos.term
    return [('sections_prefix', L.parsing.term == AlphaParts(s, W, a, L.i)),
            ('masks_prefix', L.mask_list.term == Masks(s, W, a, L.i)),
            ('cursor', L.current_start.term == a + Off(W, L.i))]


def _da_inv_mask(L):
    # the per-letter mask string is MaskOf(segment) by definition of MaskOf through its prefix function
    return [('mask_prefix', L.mask.term == MaskPrefix(L.seq.term, L.i))]


Contract(
    DR + 'alpha_detection:detect_alpha',
    params={'section': SECTION, 'multiword_detector': MW_OBJ},
    requires=lambda c: [('A_lower_same_length', T.slen(T.slower(text_of(c.section))) == T.slen(text_of(c.section)))],
    cases=[Case('found', lambda c: PTuple([fresh(SECTIONS, 'parsing'), fresh(LSTR, 'words'), fresh(LSTR, 'masks')]), _da_post_found),
           Case('none', lambda c: PTuple([c.section, PNone(), PNone()]), _da_post_none)],
    locals={'parsing': SECTIONS, 'mask_list': LSTR},
    loops={0: LoopSpec(fingerprint='enumerate(working_string)', inv=_da_inv_scan,
                       hints=lambda L: run_hints(AFirst, AEndK, a_first_stable, a_end_stable, T.slower(text_of(L.section)), L.i, L.start_pos.term)),
           1: LoopSpec(fingerprint='for word in word_list', inv=_da_inv_words),
           2: LoopSpec(fingerprint='for letter in', inv=_da_inv_mask)},
    note="C05.detect_alpha.post: the first maximal letter run (of the lower-cased text) is cut into the detector's words, one 'A'+len section each, "
         'with the U/L mask of the original characters; requires len(lower(s)) == len(s) (false only for U+0130, where the run ends at that character)',
)


# ================================================================== list level: the *_detection functions
# Ghost state: $pw the password being segmented, $offs the cut points of the current section list in $pw.


def off_at(offs, k):
    return z3.Select(OFFS.arr(offs), k)


def tiling(sections, offs, pw):
    """Tiles(section_list, pw): consecutive non-empty intervals of pw covering it; a section's text is its interval of pw
    (of the length-preserving lower-casing of pw for website sections)."""
    k = z3.Int('k!tl')
    e = z3.Select(SECTIONS.arr(sections), k)
    text, lab = SECTION.get(e, 0), SECTION.get(e, 1)
    lo, hi = off_at(offs, k), off_at(offs, k + 1)
    is_w = z3.And(z3.Not(LABEL.is_none(lab)), T.sch(LABEL.val(lab), 0) == ord('W'))     # labels are told apart by their first character
    n = SECTIONS.len(sections)
    return z3.And(n >= 0, OFFS.len(offs) == n + 1, off_at(offs, 0) == 0, off_at(offs, n) == T.slen(pw),
                  z3.ForAll([k], z3.Implies(z3.And(0 <= k, k < n),
                                            z3.And(0 <= lo, lo < hi, hi <= T.slen(pw),
                                                   z3.Or(LABEL.is_none(lab), T.slen(LABEL.val(lab)) >= 1),
                                                   text == z3.If(is_w, sl(LowerKeep(pw), lo, hi), sl(pw, lo, hi)))),
                            patterns=[z3.Select(SECTIONS.arr(sections), k)]))


def cuts_of(parsing, base):
    """cut points (absolute) between the parts of a parsing list of 1..3 parts starting at offset base"""
    l0 = T.slen(SECTION.get(z3.Select(SECTIONS.arr(parsing), 0), 0))
    l1 = T.slen(SECTION.get(z3.Select(SECTIONS.arr(parsing), 1), 0))
    m = SECTIONS.len(parsing)
    e = empty_list(OFFS)
    one = OFFS.mk(z3.IntVal(1), z3.Store(OFFS.arr(e), 0, base + l0))
    two = OFFS.mk(z3.IntVal(2), z3.Store(z3.Store(OFFS.arr(e), 0, base + l0), 1, base + l0 + l1))
    return z3.If(m <= 1, e, z3.If(m == 2, one, two))


def ghost_splice(eng, st):
    """after `section_list[index:index] = parsing`: the cut points inside the replaced section join $offs"""
    idx = eng.as_int(st.env['index'])
    parsing = st.env['parsing']
    pz = as_zlist(parsing)
    offs = st.env['$offs'].term
    st.env['$offs'] = ZV(OFFS, lsplice_offs(offs, idx + 1, cuts_of(pz, off_at(offs, idx))))


def lower_commutes_with_slicing():
    """LowerKeep works character by character, so it commutes with slicing (part of its character-table contract)"""
    s = z3.Const('s!lc', T.Str)
    a, b = z3.Ints('a!lc b!lc')
    return z3.ForAll([s, a, b], z3.Implies(z3.And(0 <= a, a <= b, b <= T.slen(s)),
                                           z3.And(LowerKeep(sl(s, a, b)) == sl(LowerKeep(s), a, b), T.slen(LowerKeep(s)) == T.slen(s))),
                     patterns=[LowerKeep(sl(s, a, b))])


def xdet_requires(c):
    return [('tiling', tiling(c.section_list.term, c.args['$offs'].term, c.args['$pw'].term))]


def kept_or_new(sl0, sl1, new_ok):
    """every section of the new list is an old labelled section, or unlabelled, or satisfies new_ok(text, label)"""
    k, m = z3.Ints('k!kn m!kn')
    e1 = z3.Select(SECTIONS.arr(sl1), k)
    lab1 = SECTION.get(e1, 1)
    old = z3.Exists([m], z3.And(0 <= m, m < SECTIONS.len(sl0), z3.Select(SECTIONS.arr(sl0), m) == e1))
    return z3.ForAll([k], z3.Implies(z3.And(0 <= k, k < SECTIONS.len(sl1)),
                                     z3.Or(LABEL.is_none(lab1), old, new_ok(SECTION.get(e1, 0), LABEL.val(lab1)))),
                     patterns=[z3.Select(SECTIONS.arr(sl1), k)])


def xdet_contract(qualname, detect_short, extra_params=None, results=1, note=''):
    def ensures(c):
        return [('tiling_kept', tiling(c.after['section_list'].term, c.after['$offs'].term, c.args['$pw'].term))]

    def inv(L):
        return [('tiling', tiling(L.section_list.term, L.env['$offs'].term, L.entry.args['$pw'].term)),
                ('index', eng_int(L.index) >= 0)]

    params = {'section_list': SECTIONS}
    params.update(extra_params or {})
    params.update({'$pw': TStr, '$offs': OFFS})
    con = Contract(qualname, params=params, requires=xdet_requires, ensures=ensures, mutates=('section_list',),
                   result=(LSTR if results == 1 else None),
                   loops={0: LoopSpec(fingerprint='while index < len(section_list)', inv=inv, extra_writes=['$offs'])},
                   note=note)
    con.ghost_after = {'section_list[index:index] = parsing': ghost_splice}
    con.definitions = lambda c: [lower_commutes_with_slicing()]
    return con


def eng_int(v):
    return v.term


_dgd = xdet_contract(DR + 'digit_detection:digit_detection', 'detect_digits',
                     note='C05.digit_detection.inv: the section list keeps tiling the password (lossless, non-empty, in order)')
_dgd.locals = {'digit_list': LSTR}

_yd = xdet_contract(DR + 'year_detection:year_detection', 'detect_year',
                    note='C05.year_detection.inv: the section list keeps tiling the password')
_yd.locals = {'year_list': LSTR}
_cd = xdet_contract(DR + 'context_sensitive_detection:context_sensitive_detection', 'detect_context_sensitive',
                    note='C05.context_sensitive_detection.inv: the section list keeps tiling the password')
_cd.locals = {'context_sensitive_list': LSTR}
_ed = xdet_contract(DR + 'email_detection:email_detection', 'detect_email', results=2,
                    note='C05.email_detection.inv: the section list keeps tiling the password')
_ed.locals = {'email_list': LSTR, 'provider_list': LSTR}
_ed.cases[0].make = lambda c: PTuple([fresh(LSTR, 'emails'), fresh(LSTR, 'providers')])
_wd = xdet_contract(DR + 'website_detection:website_detection', 'detect_website', results=3,
                    note='C05.website_detection.inv: the section list keeps tiling the password (website sections hold the lower-cased interval)')
_wd.locals = {'url_list': LSTR, 'host_list': LSTR, 'prefix_list': TList(TOpt(TStr))}
_wd.cases[0].make = lambda c: PTuple([fresh(LSTR, 'urls'), fresh(LSTR, 'hosts'), fresh(TList(TOpt(TStr)), 'prefixes')])

Contract.registry[DR + 'year_detection:detect_year'].definitions = lambda c: [y19_axiom(text_of(c.section)), y20_axiom(text_of(c.section))]
Contract.registry[DR + 'context_sensitive_detection:detect_context_sensitive'].definitions = lambda c: [b for _, b in _dc_requires(c)]


# ------------------------------------------------------------------ base_structure_creation
BS = 'lib_trainer.base_structure'


def _bs_cat_def(sections, k):
    e = z3.Select(SECTIONS.arr(sections), k - 1)
    return z3.If(k <= 0, empty_list(LSTR), LSTR.mk(LSTR.len(BsLabels(sections, k - 1)) + 1,
                                                   z3.Store(LSTR.arr(BsLabels(sections, k - 1)), LSTR.len(BsLabels(sections, k - 1)),
                                                            LABEL.val(SECTION.get(e, 1)))))


BsLabels = SpecFun('BsLabels', [SECTIONS.sort(), T.IntS], LSTR.sort(), _bs_cat_def, doc='labels of the first k sections, in order')


def _unsup_def(sections, k):
    e = z3.Select(SECTIONS.arr(sections), k - 1)
    c0 = T.sch(LABEL.val(SECTION.get(e, 1)), 0)
    return z3.If(k <= 0, z3.BoolVal(False), z3.Or(HasEW(sections, k - 1), c0 == ord('W'), c0 == ord('E')))


HasEW = SpecFun('HasEW', [SECTIONS.sort(), T.IntS], T.BoolS, _unsup_def, doc='some of the first k labels starts with E or W')
sjoin_l = z3.Function('sjoin', LSTR.sort(), T.Str)


def all_labelled(sections):
    k = z3.Int('k!al')
    lab = SECTION.get(z3.Select(SECTIONS.arr(sections), k), 1)
    return z3.ForAll([k], z3.Implies(z3.And(0 <= k, k < SECTIONS.len(sections)),
                                     z3.And(z3.Not(LABEL.is_none(lab)), T.slen(LABEL.val(lab)) >= 1)),
                     patterns=[z3.Select(SECTIONS.arr(sections), k)])


def _bsc_ensures(c):
    r = c.result
    sections = c.section_list.term
    n = SECTIONS.len(sections)
    return [('supported_iff_no_email_or_website', box(r.items[0], TBool) == z3.Not(HasEW(sections, n))),
            ('structure_is_the_labels_in_order', box(r.items[1], TStr) == sjoin_l(BsLabels(sections, n)))]


Contract(
    BS + ':base_structure_creation',
    params={'section_list': SECTIONS},
    requires=lambda c: [('every_section_labelled', all_labelled(c.section_list.term))],
    cases=[Case('built', lambda c: PTuple([fresh(TBool, 'is_supported'), fresh(TStr, 'base_structure')]), _bsc_ensures)],
    locals={'base_structure': LSTR},
    loops={0: LoopSpec(fingerprint='for section in section_list',
                       inv=lambda L: [('labels_prefix', L.base_structure.term == BsLabels(L.section_list.term, L.i)),
                                      ('supported_prefix', L.is_supported.term == z3.Not(HasEW(L.section_list.term, L.i)))])},
    note="C06.unsupported / C05: the structure string is the concatenation of the labels; it is 'supported' iff no label starts with E or W; "
         'never raises when every section is labelled (other_detection.post)',
)


# ------------------------------------------------------------------ counters (C05.counters.tally)
PP = 'lib_trainer.pcfg_password_parser:PCFGPasswordParser'
COUNTER_S = TDict(TStr, TInt, counter=True)
LENCOUNTER = TDict(TInt, COUNTER_S)


def _countstr_def(lst, x, k):
    return z3.If(k <= 0, z3.IntVal(0), CountStr(lst, x, k - 1) + z3.If(z3.Select(LSTR.arr(lst), k - 1) == x, 1, 0))


CountStr = SpecFun('CountStr', [LSTR.sort(), T.Str, T.IntS], T.IntS, _countstr_def, doc='occurrences of x among the first k items', quantified=True)


def cget(cnt, x):
    return z3.If(COUNTER_S.has(cnt, x), COUNTER_S.get(cnt, x), z3.IntVal(0))


def lcget(lc, n, x):
    return z3.If(LENCOUNTER.has(lc, n), cget(LENCOUNTER.get(lc, n), x), z3.IntVal(0))


def len_tally(lc0, lc1, lst, k):
    n = z3.Int('n!lt')
    x = z3.Const('x!lt', T.Str)
    return z3.ForAll([n, x], lcget(lc1, n, x) == lcget(lc0, n, x) + z3.If(n == T.slen(x), CountStr(lst, x, k), 0))


Contract(
    PP + '._update_counter_len_indexed',
    params={'self': ObjShape(PP, {}), 'input_counter': LENCOUNTER, 'input_list': LSTR},
    mutates=('input_counter',),
    ensures=lambda c: [('tally_by_length', len_tally(c.input_counter.term, c.after['input_counter'].term, c.input_list.term,
                                                     LSTR.len(c.input_list.term)))],
    loops={0: LoopSpec(fingerprint='for item in input_list',
                       inv=lambda L: [('tally_prefix', len_tally(L.entry.args['input_counter'].term, L.input_counter.term,
                                                                 L.input_list.term, L.i))])},
    note='C05.counters.tally: counter[len(item)][item] grows by one per occurrence of item in the list, nothing else changes',
)


# ------------------------------------------------------------------ trusted list-level contracts (bounded stand-ins cover them)
KW = DR + 'keyboard_walk:detect_keyboard_walk'


def _kw_post(c):
    r = c.result
    sections = box(r.items[0], SECTIONS)
    return [('tiles_the_password', tiling(sections, c.after['$offs'].term, c.password.term))]


_kw = Contract(
    KW, params={'password': TStr, '$offs': OFFS},
    cases=[Case('walks', lambda c: PTuple([fresh(SECTIONS, 'section_list'), fresh(LSTR, 'found_walks'), fresh(LSTR, 'keyboard_list')]), _kw_post)],
    trusted=True,
    note='C05.keyboard.tiling assumed here (nested-dict adjacency bookkeeping is outside the engine): the returned sections tile the password; '
         'carried by the bounded stand-in C05.bounded.keyboard',
)
_kw.defaults = {}

_ad = Contract(
    DR + 'alpha_detection:alpha_detection',
    params={'section_list': SECTIONS, 'multiword_detector': MW_OBJ, '$pw': TStr, '$offs': OFFS},
    requires=xdet_requires,
    cases=[Case('done', lambda c: PTuple([fresh(LSTR, 'alpha_list'), fresh(LSTR, 'mask_list')]),
                lambda c: [('tiling_kept', tiling(c.after['section_list'].term, c.after['$offs'].term, c.args['$pw'].term))])],
    mutates=('section_list',),
    trusted=True,
    note='the list-level loop of alpha_detection (a variable number of word sections is spliced in) is assumed to keep the tiling; '
         'detect_alpha itself is verified; carried by the bounded stand-in C05.bounded.pipeline',
)

Contract('lib_trainer.prince_metrics:prince_evaluation', params={'count_prince': TDict(TOpt(TStr), TInt, counter=True), 'section_list': SECTIONS},
         mutates=('count_prince',), trusted=True, note='verified under C17 (prince_evaluation tally)')


# ------------------------------------------------------------------ PCFGPasswordParser.parse
COUNTER_OS = TDict(TOpt(TStr), TInt, counter=True)
PARSER_OBJ = ObjShape(PP, {
    'multiword_detector': MW_OBJ, 'count_keyboard': LENCOUNTER, 'count_emails': COUNTER_S, 'count_email_providers': COUNTER_S,
    'count_website_urls': COUNTER_S, 'count_website_hosts': COUNTER_S, 'count_website_prefixes': COUNTER_OS, 'count_years': COUNTER_S,
    'count_context_sensitive': COUNTER_S, 'count_alpha': LENCOUNTER, 'count_alpha_masks': LENCOUNTER, 'count_digits': LENCOUNTER,
    'count_other': LENCOUNTER, 'count_base_structures': COUNTER_S, 'count_raw_base_structures': COUNTER_S, 'count_prince': COUNTER_OS})

Contract.registry[PP + '._update_counter_len_indexed'].params['self'] = PARSER_OBJ


def simple_tally(c0, c1, lst, k):
    x = z3.Const('x!st', T.Str)
    return z3.ForAll([x], cget(c1, x) == cget(c0, x) + CountStr(lst, x, k), patterns=[CountStr(lst, x, k)])


def _tally_inv(field, listvar):
    def inv(L):
        return [('tally_prefix', simple_tally(L.pre['self'].fields[field].term, L.self.fields[field].term, L.env[listvar].term, L.i))]
    return inv


def _parse_hook(name):
    def hook(eng, st, c2, e, exprs):
        if name in st.env:
            r = c2.result
            st.env[name] = r if not isinstance(r, PTuple) else r.items[0]
    return hook


Contract.registry[DR + 'digit_detection:digit_detection'].call_hook = _parse_hook('$found_digits')
Contract.registry[DR + 'other_detection:other_detection'].call_hook = _parse_hook('$found_other')


def _parse_ensures(c):
    s0, s1 = c.self, c.after['self']
    bs = c.after['$structure'].term
    sup = c.after['$supported'].term
    x = z3.Const('x!pe', T.Str)
    raw0, raw1 = s0.fields['count_raw_base_structures'].term, s1.fields['count_raw_base_structures'].term
    b0, b1 = s0.fields['count_base_structures'].term, s1.fields['count_base_structures'].term
    return [('returns_true', c.result.term),
            ('raw_structure_counted', z3.ForAll([x], cget(raw1, x) == cget(raw0, x) + z3.If(x == bs, 1, 0))),
            ('structure_counted_only_if_supported', z3.ForAll([x], cget(b1, x) == cget(b0, x) + z3.If(z3.And(x == bs, sup), 1, 0))),
            ('digits_tallied', len_tally(s0.fields['count_digits'].term, s1.fields['count_digits'].term, c.after['$found_digits'].term,
                                         LSTR.len(c.after['$found_digits'].term))),
            ('other_tallied', len_tally(s0.fields['count_other'].term, s1.fields['count_other'].term, c.after['$found_other'].term,
                                        LSTR.len(c.after['$found_other'].term))),
            ('final_segmentation_tiles_the_password', tiling(c.after['$sections'].term, c.after['$offs'].term, c.password.term)),
            ('every_section_labelled', all_labelled(c.after['$sections'].term))]


def _bsc_hook(eng, st, c2, e, exprs):
    if '$structure' in st.env:
        st.env['$supported'] = c2.result.items[0]
        st.env['$structure'] = c2.result.items[1]
        st.env['$sections'] = c2.args['section_list']


Contract.registry[BS + ':base_structure_creation'].call_hook = _bsc_hook

_parse = Contract(
    PP + '.parse',
    params={'self': PARSER_OBJ, 'password': TStr, '$pw': TStr, '$offs': OFFS, '$found_digits': LSTR, '$found_other': LSTR,
            '$structure': TStr, '$supported': TBool, '$sections': SECTIONS},
    requires=lambda c: [('ghost_password', c.args['$pw'].term == c.password.term)],
    result=TBool,
    ensures=_parse_ensures,
    self_modifies=tuple(k for k in PARSER_OBJ.fields if k != 'multiword_detector'),
    loops={0: LoopSpec(fingerprint='for email in found_emails', inv=_tally_inv('count_emails', 'found_emails')),
           1: LoopSpec(fingerprint='for provider in found_providers', inv=_tally_inv('count_email_providers', 'found_providers')),
           2: LoopSpec(fingerprint='for url in found_urls', inv=_tally_inv('count_website_urls', 'found_urls')),
           3: LoopSpec(fingerprint='for host in found_hosts', inv=_tally_inv('count_website_hosts', 'found_hosts')),
           4: LoopSpec(fingerprint='for prefix in found_prefixes', inv=lambda L: []),
           5: LoopSpec(fingerprint='for year in found_years', inv=_tally_inv('count_years', 'found_years')),
           6: LoopSpec(fingerprint='for cs_string in found_context_sensitive_strings',
                       inv=_tally_inv('count_context_sensitive', 'found_context_sensitive_strings'))},
    note='C05.parse: the detectors run in order on one section list that keeps tiling the password; nothing is left unlabelled; '
         'C06.unsupported: a structure with an E/W label is counted only in the raw list; C05.counters.tally for the length-indexed counters',
)
