"""
Sidecar contracts for guess generation: PcfgGrammar.print_guess, _recursive_guesses,
omen_generate_guesses, create_guesses (C04, C09; reused by C12, C15, C16, C17).

Ghost state
  $out   : the stream of lines written by print_guess (native z3 sequence of Str)
  $quit  : whether the user ever asks to quit; reads of self.should_exit (a field written by
           the keyboard thread) return an arbitrary Boolean that can be True only if $quit,
           and stay True once True (rely condition of C12)

Spec (DESIGN section 4):
  ExpandL(G, OG, cur, pt)  the guesses of the pre-terminal suffix pt started from cur
  CatVals(G, OG, cur, pt, j) = concatenation over the first j values v of group pt[0] of
                               ExpandL(G, OG, step(cur, pt[0], v), pt[1:])
  step = cur + v  for plain variables;  for C<n>:  cur[:-n] + Mask(cur[-n:], v)
  a Markov pre-terminal expands to OmenSeq(OG, level) (C10's contract, assumed here)
"""
import z3

from pyvc import theory as T
from pyvc.theory import TInt, TBool, TF, TStr, TList, TTuple, TRec, TOpt, TDict, TBag, TSeq, SpecFun
from pyvc.engine import (Contract, Case, LoopSpec, ObjShape, FunShape, ZV, PObj, PRec, PTuple, PNone, PList,
                         box, unbox, fresh, empty_list, ShapeMismatch, zbool, fresh_name, empty_arr)
from contracts.guesser_core import *   # noqa
from contracts import guesser_core as gc
from contracts import guesser_lemmas as _gl_hooks   # noqa: F401 (installs lemma hooks)

OUT = TSeq(TStr)
SEQ = OUT.sort()
LSTR = TList(TStr)
OGS = OMEN_GRAMMAR.sort()
MC = 'lib_guesser.omen.markov_cracker:MarkovCracker'
MC_OBJ = ObjShape(MC, {'seq': OUT, 'pos': TInt})

OmenSeq = z3.Function('OmenSeq', OGS, T.IntS, SEQ)     # C10: the strings of an OMEN level, in generation order
sjoin = z3.Function('sjoin', LSTR.sort(), T.Str)       # ''.join(list of str)
lcat_str = T.list_fn('lcat', LSTR, [LSTR.sort()])
lslice_pt = T.list_fn('lslice', PT, [T.IntS, T.IntS])


def unit(s):
    return z3.Unit(s)


def take(n, s):
    return z3.Extract(s, z3.IntVal(0), n)


def tail(pt):
    return lslice_pt(pt, z3.IntVal(1), PT.len(pt))


def category(pt):
    return T.sch(pt_type(pt, 0), 0)


def values0(G, pt):
    return gvalues(G, pt_type(pt, 0), pt_idx(pt, 0))


def nvals(G, pt):
    return LSTR.len(values0(G, pt))


def val(G, pt, v):
    return z3.Select(LSTR.arr(values0(G, pt)), v)


def mask_len(G, pt):
    return T.slen(val(G, pt, z3.IntVal(0)))


def _masklist_def(cur, n, mask, k):
    j = k - 1
    c = T.sch(cur, T.slen(cur) - n + j)
    elem = z3.If(T.sch(mask, j) == ord('L'), T.schar(c), T.c_upper1(c))
    return z3.If(k <= 0, empty_list(LSTR), gc.append(LSTR, MaskList(cur, n, mask, k - 1), elem))


MaskList = SpecFun('MaskList', [T.Str, T.IntS, T.Str, T.IntS], LSTR.sort(), _masklist_def,
                   doc='the last n characters of cur, upper-cased where the mask is not L (first k positions)')


def step_c(cur, n, mask):
    start = T.sslice(cur, z3.IntVal(0), T.slen(cur) - n)
    one = LSTR.mk(z3.IntVal(1), z3.Store(empty_arr(TStr), 0, start))
    return sjoin(lcat_str(one, MaskList(cur, n, mask, T.slen(mask))))


def step(G, cur, pt, v):
    return z3.If(category(pt) == ord('C'), step_c(cur, mask_len(G, pt), val(G, pt, v)), T.scat(cur, val(G, pt, v)))


def omen_level(G, pt):
    from pyvc.builtins import s_toint
    return s_toint(val(G, pt, z3.IntVal(0)))


def _expand_def(G, OG, cur, pt):
    return z3.If(PT.len(pt) <= 0, unit(cur),
                 z3.If(category(pt) == ord('M'), OmenSeq(OG, omen_level(G, pt)),
                       CatVals(G, OG, cur, pt, nvals(G, pt))))


def _catvals_def(G, OG, cur, pt, j):
    return z3.If(j <= 0, z3.Empty(SEQ),
                 z3.Concat(CatVals(G, OG, cur, pt, j - 1), ExpandL(G, OG, step(G, cur, pt, j - 1), tail(pt))))


ExpandL = SpecFun('ExpandL', [GRAMMAR.sort(), OGS, T.Str, PT.sort()], SEQ, _expand_def,
                  doc='guesses of a pre-terminal (suffix), in emission order')
CatVals = SpecFun('CatVals', [GRAMMAR.sort(), OGS, T.Str, PT.sort(), T.IntS], SEQ, _catvals_def,
                  doc='guesses contributed by the first j values of the leading group')


# ------------------------------------------------------------------------------- well-formedness for expansion
def wf_expand(G, cur, pt):
    """what makes the mask indexing safe: every C<n> group has masks of one length n >= 1, the
    string built so far has at least n characters when a C group is reached, and a Markov
    variable is alone and carries an integer level."""
    k, v = z3.Ints('k!we v!we')
    from pyvc.builtins import s_isint
    ty = pt_type(pt, k)
    grp = gvalues(G, ty, pt_idx(pt, k))
    n = T.slen(z3.Select(LSTR.arr(grp), 0))
    prev = gvalues(G, pt_type(pt, k - 1), pt_idx(pt, k - 1))
    is_c = T.sch(ty, 0) == ord('C')
    is_m = T.sch(ty, 0) == ord('M')
    return z3.ForAll([k], z3.Implies(
        z3.And(0 <= k, k < PT.len(pt)),
        z3.And(
            T.slen(ty) >= 1, LSTR.len(grp) >= 1,
            z3.Implies(is_c, z3.And(
                n >= 1,
                z3.ForAll([v], z3.Implies(z3.And(0 <= v, v < LSTR.len(grp)), T.slen(z3.Select(LSTR.arr(grp), v)) == n),
                          patterns=[z3.Select(LSTR.arr(grp), v)]),
                z3.If(k == 0, T.slen(cur) >= n,
                      z3.And(T.sch(pt_type(pt, k - 1), 0) != ord('C'), T.sch(pt_type(pt, k - 1), 0) != ord('M'),
                             z3.ForAll([v], z3.Implies(z3.And(0 <= v, v < LSTR.len(prev)),
                                                       T.slen(z3.Select(LSTR.arr(prev), v)) >= n),
                                       patterns=[z3.Select(LSTR.arr(prev), v)]))))),
            z3.Implies(is_m, z3.And(PT.len(pt) == 1, s_isint(z3.Select(LSTR.arr(grp), 0)))))),
        patterns=[z3.Select(PT.arr(pt), k)])


# ------------------------------------------------------------------------------- should_exit is volatile
def read_should_exit(eng, st, obj):
    b = z3.Bool(fresh_name('should_exit_read'))
    quit_ = st.env['$quit'].term
    last = st.env['$exit_seen']
    st.assume(z3.Implies(b, quit_))
    st.assume(z3.Implies(last.term, b))
    st.env['$exit_seen'] = ZV(TBool, b)
    return ZV(TBool, b)


# ------------------------------------------------------------------------------- print_guess
def _print_stdout(eng, e, st, args, kw):
    """print(x) to stdout appends one line to the ghost stream (when the function carries one)."""
    if '$out' in st.env and len(args) == 1 and isinstance(args[0], ZV) and args[0].shape == TStr:
        st.env['$out'] = ZV(OUT, z3.Concat(st.env['$out'].term, unit(args[0].term)))
    elif '$out' in st.env:
        st.env['$out'] = fresh(OUT, 'out_garbled')      # anything else on stdout spoils the stream
    return PNone()


def install(eng):
    eng.builtins['print.stdout'] = _print_stdout
    eng.builtins['join.list'] = lambda eng, e, st, xs: ZV(TStr, sjoin(xs.term))


Contract(
    MOD + ':PcfgGrammar.print_guess',
    params={'self': GRAMMAR_OBJ, 'guess': TStr, '$out': OUT},
    ensures=lambda c: [('one_line', c.after['$out'].term == z3.If(c.self.fields['debug'].term, c.args['$out'].term,
                                                                 z3.Concat(c.args['$out'].term, unit(c.guess.term))))],
    raises=(),
    note='C04.print_guess.post: exactly one line per call (debug mode prints nothing). Assumes stdout can encode every '
         'ruleset value (the swallowed UnicodeEncodeError branch) and that the consumer keeps reading (OSError branch)',
)


# ------------------------------------------------------------------------------- limit semantics
def lim_active(limit):
    sh = TOpt(TInt)
    return z3.And(z3.Not(sh.is_none(limit)), sh.val(limit) != 0)


def lim_val(limit):
    return TOpt(TInt).val(limit)


def stream_post(out0, out1, res, E, limit):
    """Out' = Out ++ take(limit, E) and result = min(limit, |E|); no limit: everything."""
    n = z3.Length(E)
    L = lim_val(limit)
    return z3.If(lim_active(limit),
                 z3.And(out1 == z3.Concat(out0, take(L, E)), res == z3.If(L < n, L, n)),
                 z3.And(out1 == z3.Concat(out0, E), res == n))


def limit_ok(limit):
    sh = TOpt(TInt)
    return z3.Or(sh.is_none(limit), sh.val(limit) >= 0)     # 0 is falsy: it means 'no limit', like None


# ------------------------------------------------------------------------------- omen_generate_guesses
def mc_rest(mc):
    seq = mc.fields['seq'].term
    pos = mc.fields['pos'].term
    return z3.Extract(seq, pos, z3.Length(seq) - pos)


def _next_guess_handler():
    pass


Contract(
    MC + '.next_guess',
    params={'self': MC_OBJ},
    self_modifies=('pos',),
    cases=[
        Case('exhausted', lambda c: PNone(),
             lambda c: None if not isinstance(c.result, PNone) else [
                 ('at_end', c.self.fields['pos'].term >= z3.Length(c.self.fields['seq'].term)),
                 ('pos_kept', c.after['self'].fields['pos'].term == c.self.fields['pos'].term)]),
        Case('guess', lambda c: fresh(TStr, 'omen_guess'),
             lambda c: None if isinstance(c.result, PNone) else [
                 ('in_range', c.self.fields['pos'].term < z3.Length(c.self.fields['seq'].term)),
                 ('value', unit(c.result.term) == z3.Extract(c.self.fields['seq'].term, c.self.fields['pos'].term, z3.IntVal(1))),
                 ('advanced', c.after['self'].fields['pos'].term == c.self.fields['pos'].term + 1)]),
    ],
    trusted=True,
    note='assumed here, decided by C10: a MarkovCracker yields the strings of its level one by one, then None',
)

class _Any(T.Shape):
    """an opaque value no contract looks into (e.g. the placeholder pt_item handed to restore_omen)"""

    def key(self):
        return 'any'

    def sort(self):
        return z3.DeclareSort('AnyVal')


ANY = _Any()
OMN = TRec({'seq': OUT, 'pos': TInt})      # ghost: what the .omn pickle holds (generator sequence and cursor)


def omn_of(mc):
    return OMN.mk(seq=mc.fields['seq'].term, pos=mc.fields['pos'].term)


def omn_rest(omn):
    seq, pos = OMN.get(omn, 'seq'), OMN.get(omn, 'pos')
    return z3.Extract(seq, pos, z3.Length(seq) - pos)


Contract(
    MC + '.save_session',
    params={'self': MC_OBJ, 'file_name': TStr, '$omn': OMN},
    ensures=lambda c: [('pickled', box(c.after['$omn'], OMN) == omn_of(c.self))],
    trusted=True,
    note='pickles the cursor (C15): the .omn file holds the generator state after the last emitted guess '
         '(the real class is exercised by the bounded stand-in C15.bounded.cuts)',
)

Contract(
    MC + '.load_session',
    params={'self': MC_OBJ, 'file_name': TStr, 'pt_item': ANY, '$omn': OMN},
    self_modifies=('seq', 'pos'),
    ensures=lambda c: [('unpickled', omn_of(c.after['self']) == box(c.args['$omn'], OMN)),
                       ('file_kept', box(c.after['$omn'], OMN) == box(c.args['$omn'], OMN)),
                       ('A_PICKLE_wf', z3.And(0 <= c.after['self'].fields['pos'].term,
                                              c.after['self'].fields['pos'].term <= z3.Length(c.after['self'].fields['seq'].term)))],
    trusted=True,
    note='C15: restores the pickled cursor; A-PICKLE: the .omn file is only ever written by save_session, so the cursor is in range',
)


def _ogg_requires(c):
    mc = c.markov_cracker
    return [('pos_in_range', z3.And(0 <= mc.fields['pos'].term, mc.fields['pos'].term <= z3.Length(mc.fields['seq'].term))),
            ('limit_ok', limit_ok(c.limit.term)),
            ('not_debug', z3.Not(c.self.fields['debug'].term))]


def _ogg_ensures(c):
    mc0 = c.markov_cracker
    mc1 = c.after['markov_cracker']
    R = mc_rest(mc0)
    out0, out1 = c.args['$out'].term, c.after['$out'].term
    res = c.result.term
    full = stream_post(out0, out1, res, R, c.limit.term)
    n = z3.Length(R)
    L = lim_val(c.limit.term)
    want = z3.If(lim_active(c.limit.term), z3.If(L < n, L, n), n)
    return [
        ('prefix', z3.And(0 <= res, res <= want, out1 == z3.Concat(out0, take(res, R)))),
        ('complete_unless_quit', z3.Implies(z3.Not(c.args['$quit'].term), full)),
        ('early_stop_is_a_saved_quit', z3.Implies(res < want, z3.And(c.args['$quit'].term, c.after['self'].fields['omen_exit'].term,
                                                                     c.after['$exit_seen'].term, res >= 1))),
        ('exit_seen_monotone', z3.Implies(c.args['$exit_seen'].term, c.after['$exit_seen'].term)),
        ('exit_only_on_quit', z3.Implies(c.after['$exit_seen'].term, z3.Or(c.args['$exit_seen'].term, c.args['$quit'].term))),
        ('cursor', mc1.fields['pos'].term == mc0.fields['pos'].term + res),
        # C15.save.point: a stop inside the level pickles the cursor right after the last emitted guess; otherwise the .omn file is untouched
        ('cursor_pickled_on_quit', z3.Implies(z3.And(c.after['$exit_seen'].term, z3.Not(c.args['$exit_seen'].term)),
                                              z3.And(c.after['self'].fields['omen_exit'].term,
                                                     box(c.after['$omn'], OMN) == OMN.mk(seq=mc0.fields['seq'].term,
                                                                                    pos=mc0.fields['pos'].term + res)))),
        ('pickle_kept_otherwise', z3.Implies(z3.Not(c.after['$exit_seen'].term),
                                             z3.And(box(c.after['$omn'], OMN) == box(c.args['$omn'], OMN),
                                                    c.after['self'].fields['omen_exit'].term == c.self.fields['omen_exit'].term))),
        ('guess_num', c.after['self'].fields['omen_guess_num'].term >= c.self.fields['omen_guess_num'].term),
    ]


def _ogg_inv(L):
    mc0 = L.entry.args['markov_cracker']
    R = mc_rest(mc0)
    out0 = L.entry.args['$out'].term
    n = L.num_guesses.term
    lim0 = L.entry.args['limit'].term
    sh = TOpt(TInt)
    guess = L.guess
    conj = [
        ('count', z3.And(0 <= n, n <= z3.Length(R))),
        ('stream', L.env['$out'].term == z3.Concat(out0, take(n, R))),
        ('limit_tracks', z3.If(lim_active(lim0),
                               z3.And(z3.Not(sh.is_none(L.limit.term)), sh.val(L.limit.term) == lim_val(lim0) - n,
                                      sh.val(L.limit.term) >= 1),
                               L.limit.term == lim0)),
        ('omen_exit_kept', L.self.fields['omen_exit'].term == L.entry.args['self'].fields['omen_exit'].term),
        ('guess_num_mono', L.self.fields['omen_guess_num'].term >= L.entry.args['self'].fields['omen_guess_num'].term),
        ('exit_seen_kept', L.env['$exit_seen'].term == L.entry.args['$exit_seen'].term),
        ('pickle_kept', box(L.env['$omn'], OMN) == box(L.entry.args['$omn'], OMN)),
        ('seq_kept', L.markov_cracker.fields['seq'].term == mc0.fields['seq'].term),
    ]
    gsh = TOpt(TStr)
    g = box(guess, gsh) if not isinstance(guess, PNone) else gsh.none()
    conj.append(('lookahead', z3.If(gsh.is_none(g),
                                    z3.And(L.markov_cracker.fields['pos'].term == mc0.fields['pos'].term + n,
                                           n == z3.Length(R)),
                                    z3.And(L.markov_cracker.fields['pos'].term == mc0.fields['pos'].term + n + 1,
                                           n < z3.Length(R),
                                           unit(gsh.val(g)) == z3.Extract(R, n, z3.IntVal(1))))))
    return conj


_ogg = Contract(
    MOD + ':PcfgGrammar.omen_generate_guesses',
    params={'self': GRAMMAR_OBJ, 'markov_cracker': MC_OBJ, 'limit': TOpt(TInt), '$out': OUT, '$quit': TBool, '$exit_seen': TBool,
            '$omn': OMN},
    requires=_ogg_requires,
    result=TInt,
    ensures=_ogg_ensures,
    mutates=('markov_cracker',),
    self_modifies=('omen_guess_num', 'omen_exit'),
    locals={'guess': TOpt(TStr), 'limit': TOpt(TInt)},
    loops={0: LoopSpec(fingerprint='while guess is not None', inv=_ogg_inv, shapes={'guess': TOpt(TStr)},
                       extra_writes=['$exit_seen', '$omn'])},
    note='C04.count / C09.limit.omen.post / C12 / C15.save.point',
)
_ogg.volatile = {'should_exit': read_should_exit}
_ogg.defaults = {'limit': lambda: PNone()}


# ------------------------------------------------------------------------------- MarkovCracker constructor (C10's contract)
Contract(
    MC + '.__init__',
    params={'self': MC_OBJ, 'grammar': OMEN_GRAMMAR, 'target_level': TInt, 'optimizer': OMEN_OPT},
    cases=[Case('built', lambda c: fresh(MC_OBJ, 'mc'),
                lambda c: [('seq', c.result.fields['seq'].term == OmenSeq(c.grammar.term, c.target_level.term)),
                           ('pos', c.result.fields['pos'].term == 0)])],
    trusted=True,
    note='assumed here, decided by C10: the generator for (grammar, level) produces OmenSeq(grammar, level), '
         'independent of what the shared optimizer cache holds',
)


# ------------------------------------------------------------------------------- CatVals prefix lemma
def _rest_def(G, OG, cur, pt, j, m):
    return z3.If(m <= j, z3.Empty(SEQ),
                 z3.Concat(RestVals(G, OG, cur, pt, j, m - 1), ExpandL(G, OG, step(G, cur, pt, m - 1), tail(pt))))


RestVals = SpecFun('RestVals', [GRAMMAR.sort(), OGS, T.Str, PT.sort(), T.IntS, T.IntS], SEQ, _rest_def,
                   doc='guesses contributed by values j..m-1 of the leading group')

from pyvc.lemma import Schema   # noqa: E402


def _catvals_split(G, OG, cur, pt, j, d):
    m = j + d
    return [0 <= j, 0 <= d], CatVals(G, OG, cur, pt, m) == z3.Concat(CatVals(G, OG, cur, pt, j), RestVals(G, OG, cur, pt, j, m))


catvals_split = Schema('C04.catvals_split',
                       [('G', GRAMMAR.sort()), ('OG', OGS), ('cur', T.Str), ('pt', PT.sort()), ('j', T.IntS), ('d', T.IntS)],
                       _catvals_split, induction='d',
                       doc='CatVals(j+d) = CatVals(j) ++ RestVals(j, j+d): what was emitted so far is a prefix of the whole expansion')


# ------------------------------------------------------------------------------- _recursive_guesses
def _rg_requires(c):
    G = g_of(c.self)
    pt = c.pt.term
    return [('wf_pt', wf_pt(G, pt)), ('nonempty', PT.len(pt) >= 1),
            ('wf_expand', wf_expand(G, c.cur_guess.term, pt)),
            ('limit_ok', limit_ok(c.limit.term)),
            ('not_debug', z3.Not(c.self.fields['debug'].term))]


def _E(c):
    return ExpandL(g_of(c.self), c.self.fields['omen_grammar'].term, c.cur_guess.term, c.pt.term)


def _rg_ensures(c):
    E = _E(c)
    out0, out1 = c.args['$out'].term, c.after['$out'].term
    res = c.result.term
    n = z3.Length(E)
    L = lim_val(c.limit.term)
    want = z3.If(lim_active(c.limit.term), z3.If(L < n, L, n), n)
    return [
        ('prefix', z3.And(0 <= res, res <= want, out1 == z3.Concat(out0, take(res, E)))),
        ('exact', z3.Implies(z3.Or(z3.Not(c.args['$quit'].term), category(c.pt.term) != ord('M')),
                             stream_post(out0, out1, res, E, c.limit.term))),
        ('early_stop', z3.Implies(res < want, z3.And(c.args['$quit'].term, c.after['$exit_seen'].term, res >= 1,
                                                     c.after['self'].fields['omen_exit'].term, category(c.pt.term) == ord('M')))),
        ('exit_seen_monotone', z3.Implies(c.args['$exit_seen'].term, c.after['$exit_seen'].term)),
        ('exit_only_on_quit', z3.Implies(c.after['$exit_seen'].term, z3.Or(c.args['$exit_seen'].term, c.args['$quit'].term))),
        ('omen_exit_only_on_quit', z3.Implies(z3.Not(c.after['$exit_seen'].term),
                                              c.after['self'].fields['omen_exit'].term == c.self.fields['omen_exit'].term)),
    ]


def _rg_inv_common(L, j):
    G = g_of(L.self)
    OG = L.self.fields['omen_grammar'].term
    e = L.entry
    cur, pt = e.args['cur_guess'].term, e.args['pt'].term
    done = CatVals(G, OG, cur, pt, j)
    lim0 = e.args['limit'].term
    sh = TOpt(TInt)
    n = L.num_guesses.term
    return [
        ('stream', L.env['$out'].term == z3.Concat(e.args['$out'].term, done)),
        ('count', n == z3.Length(done)),
        ('limit_tracks', z3.If(lim_active(lim0),
                               z3.And(z3.Not(sh.is_none(L.limit.term)), sh.val(L.limit.term) == lim_val(lim0) - n,
                                      sh.val(L.limit.term) >= 1),
                               L.limit.term == lim0)),
        ('exit_seen_monotone', z3.Implies(e.args['$exit_seen'].term, L.env['$exit_seen'].term)),
        ('exit_only_on_quit', z3.Implies(L.env['$exit_seen'].term, z3.Or(e.args['$exit_seen'].term, e.args['$quit'].term))),
        ('omen_exit_only_on_quit', z3.Implies(z3.Not(L.env['$exit_seen'].term),
                                              L.self.fields['omen_exit'].term == e.args['self'].fields['omen_exit'].term)),
    ]


def eng_same_obj(a, b):
    from pyvc.engine import Engine
    r = Engine.same(Engine.__new__(Engine), a, b)
    return z3.BoolVal(True) if r is True else r


def _rg_hints(L):
    G = g_of(L.self)
    OG = L.self.fields['omen_grammar'].term
    e = L.entry
    cur, pt = e.args['cur_guess'].term, e.args['pt'].term
    nv = nvals(G, pt)
    return [catvals_split.inst(G, OG, cur, pt, L.i, nv - L.i),
            catvals_split.inst(G, OG, cur, pt, L.i + 1, nv - L.i - 1)]


def _rg_inv_outer(L):
    return _rg_inv_common(L, L.i)


def _rg_inv_mask(L):
    e = L.entry
    cur = e.args['cur_guess'].term
    return [('masked_prefix', L.new_end.term == MaskList(cur, L.mask_len.term, L.mask.term, L.i)),
            ('index', L.index.term == L.i)]


_rg = Contract(
    MOD + ':PcfgGrammar._recursive_guesses',
    params={'self': GRAMMAR_OBJ, 'cur_guess': TStr, 'pt': PT, 'limit': TOpt(TInt), '$out': OUT, '$quit': TBool, '$exit_seen': TBool},
    requires=_rg_requires,
    result=TInt,
    ensures=_rg_ensures,
    self_modifies=('omen_guess_num', 'omen_exit'),
    locals={'limit': TOpt(TInt), 'new_end': LSTR},
    loops={0: LoopSpec(fingerprint="for mask in self.grammar[pt_type][index]['values']", inv=_rg_inv_outer, hints=_rg_hints),
           1: LoopSpec(fingerprint='for item in mask', inv=_rg_inv_mask),
           2: LoopSpec(fingerprint="for item in self.grammar[pt_type][index]['values']", inv=_rg_inv_outer, hints=_rg_hints)},
    note='C04._recursive_guesses.post and C09.limit._recursive_guesses.post',
)
_rg.defaults = {'limit': lambda: PNone()}


# ------------------------------------------------------------------------------- create_guesses (non-honeyword entry)
def _cg_requires(c):
    G = g_of(c.self)
    pt = c.pt.term
    return [('wf_pt', wf_pt(G, pt)), ('nonempty', PT.len(pt) >= 1),
            ('wf_expand', wf_expand(G, T.S_EMPTY, pt)),
            ('limit_ok', limit_ok(c.limit.term)),
            ('not_debug', z3.Not(c.self.fields['debug'].term))]


def _cg_ensures(c):
    E = ExpandL(g_of(c.self), c.self.fields['omen_grammar'].term, T.S_EMPTY, c.pt.term)
    out0, out1 = c.args['$out'].term, c.after['$out'].term
    res = c.result.term
    n = z3.Length(E)
    L = lim_val(c.limit.term)
    want = z3.If(lim_active(c.limit.term), z3.If(L < n, L, n), n)
    return [
        ('prefix', z3.And(0 <= res, res <= want, out1 == z3.Concat(out0, take(res, E)))),
        ('exact', z3.Implies(z3.Or(z3.Not(c.args['$quit'].term), category(c.pt.term) != ord('M')),
                             stream_post(out0, out1, res, E, c.limit.term))),
        ('early_stop', z3.Implies(res < want, z3.And(c.args['$quit'].term, c.after['$exit_seen'].term, res >= 1,
                                                     c.after['self'].fields['omen_exit'].term, category(c.pt.term) == ord('M')))),
        ('exit_seen_monotone', z3.Implies(c.args['$exit_seen'].term, c.after['$exit_seen'].term)),
        ('exit_only_on_quit', z3.Implies(c.after['$exit_seen'].term, z3.Or(c.args['$exit_seen'].term, c.args['$quit'].term))),
        ('omen_exit_only_on_quit', z3.Implies(z3.Not(c.after['$exit_seen'].term),
                                              c.after['self'].fields['omen_exit'].term == c.self.fields['omen_exit'].term)),
    ]


_cg = Contract(
    MOD + ':PcfgGrammar.create_guesses',
    params={'self': GRAMMAR_OBJ, 'pt': PT, 'is_honeyword': TBool, 'limit': TOpt(TInt), '$out': OUT, '$quit': TBool, '$exit_seen': TBool},
    requires=_cg_requires,
    result=TInt,
    ensures=_cg_ensures,
    self_modifies=('omen_guess_num', 'omen_exit'),
    note='C04.count: the number returned is the number of lines written; C09: exact prefix under --limit',
)
_cg.variants = [{'is_honeyword': zbool(False)}]
_cg.defaults = {'is_honeyword': lambda: zbool(False), 'limit': lambda: PNone()}
