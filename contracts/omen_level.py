"""
Contracts for C11 (trainer, scorer and guesser agree on every string's OMEN level) -- the two level evaluators:

  lib_trainer.omen.evaluate_password:find_omen_level   (in-memory trainer tables)
  lib_scorer.omen_scorer:OmenScorer.parse              (IP/CP/LN tables read from the ruleset)

Both are verified, for every string and every table, against one declarative definition:

  level(s) = ln(len s) + ip(s[0:n-1]) + sum_{e = n .. len s} cp(s[e-n:e])      if the length is admissible and every n-gram is present
           = -1                                                                  otherwise

(LevelT / LevelS below, recursive spec functions SumT/OkT and SumS/OkS over the end position e).  The agreement of the two definitions under
"the scorer's tables are the trainer's tables" (Corr) is the lemma schema level_agree, proved by induction over e.
That the tables do correspond after writing and reading the files, and the guesser's generator, are exercised by the bounded stand-in TRIPLE.
"""
import z3

from pyvc import theory as T
from pyvc.theory import TInt, TBool, TStr, TList, TTuple, TRec, TDict, SpecFun
from pyvc.engine import Contract, LoopSpec, ObjShape
from pyvc.lemma import Schema

EV = 'lib_trainer.omen.evaluate_password'
SC = 'lib_scorer.omen_scorer:OmenScorer'

LV = TTuple([TInt, TInt])                       # (level, count)
NEXT = TDict(TStr, LV)
GENT = TRec({'ip_level': TInt, 'next_letter': NEXT})
GRAM = TDict(TStr, GENT)
LNL = TList(LV)
TRAINER = ObjShape('lib_trainer.omen.alphabet_lookup:AlphabetLookup',
                   {'min_length': TInt, 'max_length': TInt, 'ngram': TInt, 'ln_lookup': LNL, 'grammar': GRAM})
IPT = TDict(TStr, TInt)
SCORER = ObjShape(SC, {'ngram': TInt, 'max_len': TInt, 'ln': TList(TInt), 'ip': IPT, 'cp': IPT})

GS, LS, IS = GRAM.sort(), LNL.sort(), IPT.sort()


def last_char(s, e):
    return T.schar(T.sch(s, e - 1))


# ---- trainer side ----------------------------------------------------------------------------------
def t_key(s, n, e):
    return T.sslice(s, e - n, e - 1)


def t_ok1(g, s, n, e):
    k = t_key(s, n, e)
    return z3.And(GRAM.has(g, k), NEXT.has(GENT.get(GRAM.get(g, k), 'next_letter'), last_char(s, e)))


def t_lvl1(g, s, n, e):
    k = t_key(s, n, e)
    return LV.get(NEXT.get(GENT.get(GRAM.get(g, k), 'next_letter'), last_char(s, e)), 0)


SumT = SpecFun('SumT', [GS, T.Str, T.IntS, T.IntS], T.IntS,
               lambda g, s, n, e: z3.If(e < n, z3.IntVal(0), SumT(g, s, n, e - 1) + t_lvl1(g, s, n, e)),
               doc='sum of the transition levels of the n-grams ending at positions n..e (trainer tables)')
OkT = SpecFun('OkT', [GS, T.Str, T.IntS, T.IntS], z3.BoolSort(),
              lambda g, s, n, e: z3.If(e < n, z3.BoolVal(True), z3.And(OkT(g, s, n, e - 1), t_ok1(g, s, n, e))),
              doc='every n-gram ending at positions n..e is present (trainer tables)')


def _okt_mono(g, s, n, e, d):
    return [], z3.Implies(OkT(g, s, n, e + d), OkT(g, s, n, e))


okt_mono = Schema('C11.okt_mono', [('g', GS), ('s', T.Str), ('n', T.IntS), ('e', T.IntS), ('d', T.IntS)], _okt_mono, induction='d',
                  doc='presence up to a later position implies presence up to an earlier one (a missing n-gram makes the whole string unparsable)')


def LevelT(tr, s):
    g = tr.fields['grammar'].term
    n = tr.fields['ngram'].term
    ln = tr.fields['ln_lookup'].term
    L = T.slen(s)
    ipk = T.sslice(s, z3.IntVal(0), n - 1)
    ok = z3.And(GRAM.has(g, ipk), OkT(g, s, n, L))
    total = LV.get(z3.Select(LNL.arr(ln), L - 1), 0) + GENT.get(GRAM.get(g, ipk), 'ip_level') + SumT(g, s, n, L)
    return z3.If(z3.Or(L < tr.fields['min_length'].term, L > tr.fields['max_length'].term), z3.IntVal(-1),
                 z3.If(ok, total, z3.IntVal(-1)))


def _fol_requires(c):
    tr = c.omen_trainer
    return [('class_invariant', z3.And(tr.fields['ngram'].term >= 2, tr.fields['min_length'].term >= tr.fields['ngram'].term,
                                       LNL.len(tr.fields['ln_lookup'].term) == tr.fields['max_length'].term))]


def _fol_inv(L):
    tr = L.entry.args['omen_trainer']
    g = tr.fields['grammar'].term
    n = tr.fields['ngram'].term
    s = L.entry.args['password'].term
    ipk = T.sslice(s, z3.IntVal(0), n - 1)
    e = L.end_pos.term
    return [('range', z3.And(n <= e, e <= T.slen(s) + 1)),
            ('ip_present', GRAM.has(g, ipk)),
            ('sum', L.chain_level.term == GENT.get(GRAM.get(g, ipk), 'ip_level') + SumT(g, s, n, e - 1)),
            ('ok', OkT(g, s, n, e - 1)),
            ('locals', z3.And(L.ngram.term == n, L.pw_len.term == T.slen(s),
                              L.ln_level.term == LV.get(z3.Select(LNL.arr(tr.fields['ln_lookup'].term), T.slen(s) - 1), 0)))]


Contract(
    EV + ':find_omen_level',
    params={'omen_trainer': TRAINER, 'password': TStr},
    requires=_fol_requires,
    result=TInt,
    ensures=lambda c: [('level', c.result.term == LevelT(c.omen_trainer, c.password.term))],
    raises=(),
    loops={0: LoopSpec(fingerprint='while end_pos <= pw_len', inv=_fol_inv,
                       hints=lambda L: [okt_mono.inst(L.entry.args['omen_trainer'].fields['grammar'].term, L.entry.args['password'].term,
                                                      L.entry.args['omen_trainer'].fields['ngram'].term, L.end_pos.term,
                                                      T.slen(L.entry.args['password'].term) - L.end_pos.term)])},
    note='C11.trainer: the level is ln + ip + sum of the transition levels, -1 exactly when the length is out of range or an n-gram is missing',
)


# ---- scorer side -----------------------------------------------------------------------------------
def s_key(s, n, e):
    return T.sslice(s, e - n, e)


SumS = SpecFun('SumS', [IS, T.Str, T.IntS, T.IntS], T.IntS,
               lambda cp, s, n, e: z3.If(e < n, z3.IntVal(0), SumS(cp, s, n, e - 1) + IPT.get(cp, s_key(s, n, e))),
               doc='sum of the CP levels of the n-grams ending at positions n..e (scorer tables)')
OkS = SpecFun('OkS', [IS, T.Str, T.IntS, T.IntS], z3.BoolSort(),
              lambda cp, s, n, e: z3.If(e < n, z3.BoolVal(True), z3.And(OkS(cp, s, n, e - 1), IPT.has(cp, s_key(s, n, e)))),
              doc='every n-gram ending at positions n..e is in the CP table')


def _oks_mono(cp, s, n, e, d):
    return [], z3.Implies(OkS(cp, s, n, e + d), OkS(cp, s, n, e))


oks_mono = Schema('C11.oks_mono', [('cp', IS), ('s', T.Str), ('n', T.IntS), ('e', T.IntS), ('d', T.IntS)], _oks_mono, induction='d',
                  doc='as okt_mono, for the scorer tables')


def LevelS(sc, s):
    n = sc.fields['ngram'].term
    L = T.slen(s)
    ipk = T.sslice(s, z3.IntVal(0), n - 1)
    ip, cp = sc.fields['ip'].term, sc.fields['cp'].term
    ok = z3.And(IPT.has(ip, ipk), OkS(cp, s, n, L))
    total = z3.Select(TList(TInt).arr(sc.fields['ln'].term), L) + IPT.get(ip, ipk) + SumS(cp, s, n, L)
    return z3.If(z3.Or(L < n, L > sc.fields['max_len'].term), z3.IntVal(-1), z3.If(ok, total, z3.IntVal(-1)))


def _sp_inv(L):
    sc = L.entry.args['self']
    n = sc.fields['ngram'].term
    s = L.entry.args['password'].term
    ipk = T.sslice(s, z3.IntVal(0), n - 1)
    e = L.end_pos.term
    return [('range', z3.And(n <= e, e <= T.slen(s) + 1)),
            ('ip_present', IPT.has(sc.fields['ip'].term, ipk)),
            ('sum', L.chain_level.term == IPT.get(sc.fields['ip'].term, ipk) + SumS(sc.fields['cp'].term, s, n, e - 1)),
            ('ok', OkS(sc.fields['cp'].term, s, n, e - 1)),
            ('locals', z3.And(L.pass_len.term == T.slen(s),
                              L.ln_level.term == z3.Select(TList(TInt).arr(sc.fields['ln'].term), T.slen(s))))]


Contract(
    SC + '.parse',
    params={'self': SCORER, 'password': TStr},
    requires=lambda c: [('class_invariant', z3.And(c.self.fields['ngram'].term >= 2,
                                                   c.self.fields['max_len'].term == TList(TInt).len(c.self.fields['ln'].term) - 1))],
    result=TInt,
    ensures=lambda c: [('level', c.result.term == LevelS(c.self, c.password.term))],
    raises=(),
    loops={0: LoopSpec(fingerprint='while end_pos <= pass_len', inv=_sp_inv,
                       hints=lambda L: [oks_mono.inst(L.entry.args['self'].fields['cp'].term, L.entry.args['password'].term,
                                                      L.entry.args['self'].fields['ngram'].term, L.end_pos.term,
                                                      T.slen(L.entry.args['password'].term) - L.end_pos.term)])},
    note='C11.scorer: the same sum over the tables read from IP.level / CP.level / LN.level',
)


# ---- agreement of the two definitions ----------------------------------------------------------------
def corr(g, cp, n):
    """the scorer's CP table is the trainer's transition table: an n-gram is listed iff prefix and letter are present, with the same level"""
    x = z3.Const('x!corr', T.Str)
    k = T.sslice(x, z3.IntVal(0), n - 1)
    c = T.schar(T.sch(x, n - 1))
    pres = z3.And(GRAM.has(g, k), NEXT.has(GENT.get(GRAM.get(g, k), 'next_letter'), c))
    return z3.ForAll([x], z3.Implies(T.slen(x) == n, z3.And(
        IPT.has(cp, x) == pres,
        z3.Implies(pres, IPT.get(cp, x) == LV.get(NEXT.get(GENT.get(GRAM.get(g, k), 'next_letter'), c), 0)))),
        patterns=[IPT.has(cp, x)])


def _agree(g, cp, s, n, d):
    e = n - 1 + d
    hyps = [corr(g, cp, n), n >= 2, e <= T.slen(s)]
    concl = z3.And(OkT(g, s, n, e) == OkS(cp, s, n, e), z3.Implies(OkT(g, s, n, e), SumT(g, s, n, e) == SumS(cp, s, n, e)))
    return hyps, concl


level_agree = Schema('C11.level_agree', [('g', GS), ('cp', IS), ('s', T.Str), ('n', T.IntS), ('d', T.IntS)], _agree, induction='d',
                     doc='with corresponding tables (the CP file lists exactly the trainer transitions, same levels) the trainer-side and '
                         'scorer-side presence predicates and level sums coincide at every end position e = n-1+d')


def agree_lemmas():
    """level_agree plus its use: LevelT == LevelS when ln and ip correspond too"""
    return level_agree.lemmas() + okt_mono.lemmas() + oks_mono.lemmas()
