"""
Sidecar contracts: lib_guesser/cracking_session.py (CrackingSession.run, _save_session, keypress).
Properties C09 (limit accounting of the session loop), C08 (save point), C12 (quit only on
request, at a pre-terminal boundary, after saving), C15 (what a save records).

Ghost state
  $out     the guess stream (see guesser_expand)
  $quit    the user explicitly asked to quit; reads of pcfg.should_exit are volatile (rely: the
           flag can become True only if $quit and stays True)
  $popped  log of the pre-terminals returned by PcfgQueue.next() during this run
  $disk    the options last written to the save file by ConfigParser.write
"""
import z3

from pyvc import theory as T
from pyvc import builtins as B
from pyvc.theory import TInt, TBool, TF, TStr, TList, TTuple, TRec, TOpt, TDict, TBag, TSeq, SpecFun
from pyvc.engine import (Contract, Case, LoopSpec, ObjShape, FunShape, ZV, PObj, PRec, PTuple, PNone, PList,
                         box, unbox, fresh, empty_list, ShapeMismatch, zbool, fresh_name)
from contracts.guesser_core import *      # noqa
from contracts.guesser_expand import *    # noqa
from contracts.guesser_restore import CONFIG, KMAX, KMIN
from contracts import guesser_core as gc, guesser_expand as ge

CS = 'lib_guesser.cracking_session'
SR = 'lib_guesser.status_report:StatusReport'
REPORT_OBJ = ObjShape(SR, {'num_parse_trees': TInt, 'num_guesses': TInt, 'probability_coverage': TF,
                           'past_guessing_time': TInt})
SESSION_OBJ = ObjShape(CS + ':CrackingSession', {
    'save_config': CONFIG, 'save_filename': TStr, 'report': REPORT_OBJ, 'pcfg': GRAMMAR_OBJ, 'mode': TStr,
    'pqueue': QUEUE_OBJ})
POPPED = TSeq(PTITEM)
PSEQ = POPPED.sort()
DISK = B.CONFIG_OPTS
K_OMEN = B.CONFIG_KEY.mk(T.str_lit('guessing_info'), T.str_lit('omen_guess_number'))
K_MODE = B.CONFIG_KEY.mk(T.str_lit('guessing_info'), T.str_lit('mode'))


def _flat_def(G, OG, popped, k):
    it = popped[k - 1]
    return z3.If(k <= 0, z3.Empty(SEQ), z3.Concat(FlatE(G, OG, popped, k - 1), ExpandL(G, OG, T.S_EMPTY, PTITEM.get(it, 'pt'))))


FlatE = SpecFun('FlatE', [GRAMMAR.sort(), OGS, PSEQ, T.IntS], SEQ, _flat_def,
                doc='guesses of the first k popped pre-terminals, in order')


# ---- StatusReport: bookkeeping that no property reads (trusted, frame only) --------------------
def session_keys_only(opts0, opts1):
    k = z3.Const('k!sk', B.CONFIG_KEY.sort())
    return z3.ForAll([k], z3.Implies(B.CONFIG_KEY.get(k, 0) != T.str_lit('session_info'),
                                     z3.And(B.CONFIG_OPTS.has(opts1, k) == B.CONFIG_OPTS.has(opts0, k),
                                            B.CONFIG_OPTS.get(opts1, k) == B.CONFIG_OPTS.get(opts0, k))),
                     patterns=[B.CONFIG_OPTS.has(opts1, k)])


Contract(SR + '.update_save_config', params={'self': REPORT_OBJ, 'save_config': CONFIG}, mutates=('save_config',),
         ensures=lambda c: [('only_session_info', session_keys_only(c.save_config.fields['opts'].term,
                                                                    c.after['save_config'].fields['opts'].term))],
         trusted=True, note='status bookkeeping: writes only options of section session_info')
Contract(SR + '.load', params={'self': REPORT_OBJ, 'save_config': CONFIG},
         self_modifies=('num_guesses', 'num_parse_trees', 'probability_coverage', 'past_guessing_time'),
         trusted=True, note='status bookkeeping')
Contract(SR + '.print_status', params={'self': REPORT_OBJ, 'pcfg': GRAMMAR_OBJ}, trusted=True, raises=('Exception',),
         note='writes to stderr only (frame checked by C09.stdout.frame); may raise when stderr is gone')
Contract(SR + '.print_help', params={'self': REPORT_OBJ}, trusted=True, raises=('Exception',), note='stderr only')


# ---- _save_session -------------------------------------------------------------------------------
def _ss_post_true(c):
    s0, s1 = c.self, c.after['self']
    opts1 = s1.fields['save_config'].fields['opts'].term
    q = s0.fields['pqueue']
    pq_mode = T.str_lit('priority_queue')
    return [
        ('written', c.after['$disk'].term == opts1),
        ('position_saved', z3.Implies(s0.fields['mode'].term == pq_mode, z3.And(
            B.CONFIG_OPTS.has(opts1, KMAX),
            B.CONFIG_OPTS.get(opts1, KMAX) == B.s_offloat(q.fields['max_probability'].term),
            B.CONFIG_OPTS.get(opts1, KMIN) == B.s_offloat(q.fields['min_probability'].term)))),
        ('omen_cursor_only_if_stopped_inside_omen', z3.Implies(
            z3.And(B.CONFIG_OPTS.has(opts1, K_OMEN), z3.Not(B.CONFIG_OPTS.has(s0.fields['save_config'].fields['opts'].term, K_OMEN))),
            s0.fields['pcfg'].fields['omen_exit'].term)),
    ]


_ss = Contract(
    CS + ':CrackingSession._save_session',
    params={'self': SESSION_OBJ, '$disk': DISK},
    cases=[
        Case('saved', lambda c: zbool(True),
             lambda c: None if not _is_const(c.result, True) else _ss_post_true(c)),
        Case('io_error', lambda c: zbool(False),
             lambda c: None if not _is_const(c.result, False) else [('disk_kept', c.after['$disk'].term == c.args['$disk'].term)]),
    ],
    self_modifies=('save_config',),
    note='C08.save: the file holds repr(max_probability) of the queue; C15: omen cursor written only after a stop inside OMEN',
)


def _is_const(v, b):
    if not isinstance(v, ZV) or v.shape != TBool:
        return False
    if v.pyval is not None:
        return v.pyval is b
    return not z3.is_true(v.term) and not z3.is_false(v.term)   # symbolic result of a call site fits both


# ---- keypress (the keyboard thread) ----------------------------------------------------------------
def _kp_ensures(c):
    f0 = c.pcfg.fields['should_exit'].term
    f1 = c.after['pcfg'].fields['should_exit'].term
    return [('sets_flag_only_on_q', z3.Implies(f1 != f0, z3.And(f1, ge_str_is(c.after['$last_input'].term, 'q')))),
            ('nothing_else_written', eng_same_but(c.after['pcfg'], c.pcfg, 'should_exit'))]


def ge_str_is(term, lit):
    conj = [T.slen(term) == len(lit)]
    for i, ch in enumerate(lit):
        conj.append(T.sch(term, i) == ord(ch))
    return z3.And(conj)


def eng_same_but(a, b, fld):
    from pyvc.engine import Engine
    e = Engine.__new__(Engine)
    parts = []
    for k in a.fields:
        if k == fld:
            continue
        r = Engine.same(e, a.fields[k], b.fields[k])
        if r is not True:
            parts.append(r)
    return z3.And(parts) if parts else z3.BoolVal(True)


def _kp_inv(L):
    return [('flag_untouched', L.pcfg.fields['should_exit'].term == L.entry.args['pcfg'].fields['should_exit'].term),
            ('nothing_else_written', eng_same_but(L.pcfg, L.entry.args['pcfg'], 'should_exit'))]


def _input_logged(eng, e, st, args, kw):
    """input(): as the builtin, and the line read is kept in the ghost $last_input."""
    v = B._input(eng, e, st, args, kw)
    if '$last_input' in st.env:
        st.env['$last_input'] = v
    return v


def install(eng):
    ge.install(eng)
    eng.builtins['input'] = _input_logged


_kp = Contract(
    CS + ':keypress',
    params={'report': REPORT_OBJ, 'pcfg': GRAMMAR_OBJ, '$last_input': TStr},
    mutates=('pcfg',),
    ensures=_kp_ensures,
    raises=(),
    loops={0: LoopSpec(fingerprint='while True', inv=_kp_inv, extra_writes=['$last_input'])},
    note="C12.keypress.frame/guarantee: the thread's only write outside stderr is pcfg.should_exit = True, and only after reading 'q'; "
         'every way it can end (return, EOFError/ValueError/OSError from input(), an error while printing) leaves everything else untouched '
         'and no exception escapes',
)
