"""
Sidecar contracts: lib_guesser/cracking_session.py (CrackingSession.run, _save_session, keypress).
Properties C09 (limit accounting of the session loop), C08 (save point), C12 (quit only on
request, at a pre-terminal boundary, after saving), C15 (what a save records).

Ghost state
  $out     the guess stream (see guesser_expand)
  $quit    the user explicitly asked to quit; reads of pcfg.should_exit are volatile (rely: the
           flag can become True only if $quit and stays True)
  $popped  log of the pre-terminals returned by PcfgQueue.next() during this run
  $disk    the options last written to the save file by ConfigParser.write
"""
import z3

from pyvc import theory as T
from pyvc import builtins as B
from pyvc.theory import TInt, TBool, TF, TStr, TList, TTuple, TRec, TOpt, TDict, TBag, TSeq, SpecFun
from pyvc.engine import (Contract, Case, LoopSpec, ObjShape, FunShape, ZV, PObj, PRec, PTuple, PNone, PList,
                         box, unbox, fresh, empty_list, ShapeMismatch, zbool, fresh_name)
from contracts.guesser_core import *      # noqa
from contracts.guesser_expand import *    # noqa
from contracts.guesser_restore import CONFIG, KMAX, KMIN
from contracts import guesser_core as gc, guesser_expand as ge

CS = 'lib_guesser.cracking_session'
SR = 'lib_guesser.status_report:StatusReport'
REPORT_OBJ = ObjShape(SR, {'num_parse_trees': TInt, 'num_guesses': TInt, 'probability_coverage': TF,
                           'past_guessing_time': TInt})
SESSION_OBJ = ObjShape(CS + ':CrackingSession', {
    'save_config': CONFIG, 'save_filename': TStr, 'report': REPORT_OBJ, 'pcfg': GRAMMAR_OBJ, 'mode': TStr,
    'pqueue': QUEUE_OBJ})
POPPED = TSeq(PTITEM)
PSEQ = POPPED.sort()
DISK = B.CONFIG_OPTS
K_OMEN = B.CONFIG_KEY.mk(T.str_lit('guessing_info'), T.str_lit('omen_guess_number'))
K_MODE = B.CONFIG_KEY.mk(T.str_lit('guessing_info'), T.str_lit('mode'))


def _flat_def(G, OG, popped, k):
    it = popped[k - 1]
    return z3.If(k <= 0, z3.Empty(SEQ), z3.Concat(FlatE(G, OG, popped, k - 1), ExpandL(G, OG, T.S_EMPTY, PTITEM.get(it, 'pt'))))


FlatE = SpecFun('FlatE', [GRAMMAR.sort(), OGS, PSEQ, T.IntS], SEQ, _flat_def,
                doc='guesses of the first k popped pre-terminals, in order')


def _flat_ext(G, OG, p, q, k):
    return [0 <= k, k <= z3.Length(p)], FlatE(G, OG, z3.Concat(p, q), k) == FlatE(G, OG, p, k)


from pyvc.lemma import Schema     # noqa: E402
flat_ext = Schema('C09.flat_ext', [('G', GRAMMAR.sort()), ('OG', OGS), ('p', PSEQ), ('q', PSEQ), ('k', T.IntS)],
                  _flat_ext, induction='k', doc='logging one more popped item does not change the guesses of the earlier ones')


# ---- StatusReport: bookkeeping that no property reads (trusted, frame only) --------------------
def session_keys_only(opts0, opts1):
    k = z3.Const('k!sk', B.CONFIG_KEY.sort())
    return z3.ForAll([k], z3.Implies(B.CONFIG_KEY.get(k, 0) != T.str_lit('session_info'),
                                     z3.And(B.CONFIG_OPTS.has(opts1, k) == B.CONFIG_OPTS.has(opts0, k),
                                            B.CONFIG_OPTS.get(opts1, k) == B.CONFIG_OPTS.get(opts0, k))),
                     patterns=[B.CONFIG_OPTS.has(opts1, k)])


Contract(SR + '.update_save_config', params={'self': REPORT_OBJ, 'save_config': CONFIG}, mutates=('save_config',),
         ensures=lambda c: [('only_session_info', session_keys_only(c.save_config.fields['opts'].term,
                                                                    c.after['save_config'].fields['opts'].term))],
         trusted=True, note='status bookkeeping: writes only options of section session_info')
Contract(SR + '.load', params={'self': REPORT_OBJ, 'save_config': CONFIG},
         self_modifies=('num_guesses', 'num_parse_trees', 'probability_coverage', 'past_guessing_time'),
         trusted=True, note='status bookkeeping')
Contract(SR + '.print_status', params={'self': REPORT_OBJ, 'pcfg': GRAMMAR_OBJ}, trusted=True, raises=('Exception',),
         note='writes to stderr only (frame checked by C09.stdout.frame); may raise when stderr is gone')
Contract(SR + '.print_help', params={'self': REPORT_OBJ}, trusted=True, raises=('Exception',), note='stderr only')


# ---- _save_session -------------------------------------------------------------------------------
def _ss_post_true(c):
    s0, s1 = c.self, c.after['self']
    opts1 = s1.fields['save_config'].fields['opts'].term
    q = s0.fields['pqueue']
    pq_mode = T.str_lit('priority_queue')
    return [
        ('position_saved', z3.Implies(s0.fields['mode'].term == pq_mode, z3.And(
            B.CONFIG_OPTS.has(opts1, KMAX),
            B.CONFIG_OPTS.get(opts1, KMAX) == B.s_offloat(q.fields['max_probability'].term),
            B.CONFIG_OPTS.get(opts1, KMIN) == B.s_offloat(q.fields['min_probability'].term)))),
        # C15.once: the cursor option is in the saved options exactly when this process stopped inside a Markov level
        # (an option restored from an earlier save is dropped once that level has been completed)
        ('omen_cursor_iff_stopped_inside_omen', B.CONFIG_OPTS.has(opts1, K_OMEN) == s0.fields['pcfg'].fields['omen_exit'].term),
        ('omen_cursor_value', z3.Implies(s0.fields['pcfg'].fields['omen_exit'].term,
                                         B.CONFIG_OPTS.get(opts1, K_OMEN) == T.sofint(s0.fields['pcfg'].fields['omen_guess_num'].term))),
    ]


_ss = Contract(
    CS + ':CrackingSession._save_session',
    params={'self': SESSION_OBJ, '$disk': DISK},
    cases=[
        Case('saved', lambda c: zbool(True),
             lambda c: None if not _is_const(c.result, True) else _ss_post_true(c) + [
                 ('written', c.after['$disk'].term == c.after['self'].fields['save_config'].fields['opts'].term)]),
        Case('io_error', lambda c: zbool(False),
             lambda c: None if not _is_const(c.result, False) else _ss_post_true(c) + [
                 ('disk_kept', c.after['$disk'].term == c.args['$disk'].term)]),
    ],
    self_modifies=('save_config',),
    note='C08.save: the file holds repr(max_probability) of the queue; C15: omen cursor written only after a stop inside OMEN',
)


def _is_const(v, b):
    if not isinstance(v, ZV) or v.shape != TBool:
        return False
    if v.pyval is not None:
        return v.pyval is b
    return not z3.is_true(v.term) and not z3.is_false(v.term)   # symbolic result of a call site fits both


# ---- keypress (the keyboard thread) ----------------------------------------------------------------
def _kp_ensures(c):
    f0 = c.pcfg.fields['should_exit'].term
    f1 = c.after['pcfg'].fields['should_exit'].term
    return [('sets_flag_only_on_q', z3.Implies(f1 != f0, z3.And(f1, ge_str_is(c.after['$last_input'].term, 'q')))),
            ('nothing_else_written', eng_same_but(c.after['pcfg'], c.pcfg, 'should_exit'))]


def ge_str_is(term, lit):
    conj = [T.slen(term) == len(lit)]
    for i, ch in enumerate(lit):
        conj.append(T.sch(term, i) == ord(ch))
    return z3.And(conj)


def eng_same_but(a, b, fld):
    from pyvc.engine import Engine
    e = Engine.__new__(Engine)
    parts = []
    for k in a.fields:
        if k == fld:
            continue
        r = Engine.same(e, a.fields[k], b.fields[k])
        if r is not True:
            parts.append(r)
    return z3.And(parts) if parts else z3.BoolVal(True)


def _kp_inv(L):
    return [('flag_untouched', L.pcfg.fields['should_exit'].term == L.entry.args['pcfg'].fields['should_exit'].term),
            ('nothing_else_written', eng_same_but(L.pcfg, L.entry.args['pcfg'], 'should_exit'))]


def _input_logged(eng, e, st, args, kw):
    """input(): as the builtin, and the line read is kept in the ghost $last_input."""
    v = B._input(eng, e, st, args, kw)
    if '$last_input' in st.env:
        st.env['$last_input'] = v
    return v


def install(eng):
    ge.install(eng)
    eng.builtins['input'] = _input_logged


_kp = Contract(
    CS + ':keypress',
    params={'report': REPORT_OBJ, 'pcfg': GRAMMAR_OBJ, '$last_input': TStr},
    mutates=('pcfg',),
    ensures=_kp_ensures,
    raises=(),
    loops={0: LoopSpec(fingerprint='while True', inv=_kp_inv, extra_writes=['$last_input'])},
    note="C12.keypress.frame/guarantee: the thread's only write outside stderr is pcfg.should_exit = True, and only after reading 'q'; "
         'every way it can end (return, EOFError/ValueError/OSError from input(), an error while printing) leaves everything else untouched '
         'and no exception escapes',
)


# ---- PcfgQueue.next at call sites of the session loop ------------------------------------------
from contracts import guesser_lemmas as gl     # noqa: E402


def _next_hook(eng, st, c2, e, exprs):
    """(1) log the popped item in $popped; (2) add the proved lemma C01.queue_step for this call."""
    if isinstance(c2.result, PNone):
        if '$exhausted' in st.env:
            st.env['$exhausted'] = zbool(True)
        return
    rt = box(c2.result, PTITEM)
    s0, s1 = c2.args['self'], c2.after['self']
    G = g_of(s0.fields['pcfg'])
    if '$popped' in st.env:
        old = st.env['$popped'].term
        st.env['$popped'] = ZV(POPPED, z3.Concat(old, z3.Unit(rt)))
        st.assume(flat_ext.inst(G, s0.fields['pcfg'].fields['omen_grammar'].term, old, z3.Unit(rt), z3.Length(old)))
    st.assume(gl.queue_step.inst(G, s0.fields['p_queue'].term, s0.fields['max_probability'].term, rt,
                                 s1.fields['p_queue'].term, s1.fields['max_probability'].term))


_nx = Contract.registry[PQ + ':PcfgQueue.next']
_nx.call_hook = _next_hook
_nx.assumed_ensures = lambda c: [] if isinstance(c.result, PNone) else [
    ('A_WFX_expandable', z3.And(wf_expand(g_of(c.self.fields['pcfg']), T.S_EMPTY, PTITEM.get(box(c.result, PTITEM), 'pt')),
                                PT.len(PTITEM.get(box(c.result, PTITEM), 'pt')) >= 1))]


# ---- restore_omen (C15), trusted here ---------------------------------------------------------------
def _ro_ensures(c):
    R = omn_rest(box(c.args['$omn'], OMN))
    out0, out1 = c.args['$out'].term, c.after['$out'].term
    res = c.result.term
    return [('some_output', z3.And(res >= 0, z3.Length(out1) == z3.Length(out0) + res)),
            ('exit_only_on_quit', z3.Implies(c.after['$exit_seen'].term, z3.Or(c.args['$exit_seen'].term, c.args['$quit'].term))),
            ('exit_seen_monotone', z3.Implies(c.args['$exit_seen'].term, c.after['$exit_seen'].term)),
            # C15.resume: exactly the remaining strings of the interrupted level, from the pickled cursor on, in order
            ('remainder_prefix', z3.And(res <= z3.Length(R), out1 == z3.Concat(out0, take(res, R)))),
            ('remainder_complete_unless_quit', z3.Implies(z3.Not(c.args['$quit'].term), res == z3.Length(R))),
            ('early_stop_is_a_saved_quit', z3.Implies(res < z3.Length(R), z3.And(c.after['$exit_seen'].term,
                                                                                 c.after['self'].fields['omen_exit'].term))),
            ('omen_exit_only_on_quit', z3.Implies(z3.Not(c.after['$exit_seen'].term),
                                                  c.after['self'].fields['omen_exit'].term == c.self.fields['omen_exit'].term))]


Contract(
    MOD + ':PcfgGrammar.restore_omen',
    params={'self': GRAMMAR_OBJ, 'omen_guess_num': TInt, 'pt_item': ANY, '$out': OUT, '$quit': TBool, '$exit_seen': TBool, '$omn': OMN},
    requires=lambda c: [('not_debug', z3.Not(c.self.fields['debug'].term))],
    result=TInt,
    ensures=_ro_ensures,
    self_modifies=('omen_guess_num', 'omen_exit'),
    note='C15.resume: rebuilds the generator from the pickled cursor and continues the interrupted Markov level',
)


def _restore_hook(eng, st, c2, e, exprs):
    """ghost bookkeeping at the call in run(): the resumed Markov remainder ends here ($mark)"""
    if '$resumed' in st.env:
        st.env['$resumed'] = zbool(True)
        st.env['$mark'] = c2.after['$out']


Contract.registry[MOD + ':PcfgGrammar.restore_omen'].call_hook = _restore_hook


# ---- CrackingSession.run -------------------------------------------------------------------------------
WITH_C15 = [False]       # set by props/C15: adds the resume clauses and ghosts ($omn, $mark, $resumed, $exhausted) to run


def _c15_run_ensures(c):
    opts0 = c.self.fields['save_config'].fields['opts'].term
    opts1 = c.after['self'].fields['save_config'].fields['opts'].term
    out0, out1 = c.args['$out'].term, c.after['$out'].term
    mark = c.after['$mark'].term
    R = omn_rest(box(c.args['$omn'], OMN))
    resume = z3.And(c.load_session.term, B.CONFIG_OPTS.has(opts0, K_OMEN))
    r = z3.Length(mark) - z3.Length(out0)
    oe0 = c.self.fields['pcfg'].fields['omen_exit'].term
    oe1 = c.after['self'].fields['pcfg'].fields['omen_exit'].term
    loop_start = z3.If(c.after['$resumed'].term, mark, out0)        # the stream when the main loop started
    limit_end = z3.And(lim_active(c.limit.term), z3.Length(out1) - z3.Length(loop_start) >= lim_val(c.limit.term))
    return [
        ('markov_level_resumed_first', z3.Implies(resume, z3.And(
            c.after['$resumed'].term, 0 <= r, r <= z3.Length(R), mark == z3.Concat(out0, take(r, R)),
            z3.Implies(z3.Not(c.args['$quit'].term), r == z3.Length(R)),
            z3.Extract(out1, z3.IntVal(0), z3.Length(mark)) == mark))),
        ('no_markov_resume_without_saved_cursor', z3.Implies(z3.Not(resume), z3.Not(c.after['$resumed'].term))),
        # C15/C12: a stop inside a Markov level is followed by a save that records the cursor option
        # (a run that ends because --limit is reached at that very guess is complete and, like every limit end, not saved)
        ('markov_quit_is_saved', z3.Implies(z3.And(oe1, z3.Not(oe0), z3.Not(c.after['$exhausted'].term), z3.Not(limit_end)),
                                            B.CONFIG_OPTS.has(opts1, K_OMEN))),
        ('markov_quit_is_saved_when_queue_runs_empty', z3.Implies(z3.And(oe1, z3.Not(oe0), c.after['$exhausted'].term, z3.Not(limit_end)),
                                                                  B.CONFIG_OPTS.has(opts1, K_OMEN))),
    ]


def _run_requires(c):
    s = c.self
    G = g_of(s.fields['pcfg'])
    opts = s.fields['save_config'].fields['opts'].term
    return [('wf_base', wf_base(G, s.fields['pcfg'].fields['base'].term)),
            ('wf_grammar', z3.And(gl.wf_grammar(G))),
            ('limit_ok', limit_ok(c.limit.term)),
            ('not_debug', z3.Not(s.fields['pcfg'].fields['debug'].term)),
            ('saved_position_present', z3.Implies(c.load_session.term, z3.And(
                B.CONFIG_OPTS.has(opts, KMIN), B.CONFIG_OPTS.has(opts, KMAX)))),
            ('empty_log', z3.Length(c.args['$popped'].term) == 0),
            ('queue_mode', s.fields['mode'].term == T.str_lit('priority_queue')),
            ('no_exit_yet', z3.Not(c.args['$exit_seen'].term))] + (
        [('c15_ghosts_fresh', z3.And(z3.Not(c.args['$resumed'].term), z3.Not(c.args['$exhausted'].term),
                                     z3.Not(s.fields['pcfg'].fields['omen_exit'].term)))] if WITH_C15[0] else [])


def _written_since(c):
    return z3.Length(c.after['$out'].term) - z3.Length(c.args['$out'].term)


def partial_at(G, OG, popped, out_start, out, m):
    """out = out_start ++ (guesses of the first m popped items) ++ a proper prefix of the guesses of
    the Markov item popped[m]  (an explicit quit between two Markov guesses)"""
    done = FlatE(G, OG, popped, m)
    E = ExpandL(G, OG, T.S_EMPTY, PTITEM.get(popped[m], 'pt'))
    r = z3.Length(out) - z3.Length(out_start) - z3.Length(done)
    return z3.And(0 <= m, m < z3.Length(popped), 1 <= r, r < z3.Length(E),
                  out == z3.Concat(out_start, done, take(r, E)),
                  category(PTITEM.get(popped[m], 'pt')) == ord('M'))


def _run_ensures(c):
    G = g_of(c.self.fields['pcfg'])
    OG = c.self.fields['pcfg'].fields['omen_grammar'].term
    popped = c.after['$popped'].term
    n = z3.Length(popped)
    out0, out1 = c.args['$out'].term, c.after['$out'].term
    L = lim_val(c.limit.term)
    act = lim_active(c.limit.term)
    fresh_run = z3.Not(c.load_session.term)
    quit_ = c.args['$quit'].term
    all_emitted = out1 == z3.Concat(out0, FlatE(G, OG, popped, n))
    all_but_last = z3.And(n >= 1, out1 == z3.Concat(out0, FlatE(G, OG, popped, n - 1)))
    last = popped[n - 1]
    cut = z3.And(n >= 1, out1 == z3.Concat(out0, FlatE(G, OG, popped, n - 1),
                                           take(L - z3.Length(FlatE(G, OG, popped, n - 1)),
                                                ExpandL(G, OG, T.S_EMPTY, PTITEM.get(last, 'pt')))))
    in_markov = z3.Or(partial_at(G, OG, popped, out0, out1, n - 1), partial_at(G, OG, popped, out0, out1, n - 2))
    disk = c.after['$disk'].term
    opts1 = c.after['self'].fields['save_config'].fields['opts'].term
    saved_last = z3.And(B.CONFIG_OPTS.has(opts1, KMAX),        # what the session holds and tried to write ...
                        B.CONFIG_OPTS.get(opts1, KMAX) == B.s_offloat(PTITEM.get(last, 'prob')))
    # (that these options are what the file holds when the write succeeds is _save_session's own postcondition 'written')
    return [
        # C09.limit.run.post (new session; a resumed session first continues a Markov level, C15)
        ('limit_never_exceeded', z3.Implies(z3.And(act, fresh_run), _written_since(c) <= L)),
        ('stream_shape', z3.Implies(fresh_run, z3.Or(all_emitted, all_but_last, z3.And(act, cut, _written_since(c) == L),
                                                     z3.And(quit_, in_markov)))),
        ('short_only_if_exhausted_or_quit', z3.Implies(z3.And(act, fresh_run, _written_since(c) < L, z3.Not(quit_)), all_emitted)),
        ('complete_unless_limit_or_quit', z3.Implies(z3.And(z3.Not(act), fresh_run, z3.Not(quit_)), all_emitted)),
        # C12/C08: an explicit quit stops after a pop, before its guesses, and the saved position is that item's probability
        ('quit_saves_unguessed_position', z3.Implies(
            z3.And(fresh_run, all_but_last, z3.Not(all_emitted), z3.Not(z3.And(act, cut, _written_since(c) == L))),
            z3.And(quit_, saved_last))),
    ] + (_c15_run_ensures(c) if WITH_C15[0] else [])


def _run_inv(L):
    s = L.self
    e = L.entry
    G = g_of(s.fields['pcfg'])
    OG = s.fields['pcfg'].fields['omen_grammar'].term
    q = s.fields['pqueue']
    H = q.fields['p_queue'].term
    popped = L.env['$popped'].term
    n = z3.Length(popped)
    out_start = L.pre['$out'].term
    lim0 = e.args['limit'].term
    sh = TOpt(TInt)
    done = FlatE(G, OG, popped, n)
    seen = L.env['$exit_seen'].term
    return [
        ('queue_rep', z3.And(in_bag_all_wf(G, H), gl.counts_nonneg(H), gl.queue_bound(H, q.fields['max_probability'].term))),
        ('stream', z3.If(seen,
                         z3.And(e.args['$quit'].term, z3.Or(L.env['$out'].term == z3.Concat(out_start, done),
                                                            partial_at(G, OG, popped, out_start, L.env['$out'].term, n - 1))),
                         L.env['$out'].term == z3.Concat(out_start, done))),
        ('limit_tracks', z3.Implies(z3.Not(seen), z3.If(
            lim_active(lim0),
            z3.And(z3.Not(sh.is_none(L.limit.term)), sh.val(L.limit.term) == lim_val(lim0) - z3.Length(done),
                   sh.val(L.limit.term) >= 1),
            L.limit.term == lim0))),
        ('limit_bound', z3.Implies(lim_active(lim0), z3.Length(L.env['$out'].term) - z3.Length(out_start) < lim_val(lim0))),
        ('grammar_kept', z3.And(G == g_of(e.args['self'].fields['pcfg']),
                                OG == e.args['self'].fields['pcfg'].fields['omen_grammar'].term,
                                z3.Not(s.fields['pcfg'].fields['debug'].term))),
        ('mode_kept', s.fields['mode'].term == e.args['self'].fields['mode'].term),
        ('disk_kept', L.env['$disk'].term == L.pre['$disk'].term),
    ] + ([
        ('c15_ghosts', z3.And(L.env['$resumed'].term == L.pre['$resumed'].term, L.env['$mark'].term == L.pre['$mark'].term,
                              z3.Implies(L.pre['$resumed'].term, L.pre['$mark'].term == out_start),
                              z3.Not(L.env['$exhausted'].term))),
        ('c15_omen_exit', z3.Implies(z3.Not(seen), s.fields['pcfg'].fields['omen_exit'].term ==
                                     L.pre['self'].fields['pcfg'].fields['omen_exit'].term)),
    ] if WITH_C15[0] else [])


_run = Contract(
    CS + ':CrackingSession.run',
    params={'self': SESSION_OBJ, 'load_session': TBool, 'limit': TOpt(TInt),
            '$out': OUT, '$quit': TBool, '$exit_seen': TBool, '$popped': POPPED, '$disk': DISK, '$saved': PTITEMS},
    requires=_run_requires,
    ensures=_run_ensures,
    self_modifies=('pqueue', 'report', 'pcfg', 'save_config'),
    locals={'limit': TOpt(TInt)},
    loops={0: LoopSpec(fingerprint='while True', inv=_run_inv, extra_writes=['$exit_seen', '$popped'])},
    note='C09.limit.run.post, C08.save.point, C12.run.quit_only_on_request / boundary',
)
_run.volatile = {'should_exit': read_should_exit}
_run.defaults = {'load_session': lambda: zbool(False), 'limit': lambda: PNone()}


def enable_c15():
    """C15 only: run() also carries the ghosts of the Markov resume ($omn: the .omn pickle, $mark: the stream when the resumed
    remainder ended, $resumed, $exhausted: the queue returned None) and the clauses over them."""
    WITH_C15[0] = True
    _run.params.update({'$omn': OMN, '$mark': OUT, '$resumed': TBool, '$exhausted': TBool})
    _run.loops[0].extra_writes = list(_run.loops[0].extra_writes) + ['$exhausted', '$omn']


# ---- pcfg_guesser.parse_command_line (C09.limit.validated) -------------------------------------------
PROGRAM_INFO = TRec({'name': TStr, 'version': TStr, 'author': TStr, 'contact': TStr, 'rule_name': TStr, 'session_name': TStr,
                     'load_session': TBool, 'limit': TOpt(TInt), 'cracking_mode': TStr, 'supported_modes': TList(TStr),
                     'skip_brute': TBool, 'skip_case': TBool, 'debug': TBool})
ARGS = ObjShape('argparse:Namespace', {'rule': TStr, 'session': TStr, 'load': TBool, 'limit': TOpt(TInt), 'skip_brute': TBool,
                                       'skip_case': TBool, 'mode': TStr, 'debug': TBool})


def _pcl_ensures(c):
    lim = box(c.after['program_info'].fields['limit'], TOpt(TInt))
    sh = TOpt(TInt)
    return [('accepted_limit_is_positive_or_absent', z3.Implies(c.result.term, z3.Or(sh.is_none(lim), sh.val(lim) >= 0))),
            ('rejects_negative', z3.Implies(z3.And(z3.Not(sh.is_none(lim)), sh.val(lim) < 0), z3.Not(c.result.term)))]


Contract(
    'pcfg_guesser:parse_command_line',
    params={'program_info': PROGRAM_INFO},
    mutates=('program_info',),
    result=TBool,
    ensures=_pcl_ensures,
    locals={'args': ARGS},
    note='C09.limit.validated: a negative --limit is refused (0 is accepted and means "no limit"; the property quantifies over N >= 1)',
)
