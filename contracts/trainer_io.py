"""
Sidecar contracts for the trainer's input filter and output writers (C06, C07, C19):
check_valid, calculate_probabilities, calculate_and_save_counter, save_indexed_counters.
"""
import json
import os
import subprocess

import z3

from pyvc import theory as T
from pyvc import builtins as B
from pyvc.theory import TInt, TBool, TF, TStr, TList, TTuple, TRec, TOpt, TDict, SpecFun
from pyvc.engine import (Contract, Case, LoopSpec, ObjShape, ZV, PObj, PRec, PTuple, PNone, PList,
                         box, unbox, fresh, empty_list, ShapeMismatch, zbool, zint, zstr)

TFI = 'lib_trainer.trainer_file_input'
CP = 'lib_trainer.calculate_probabilities'
SP = 'lib_trainer.save_pcfg_data'
fv = T.fval
LSTR = TList(TStr)


# ------------------------------------------------------------------ character table (finite, exhaustive, recomputed every run)
_LB = None


def line_break_chars():
    """code points at which str.splitlines() / the codecs line readers break a line, computed by enumerating all code
    points under the interpreter that runs the repository (/venv/bin/python)."""
    global _LB
    if _LB is None:
        code = ("import json\n"
                "out=[]\n"
                "for cp in range(0x110000):\n"
                "    if 0xD800<=cp<=0xDFFF: continue\n"
                "    if len(('a'+chr(cp)+'b').splitlines())!=1: out.append(cp)\n"
                "print(json.dumps(out))")
        p = subprocess.run(['/venv/bin/python', '-c', code], capture_output=True, text=True, check=True)
        _LB = json.loads(p.stdout)
    return _LB


def forbidden_codes():
    return sorted(set(line_break_chars()) | {9} | set(range(0, 32)))


def valid_password(s):
    """Valid(s): non-empty, no TAB, no C0 control, no character at which the line-oriented format breaks a line"""
    j = z3.Int('j!vp')
    bad = forbidden_codes()
    c = T.sch(s, j)
    return z3.And(T.slen(s) > 0,
                  z3.ForAll([j], z3.Implies(z3.And(0 <= j, j < T.slen(s)), z3.And([c != b for b in bad])), patterns=[T.sch(s, j)]))


Contract(
    TFI + ':check_valid',
    params={'input_password': TStr},
    result=TBool,
    ensures=lambda c: [('accepted_passwords_stay_on_one_line', z3.Implies(c.result.term, valid_password(c.input_password.term)))],
    loops={0: LoopSpec(fingerprint='for invalid_hex in range', inv=lambda L: [], unroll=True)},
    note='C07.check_valid.post: an accepted password is non-empty and contains no TAB, no C0 control and none of the characters at which '
         'splitlines()/codecs break a line (the set is recomputed exhaustively every run)',
)


# ------------------------------------------------------------------ counters as abstract values
COUNTERV = T._Prim('counter', z3.DeclareSort('CounterV'))
PAIR = TTuple([TStr, TF])
PAIRS = TList(PAIR)
NUMS = TList(TF)
cv_mc = z3.Function('cv_most_common', COUNTERV.sort(), PAIRS.sort())    # Counter.most_common(): items by count, descending (stable)
cv_values = z3.Function('cv_values', COUNTERV.sort(), NUMS.sort())      # Counter.values()
sum_list = z3.Function('sum_list', NUMS.sort(), T.F)                    # sum(list of numbers), left to right from 0


def mc_sorted(c):
    """assumed contract of Counter.most_common(): counts are non-increasing along the list"""
    i, j = z3.Ints('i!mc j!mc')
    mc = cv_mc(c)
    return z3.And(PAIRS.len(mc) >= 0,
                  z3.ForAll([i, j], z3.Implies(z3.And(0 <= i, i <= j, j < PAIRS.len(mc)),
                                               fv(PAIR.get(z3.Select(PAIRS.arr(mc), j), 1)) <= fv(PAIR.get(z3.Select(PAIRS.arr(mc), i), 1))),
                            patterns=[z3.MultiPattern(z3.Select(PAIRS.arr(mc), i), z3.Select(PAIRS.arr(mc), j))]))


def _values(eng, e, st, val, valexpr, args, kw):
    if isinstance(val, ZV) and val.shape == COUNTERV:
        return ZV(NUMS, cv_values(val.term))
    raise Exception('values() on %r' % (val,))


def _most_common(eng, e, st, val, valexpr, args, kw):
    if isinstance(val, ZV) and val.shape == COUNTERV and not args:
        B._use(eng, 'Counter.most_common() lists every item once, counts non-increasing')
        st.assume(mc_sorted(val.term))
        return ZV(PAIRS, cv_mc(val.term))
    if isinstance(val, ZV) and isinstance(val.shape, T._Prim):
        return fresh(TList(TInt), 'most_common')      # an opaque counter: some list (only its emptiness is looked at)
    raise Exception('most_common on %r' % (val,))


def _sum(eng, e, st, args, kw):
    v = args[0]
    if isinstance(v, ZV) and v.shape == NUMS:
        return ZV(TF, sum_list(v.term))
    raise Exception('sum of %r' % (v,))


# ------------------------------------------------------------------ output files (ghost file system: path -> list of written chunks)
FS = TDict(TStr, LSTR)
OUT_CLS = 'codecs:StreamWriter'


def _codecs_open(eng, e, st, args, kw):
    """codecs.open(path, 'w', encoding=...): truncates the file; IOError/LookupError are possible"""
    k = st.choose(2)
    if k == 1:
        from pyvc.engine import RaisePath
        raise RaisePath(st, 'IOError')
    name = args[0]
    mode = args[1] if len(args) > 1 else kw.get('mode')
    if isinstance(mode, ZV) and mode.pyval == 'w' and '$fs' in st.env:
        st.env['$fs'] = ZV(FS, FS.put(st.env['$fs'].term, box(name, TStr), empty_list(LSTR)))
        return PObj(OUT_CLS, {'name': name})
    return B._open(eng, e, st, args, kw)


def _out_write(eng, e, st, args, kw):
    f, s = args[0], args[1]
    name = box(f.fields['name'], TStr)
    fs = st.env['$fs'].term
    cur = FS.get(fs, name)
    new = LSTR.mk(LSTR.len(cur) + 1, z3.Store(LSTR.arr(cur), LSTR.len(cur), box(s, TStr)))
    st.env['$fs'] = ZV(FS, FS.put(fs, name, new))
    return PNone()


def install(eng):
    eng.builtins['method.values'] = _values
    eng.builtins['method.most_common'] = _most_common
    eng.builtins['sum'] = _sum
    eng.builtins['codecs.open'] = _codecs_open
    eng.builtins[OUT_CLS + '.write'] = _out_write
    eng.builtin_writes.update({'datafile.write': ['$fs'], 'codecs.open': ['$fs']})
    eng.inline_ok.add(CP + ':apply_probability_smoothing')


# ------------------------------------------------------------------ calculate_probabilities
def total_of(c):
    return sum_list(cv_values(c))


def probs_ok(res, c, upto):
    """res[k] == (key_k, count_k / total) for k < upto, in most_common order"""
    k = z3.Int('k!pr')
    mc = cv_mc(c)
    e = z3.Select(PAIRS.arr(mc), k)
    return z3.ForAll([k], z3.Implies(z3.And(0 <= k, k < upto),
                                     z3.Select(PAIRS.arr(res), k) == PAIR.mk(PAIR.get(e, 0), T.fdiv(PAIR.get(e, 1), total_of(c)))),
                     patterns=[z3.Select(PAIRS.arr(res), k)])


def _cp_inv(L):
    c = L.counter.term
    res = L.prob_list.term
    mc = cv_mc(c)
    k = z3.Int('k!ci')
    return [('len_kept', PAIRS.len(res) == PAIRS.len(mc)),
            ('done_part', probs_ok(res, c, L.i)),
            ('pending_part', z3.ForAll([k], z3.Implies(z3.And(L.i <= k, k < PAIRS.len(mc)),
                                                       z3.Select(PAIRS.arr(res), k) == z3.Select(PAIRS.arr(mc), k)),
                                       patterns=[z3.Select(PAIRS.arr(res), k)])),
            ('total', L.total_count.term == total_of(c))]


Contract(
    CP + ':calculate_probabilities',
    params={'counter': COUNTERV},
    requires=lambda c: [('counts_positive', z3.Implies(PAIRS.len(cv_mc(c.counter.term)) > 0, fv(total_of(c.counter.term)) > 0))],
    result=PAIRS,
    ensures=lambda c: [('one_entry_per_item_in_most_common_order', z3.And(PAIRS.len(c.result.term) == PAIRS.len(cv_mc(c.counter.term)),
                                                                          probs_ok(c.result.term, c.counter.term, PAIRS.len(c.result.term))))],
    loops={0: LoopSpec(fingerprint='enumerate(prob_list)', inv=_cp_inv)},
    note='C06.calc.post: every item once, in Counter.most_common() order, probability = count / total',
)


# ------------------------------------------------------------------ calculate_and_save_counter
TAB = T.schar(z3.IntVal(9))
LF = T.schar(z3.IntVal(10))


def line_of(pair):
    return T.scat(T.scat(T.scat(PAIR.get(pair, 0), TAB), B.s_offloat(PAIR.get(pair, 1))), LF)


def _lines_def(c, k):
    mc = cv_mc(c)
    e = z3.Select(PAIRS.arr(mc), k - 1)
    pr = PAIR.mk(PAIR.get(e, 0), T.fdiv(PAIR.get(e, 1), total_of(c)))
    prev = LinesOf(c, k - 1)
    return z3.If(k <= 0, empty_list(LSTR), LSTR.mk(LSTR.len(prev) + 1, z3.Store(LSTR.arr(prev), LSTR.len(prev), line_of(pr))))


LinesOf = SpecFun('LinesOf', [COUNTERV.sort(), T.IntS], LSTR.sort(), _lines_def,
                  doc="the first k lines 'value TAB repr(count/total) LF' of a saved counter, most probable first")


def file_of(c):
    return LinesOf(c, PAIRS.len(cv_mc(c)))


def _csc_post_ok(c):
    if not (isinstance(c.result, ZV) and c.result.shape == TBool) or c.result.pyval is False:
        return None
    fs0, fs1 = c.args['$fs'].term, c.after['$fs'].term
    return [('file_is_the_relative_frequency_list', fs1 == FS.put(fs0, c.filename.term, file_of(c.item_counter.term)))]


def _csc_post_fail(c):
    if not (isinstance(c.result, ZV) and c.result.shape == TBool) or c.result.pyval is True:
        return None
    return [('reported', z3.BoolVal(True))]


Contract(
    SP + ':calculate_and_save_counter',
    params={'filename': TStr, 'item_counter': COUNTERV, 'encoding': TStr, '$fs': FS},
    requires=lambda c: [('counts_positive', z3.Implies(PAIRS.len(cv_mc(c.item_counter.term)) > 0, fv(total_of(c.item_counter.term)) > 0))],
    cases=[Case('saved', lambda c: zbool(True), _csc_post_ok), Case('failed', lambda c: zbool(False), _csc_post_fail)],
    loops={0: LoopSpec(fingerprint='for item in prob_list',
                       inv=lambda L: [('written_prefix', L.env['$fs'].term == FS.put(L.pre['$fs'].term, L.filename.term,
                                                                                    LinesOf(L.item_counter.term, L.i)))])},
    note="C06.save.complete / C07 writer: the file is truncated and receives one line str(value)+TAB+repr(probability)+LF per item, in order",
)


# ------------------------------------------------------------------ save_indexed_counters
CM_ITEM = TTuple([TStr, COUNTERV])          # (str(key), counter): dict keys are represented by their str() form
CM_ITEMS = TList(CM_ITEM)
COUNTERMAP = T._Prim('countermap', z3.DeclareSort('CounterMap'))
cm_items = z3.Function('cm_items', COUNTERMAP.sort(), CM_ITEMS.sort())     # dict.items() in insertion order
WALK = TList(TTuple([TStr, LSTR, LSTR]))
os_walk = z3.Function('os_walk', TDict(TStr, LSTR).sort(), T.Str, WALK.sort())
TXT = T.str_lit('.txt')


def _items(eng, e, st, val, valexpr, args, kw):
    if isinstance(val, ZV) and val.shape == COUNTERMAP:
        r = ZV(CM_ITEMS, cm_items(val.term))
        st.assume(CM_ITEMS.len(r.term) >= 0)
        return r
    raise Exception('items() on %r' % (val,))


def _os_walk(eng, e, st, args, kw):
    B._use(eng, 'os.walk(folder) lists (root, dirs, files) triples; IOError-like exceptions are possible')
    k = st.choose(2)
    if k == 1:
        from pyvc.engine import RaisePath
        raise RaisePath(st, 'OSError')
    r = ZV(WALK, os_walk(st.env['$fs'].term, box(args[0], TStr)))
    st.assume(WALK.len(r.term) >= 0)
    return r


fs_remove = z3.Function('fs_remove', FS.sort(), T.Str, FS.sort())


def _os_unlink(eng, e, st, args, kw):
    p = box(args[0], TStr)
    fs = st.env['$fs'].term
    st.env['$fs'] = ZV(FS, fs_remove(fs, p))
    return PNone()


def fs_remove_axiom():
    fs = z3.Const('fs!rm', FS.sort())
    p, q = z3.Consts('p!rm q!rm', T.Str)
    r = fs_remove(fs, p)
    return z3.ForAll([fs, p, q], z3.And(z3.Implies(q != p, z3.And(FS.has(r, q) == FS.has(fs, q), FS.get(r, q) == FS.get(fs, q))),
                                        z3.Not(FS.has(r, p))), patterns=[z3.MultiPattern(fs_remove(fs, p), FS.has(r, q))])


_install_prev = install


def install(eng):       # noqa: F811
    _install_prev(eng)
    eng.builtins['method.items'] = _items
    eng.builtins['os.walk'] = _os_walk
    eng.builtins['os.unlink'] = _os_unlink
    eng.builtin_writes.update({'os.unlink': ['$fs']})


def path_of_key(folder, key):
    return B.pjoin(folder, T.scat(key, TXT))


def _writeall_def(fs, folder, items, k):
    e = z3.Select(CM_ITEMS.arr(items), k - 1)
    prev = WriteAll(fs, folder, items, k - 1)
    return z3.If(k <= 0, fs, FS.put(prev, path_of_key(folder, CM_ITEM.get(e, 0)), file_of(CM_ITEM.get(e, 1))))


WriteAll = SpecFun('WriteAll', [FS.sort(), T.Str, CM_ITEMS.sort(), T.IntS], FS.sort(), _writeall_def,
                   doc='the file system after the first k counters of a folder have been saved, one file per key')


def only_loses_files(fs0, fs1):
    p = z3.Const('p!ol', T.Str)
    return z3.ForAll([p], z3.Implies(FS.has(fs1, p), z3.And(FS.has(fs0, p), FS.get(fs1, p) == FS.get(fs0, p))), patterns=[FS.has(fs1, p)])


def all_positive(items):
    k = z3.Int('k!ap')
    c = CM_ITEM.get(z3.Select(CM_ITEMS.arr(items), k), 1)
    return z3.ForAll([k], z3.Implies(z3.And(0 <= k, k < CM_ITEMS.len(items)),
                                     z3.Implies(PAIRS.len(cv_mc(c)) > 0, fv(total_of(c)) > 0)), patterns=[z3.Select(CM_ITEMS.arr(items), k)])


FsAfterWipe = z3.Function('FsAfterWipe', FS.sort(), T.Str, FS.sort())   # the file system once the old files of the folder are unlinked


def _sic_post_ok(c):
    if not (isinstance(c.result, ZV) and c.result.shape == TBool) or c.result.pyval is False:
        return None
    items = cm_items(c.counter_list.term)
    fs1 = c.after['$fs'].term
    wiped = c.after['$wiped'].term
    return [('old_files_only_removed', only_loses_files(c.args['$fs'].term, wiped)),
            ('one_file_per_key', fs1 == WriteAll(wiped, c.folder.term, items, CM_ITEMS.len(items)))]


def _sic_post_fail(c):
    if not (isinstance(c.result, ZV) and c.result.shape == TBool) or c.result.pyval is True:
        return None
    return [('reported', z3.BoolVal(True))]


def _ghost_wiped(eng, st):
    st.env['$wiped'] = st.env['$fs']


_sic = Contract(
    SP + ':save_indexed_counters',
    params={'folder': TStr, 'counter_list': COUNTERMAP, 'encoding': TStr, '$fs': FS, '$wiped': FS},
    requires=lambda c: [('counts_positive', all_positive(cm_items(c.counter_list.term)))],
    cases=[Case('saved', lambda c: zbool(True), _sic_post_ok), Case('failed', lambda c: zbool(False), _sic_post_fail)],
    definitions=None,
    loops={0: LoopSpec(fingerprint='for root, dirs, files in os.walk(folder)', inv=lambda L: [('only_loses', only_loses_files(L.entry.args['$fs'].term, L.env['$fs'].term))]),
           1: LoopSpec(fingerprint='for filename in files', inv=lambda L: [('only_loses', only_loses_files(L.entry.args['$fs'].term, L.env['$fs'].term))]),
           2: LoopSpec(fingerprint='for index, item in counter_list.items()',
                       inv=lambda L: [('written_prefix', L.env['$fs'].term == WriteAll(L.pre['$fs'].term, L.folder.term, cm_items(L.counter_list.term), L.i)),
                                      ('wiped_is_loop_start', L.env['$wiped'].term == L.pre['$fs'].term),
                                      ('only_loses', only_loses_files(L.entry.args['$fs'].term, L.env['$wiped'].term))],
                       extra_writes=['$fs'], ghost_entry=_ghost_wiped)},
    note='C06: the old files of the folder are unlinked, then exactly one file str(key)+".txt" per key is written (C07.filelists)',
)
_sic.definitions = lambda c: [fs_remove_axiom()]


# ------------------------------------------------------------------ TrainerFileInput.read_password (C19)
TFIC = TFI + ':TrainerFileInput'
FILE_OBJ = ObjShape(B.FILE_CLS, {'name': TStr, 'mode': TStr, 'lines': LSTR, 'pos': TInt})
FI_FULL = ObjShape(TFIC, {'encoding': TStr, 'filename': TStr, 'file': FILE_OBJ, 'num_encoding_errors': TInt, 'num_passwords': TInt,
                          'duplicates_found': TBool, 'duplicate_detection': TDict(TStr, TInt), 'num_to_look_for_duplicates': TInt,
                          'prefixcount': TBool})


def _encode_may_fail(eng, e, st, val, valexpr, args, kw):
    """str.encode(enc) in the trainer: UnicodeEncodeError is possible (surrogate escapes) and handled by the caller"""
    k = st.choose(2)
    if k == 1:
        from pyvc.engine import RaisePath
        raise RaisePath(st, 'UnicodeEncodeError')
    return PNone()


_install_prev2 = install


def install(eng, encode_may_fail=True):       # noqa: F811
    _install_prev2(eng)
    if encode_may_fail:
        eng.builtins['method.encode'] = _encode_may_fail


def yielded_ok(y0, y1, n0, n1):
    k = z3.Int('k!yo')
    return z3.And(LSTR.len(y1) - LSTR.len(y0) == n1 - n0, LSTR.len(y1) >= LSTR.len(y0),
                  z3.ForAll([k], z3.Implies(z3.And(0 <= k, k < LSTR.len(y0)), z3.Select(LSTR.arr(y1), k) == z3.Select(LSTR.arr(y0), k)),
                            patterns=[z3.Select(LSTR.arr(y1), k)]),
                  z3.ForAll([k], z3.Implies(z3.And(LSTR.len(y0) <= k, k < LSTR.len(y1)), valid_password(z3.Select(LSTR.arr(y1), k))),
                            patterns=[z3.Select(LSTR.arr(y1), k)]))


def counts_nonneg(lines):
    """domain of C19: with --prefixcount a numeric count prefix is >= 0 (a negative count is not a count)"""
    k = z3.Int('k!cn')
    line = z3.Select(LSTR.arr(lines), k)
    strip_crlf = z3.Function('s_rstrip_0a0d', T.Str, T.Str)      # rstrip('\r\n'): the character set {LF, CR}, key sorted by code point
    lstrip = z3.Function('s_lstrip', T.Str, T.Str)
    split_sp = z3.Function('s_split_20', T.Str, LSTR.sort())
    tok = z3.Select(LSTR.arr(split_sp(lstrip(strip_crlf(line)))), 0)
    return z3.ForAll([k], z3.Implies(z3.And(0 <= k, k < LSTR.len(lines), B.s_isint(tok)), B.s_toint(tok) >= 0),
                     patterns=[z3.Select(LSTR.arr(lines), k)])


def _rp_ensures(c):
    s0, s1 = c.self, c.after['self']
    return [('yields_match_the_count_and_are_valid', yielded_ok(c.args['$yielded'].term, c.after['$yielded'].term,
                                                                s0.fields['num_passwords'].term, s1.fields['num_passwords'].term))]


def _rp_inv_outer(L):
    e = L.entry
    return [('so_far', yielded_ok(e.args['$yielded'].term, L.env['$yielded'].term, e.args['self'].fields['num_passwords'].term,
                                  L.self.fields['num_passwords'].term)),
            ('file_cursor', z3.And(L.self.fields['file'].fields['pos'].term >= 0, LSTR.len(L.self.fields['file'].fields['lines'].term) >= 0)),
            ('prefixcount_kept', L.self.fields['prefixcount'].term == e.args['self'].fields['prefixcount'].term)]


def _rp_inv_inner(L):
    e = L.entry
    n = L.n.term
    y = L.env['$yielded'].term
    pre_y = L.pre['$yielded'].term
    k = z3.Int('k!ri')
    return [('emitted_i_copies', z3.And(LSTR.len(y) == LSTR.len(pre_y) + L.i,
                                        z3.ForAll([k], z3.Implies(z3.And(0 <= k, k < LSTR.len(pre_y)),
                                                                  z3.Select(LSTR.arr(y), k) == z3.Select(LSTR.arr(pre_y), k)),
                                                  patterns=[z3.Select(LSTR.arr(y), k)]),
                                        z3.ForAll([k], z3.Implies(z3.And(LSTR.len(pre_y) <= k, k < LSTR.len(y)),
                                                                  z3.Select(LSTR.arr(y), k) == L.clean_password.term),
                                                  patterns=[z3.Select(LSTR.arr(y), k)])))]


Contract(
    TFIC + '.read_password#generator',
    params={'self': FI_FULL, '$yielded': LSTR},
    requires=lambda c: [('cursor', c.self.fields['file'].fields['pos'].term >= 0), ('counted', c.self.fields['num_passwords'].term >= 0),
                        ('count_prefixes_are_not_negative', counts_nonneg(c.self.fields['file'].fields['lines'].term))],
    ensures=_rp_ensures,
    self_modifies=('file', 'num_encoding_errors', 'num_passwords', 'duplicates_found', 'duplicate_detection'),
    raises=(),
    loops={0: LoopSpec(fingerprint='while True', inv=_rp_inv_outer),
           1: LoopSpec(fingerprint='for x in range(0, n)', inv=_rp_inv_inner)},
    note='C19: whatever the lines are (blank, tabs, control characters, undecodable bytes, bad $HEX[], bad count prefix) no exception escapes, '
         'every yielded password passed check_valid, and num_passwords advances by exactly the number of passwords yielded (N of pass 1)',
)
