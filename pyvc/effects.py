"""
pyvc.effects -- frame obligations decided on the AST: which functions can write to stdout.

A function satisfies `stdout.frame` when its body contains no statement that writes to
standard output: a print() without file=sys.stderr, sys.stdout.write/writelines,
traceback.print_exc/print_exception with file=sys.stdout, or os.write(1, ...).  The check is
over all paths (it is syntactic), which is what the property needs: whatever reaches
stdout is consumed as a candidate password.  The single allowed site is named explicitly.
"""
import ast
import os


def _is_stderr(node):
    return isinstance(node, ast.Attribute) and node.attr == 'stderr' and isinstance(node.value, ast.Name) and node.value.id == 'sys'


def stdout_sites(fn_node):
    """list of (lineno, description) of statements in fn_node (not nested defs) that write to stdout."""
    out = []

    def visit(n, top):
        for ch in ast.iter_child_nodes(n):
            if isinstance(ch, (ast.FunctionDef, ast.AsyncFunctionDef, ast.ClassDef, ast.Lambda)) and not top:
                continue
            if isinstance(ch, (ast.FunctionDef, ast.AsyncFunctionDef, ast.ClassDef)):
                continue
            if isinstance(ch, ast.Call):
                f = ch.func
                if isinstance(f, ast.Name) and f.id == 'print':
                    fk = [k for k in ch.keywords if k.arg == 'file']
                    if not fk:
                        out.append((ch.lineno, 'print() without file=sys.stderr'))
                    elif not _is_stderr(fk[0].value):
                        out.append((ch.lineno, 'print(file=%s)' % ast.unparse(fk[0].value)))
                elif isinstance(f, ast.Attribute):
                    src = ast.unparse(f)
                    if src in ('sys.stdout.write', 'sys.stdout.writelines', 'sys.__stdout__.write'):
                        out.append((ch.lineno, src))
                    elif src in ('traceback.print_exc', 'traceback.print_exception', 'traceback.print_stack'):
                        fk = [k for k in ch.keywords if k.arg == 'file']
                        if fk and not _is_stderr(fk[0].value):
                            out.append((ch.lineno, '%s(file=%s)' % (src, ast.unparse(fk[0].value))))
                    elif src == 'os.write' and ch.args and isinstance(ch.args[0], ast.Constant) and ch.args[0].value == 1:
                        out.append((ch.lineno, 'os.write(1, ...)'))
            visit(ch, False)

    visit(fn_node, True)
    return out


def functions_of(path):
    with open(path, encoding='utf-8') as fh:
        src = fh.read()
    tree = ast.parse(src)
    res = []

    def walk(node, prefix):
        for ch in node.body:
            if isinstance(ch, (ast.FunctionDef, ast.AsyncFunctionDef)):
                res.append((prefix + ch.name, ch))
                walk_nested(ch, prefix + ch.name + '.')
            elif isinstance(ch, ast.ClassDef):
                walk(ch, prefix + ch.name + '.')

    def walk_nested(fn, prefix):
        for ch in ast.walk(fn):
            if ch is not fn and isinstance(ch, (ast.FunctionDef, ast.AsyncFunctionDef)):
                res.append((prefix + ch.name, ch))

    walk(tree, '')
    # module-level statements count as the pseudo-function <module>
    mod = ast.Module(body=[n for n in tree.body if not isinstance(n, (ast.FunctionDef, ast.ClassDef))], type_ignores=[])
    res.append(('<module>', mod))
    return res


def stdout_frame(repo, files, allowed):
    """one record per function: ok iff it has no stdout-writing statement outside `allowed`
    (allowed: set of 'relpath:qualname')."""
    records = []
    for rel in files:
        path = os.path.join(repo, rel)
        if not os.path.exists(path):
            records.append({'name': 'stdout.frame.%s.<file>' % rel, 'ok': False, 'undecided': True, 'detail': 'file is missing', 'site': rel})
            continue
        for qn, node in functions_of(path):
            sites = stdout_sites(node)
            key = '%s:%s' % (rel, qn)
            if key in allowed:
                # the single output point: exactly the allowed statement(s)
                bad = [s for s in sites if s[1] != allowed[key]]
                n_ok = len([s for s in sites if s[1] == allowed[key]])
                ok = not bad and n_ok == 1
                detail = '' if ok else 'output point changed: %r' % (sites,)
            else:
                ok = not sites
                detail = '' if ok else '; '.join('line %d: %s' % s for s in sites)
            records.append({'name': 'stdout.frame.%s.%s' % (rel.replace('/', '.').replace('.py', ''), qn), 'ok': ok,
                            'detail': detail, 'fn': key, 'site': key,
                            'witness': None if ok else {'file': rel, 'function': qn, 'statements': sites}})
    return records


def open_encoding_frame(repo, files, allow_substrings, allow_functions=()):
    """one record per function: every text-mode open()/codecs.open() names an encoding explicitly, unless the path expression
    mentions one of allow_substrings (ASCII-only files such as config.ini or grammar.txt).  A reader that falls back to the
    locale's default encoding cannot be related to the encoding the ruleset was written with."""
    records = []
    for rel in files:
        path = os.path.join(repo, rel)
        if not os.path.exists(path):
            records.append({'name': 'encoding.match.%s.<file>' % rel, 'ok': False, 'undecided': True, 'detail': 'file is missing', 'site': rel})
            continue
        for qn, node in functions_of(path):
            bad = []
            for ch in ast.walk(node):
                if isinstance(ch, ast.Call) and ast.unparse(ch.func) in ('open', 'codecs.open') and ch.args:
                    mode = ast.unparse(ch.args[1]) if len(ch.args) > 1 else "'r'"
                    for k in ch.keywords:
                        if k.arg == 'mode':
                            mode = ast.unparse(k.value)
                    if 'b' in mode:
                        continue
                    has_enc = any(k.arg == 'encoding' for k in ch.keywords) or len(ch.args) > 2
                    src = ast.unparse(ch.args[0])
                    ctx = ast.unparse(node) if len(ast.unparse(node)) < 20000 else src
                    if not has_enc and not any(a in src for a in allow_substrings) and not _path_is_allowed(node, ch, allow_substrings):
                        bad.append((ch.lineno, 'open(%s, %s) without an encoding' % (src, mode)))
            key = '%s:%s' % (rel, qn)
            if key in allow_functions:
                bad = []
            records.append({'name': 'encoding.match.%s.%s' % (rel.replace('/', '.').replace('.py', ''), qn), 'ok': not bad,
                            'detail': '; '.join('line %d: %s' % b for b in bad), 'fn': key, 'site': key,
                            'witness': None if not bad else {'file': rel, 'function': qn, 'statements': bad}})
    return records


def _path_is_allowed(fn_node, call, allow_substrings):
    """the path variable was assigned from an expression mentioning an allowed file name in the same function"""
    if not (call.args and isinstance(call.args[0], ast.Name)):
        return False
    name = call.args[0].id
    last = None
    for n in ast.walk(fn_node):
        if isinstance(n, ast.Assign) and any(isinstance(t, ast.Name) and t.id == name for t in n.targets) and n.lineno <= call.lineno:
            if last is None or n.lineno > last.lineno:
                last = n
    return last is not None and any(a in ast.unparse(last.value) for a in allow_substrings)


MUTATORS = ('append', 'extend', 'insert', 'pop', 'remove', 'clear', 'update', 'sort', 'reverse', 'popitem', 'setdefault',
            'add', 'discard', 'set', 'remove_option', 'subtract', 'write', 'writelines', 'seek', 'truncate')


def readonly_frame(repo, specs, may_call=(), tag='readonly', immutable_params=(), forbidden_calls=()):
    """Frame obligation "this function only reads": one record per (relpath, qualname) in specs.  The function may not update in place
    anything reachable from its parameters (self included): no item/attribute/slice store, augmented store or delete whose root is a
    parameter or a local name bound to (part of) one, no mutator method call or heapq operation on such a root.  The obligation is closed
    under calls: a method called on `self` or a function of the same file that receives (part of) a parameter is analysed the same way
    with the corresponding parameters (a helper extracted from a covered function is followed, not rejected); functions named in
    `specs`/`may_call` have their own obligation / are accepted.  A call that can be resolved to none of these and receives part of a
    parameter leaves the obligation undecided - only an updating statement that was found is a violation.  A call of a method or function
    named in `forbidden_calls` (the output point, the generators: known to write) is a violation wherever it occurs in the covered
    functions.  Syntactic, hence over all paths."""
    by_file = {}
    specs = [tuple(x) + (None,) * (3 - len(x)) for x in specs]      # (relpath, qualname, [only these parameters] or None = all)
    names = {q.rsplit('.', 1)[-1] for _, q, _o in specs} | set(may_call)
    records = []
    PURE_METHODS = ('format', 'upper', 'lower', 'join', 'get', 'keys', 'values', 'items', 'getint', 'getfloat', 'getboolean', 'has_option',
                    'is_alive', 'isdigit', 'isalpha', 'strip', 'rstrip', 'lstrip', 'split', 'startswith', 'endswith', 'count', 'index', 'find',
                    'copy', 'most_common', 'isupper', 'islower', 'encode', 'decode', 'replace')
    PURE_FUNCS = ('len', 'int', 'str', 'float', 'print', 'range', 'enumerate', 'reversed', 'sorted', 'list', 'tuple', 'isinstance', 'min', 'max',
                  'sum', 'abs', 'repr', 'format', 'perf_counter', 'bool', 'dict', 'set', 'frozenset', 'zip', 'any', 'all', 'iter', 'id', 'type',
                  'ord', 'chr', 'round')

    def root_of(t):
        cur, steps = t, 0
        while isinstance(cur, (ast.Subscript, ast.Attribute, ast.Starred)):
            cur = cur.value
            steps += 1
        return (cur.id, steps) if isinstance(cur, ast.Name) else (None, 0)

    def analyse(rel, qn, node, params):
        """-> (updating statements, unresolved calls, [(qualname, node, tainted parameters)] to follow in the same file)"""
        tainted = set(params)
        body_nodes = []
        stack = list(node.body)
        while stack:
            n = stack.pop()
            if isinstance(n, (ast.FunctionDef, ast.AsyncFunctionDef, ast.Lambda, ast.ClassDef)):
                continue
            body_nodes.append(n)
            stack.extend(ast.iter_child_nodes(n))
        # aliases: a local bound to (part of) a parameter refers to the same object (fixpoint, flow-insensitive)
        changed = True
        while changed:
            changed = False
            for n in body_nodes:
                if isinstance(n, ast.Assign) and len(n.targets) == 1 and isinstance(n.targets[0], ast.Name):
                    v = n.value
                    if isinstance(v, (ast.Name, ast.Attribute, ast.Subscript)) and not (isinstance(v, ast.Subscript) and isinstance(v.slice, ast.Slice)):
                        r, _ = root_of(v)
                        if r in tainted and n.targets[0].id not in tainted:
                            tainted.add(n.targets[0].id)
                            changed = True
                if isinstance(n, (ast.For,)):
                    it = n.iter
                    # enumerate(x) / reversed(x) / x.items() hand out the elements of x
                    if isinstance(it, ast.Call) and isinstance(it.func, ast.Name) and it.func.id in ('enumerate', 'reversed', 'iter') and it.args:
                        it = it.args[0]
                    if isinstance(it, ast.Call) and isinstance(it.func, ast.Attribute) and it.func.attr in ('items', 'values'):
                        it = it.func.value
                    r, _ = root_of(it)
                    if r in tainted:
                        for tn in ast.walk(n.target):
                            if isinstance(tn, ast.Name) and tn.id not in tainted:
                                tainted.add(tn.id)
                                changed = True
        bad, unresolved, follow = [], [], []
        cls = qn.rsplit('.', 1)[0] if '.' in qn else None
        funcs = by_file[rel]

        def tainted_params_of(callee, call, bound_self):
            ps = [a.arg for a in callee.args.args]
            out = set()
            if bound_self and ps:
                out.add(ps[0])
                ps = ps[1:]
            for i, arg in enumerate(call.args):
                r, _ = root_of(arg)
                if r in tainted and r not in immutable_params and i < len(ps):
                    out.add(ps[i])
            for k in call.keywords:
                r, _ = root_of(k.value)
                if r in tainted and r not in immutable_params and k.arg in ps:
                    out.add(k.arg)
            return out

        for n in body_nodes:
            tgts = []
            if isinstance(n, ast.Assign):
                tgts = n.targets
            elif isinstance(n, (ast.AugAssign, ast.AnnAssign)):
                tgts = [n.target]
            elif isinstance(n, ast.Delete):
                tgts = n.targets
            for t in tgts:
                for e in (t.elts if isinstance(t, (ast.Tuple, ast.List)) else [t]):
                    r, steps = root_of(e)
                    if r in tainted and steps > 0:
                        bad.append((n.lineno, 'store to %s' % ast.unparse(e)))
            if isinstance(n, ast.Call):
                f = n.func
                fname0 = f.attr if isinstance(f, ast.Attribute) else (f.id if isinstance(f, ast.Name) else None)
                if fname0 in forbidden_calls:
                    bad.append((n.lineno, 'call to %s, which writes (forbidden on this path)' % ast.unparse(f)))
                    continue
                if isinstance(f, ast.Attribute):
                    r, _ = root_of(f.value)
                    if f.attr in MUTATORS and r in tainted:
                        bad.append((n.lineno, 'in-place update %s' % ast.unparse(f)))
                    elif r in params and isinstance(f.value, ast.Name) and f.attr not in names and not f.attr.startswith('__') \
                            and f.attr not in PURE_METHODS:
                        callee = funcs.get('%s.%s' % (cls, f.attr)) if (cls and f.value.id == 'self') else None
                        if callee is not None:
                            static = any(isinstance(d, ast.Name) and d.id == 'staticmethod' for d in callee.decorator_list)
                            follow.append(('%s.%s' % (cls, f.attr), callee, tainted_params_of(callee, n, not static)))
                        else:
                            unresolved.append((n.lineno, 'call to %s, which cannot be resolved to a function of this file' % ast.unparse(f)))
                # a free function (or a function of another module) that receives part of a parameter could update it
                if isinstance(f, ast.Name) or (isinstance(f, ast.Attribute) and root_of(f.value)[0] not in tainted):
                    fname = f.id if isinstance(f, ast.Name) else f.attr
                    if fname not in names and fname not in PURE_FUNCS:
                        got = [arg for arg in list(n.args) + [k.value for k in n.keywords]
                               if root_of(arg)[0] in tainted and root_of(arg)[0] not in immutable_params]
                        if got:
                            callee = funcs.get(fname) if isinstance(f, ast.Name) else None
                            if callee is not None:
                                follow.append((fname, callee, tainted_params_of(callee, n, False)))
                            else:
                                for arg in got:
                                    unresolved.append((n.lineno, '%s receives %s and cannot be resolved to a function of this file'
                                                       % (ast.unparse(f), ast.unparse(arg))))
                if isinstance(f, ast.Attribute) and ast.unparse(f) in ('heapq.heappush', 'heapq.heappop', 'heapq.heapify', 'random.shuffle') and n.args:
                        r2, _ = root_of(n.args[0])
                        if r2 in tainted:
                            bad.append((n.lineno, '%s on %s' % (ast.unparse(f), ast.unparse(n.args[0]))))
        return bad, unresolved, follow

    for rel, qn, only in specs:
        path = os.path.join(repo, rel)
        key = '%s:%s' % (rel, qn)
        name = '%s.frame.%s.%s' % (tag, rel.replace('/', '.').replace('.py', ''), qn)
        if rel not in by_file:
            by_file[rel] = dict(functions_of(path)) if os.path.exists(path) else {}
        node = by_file[rel].get(qn)
        if node is None:
            records.append({'name': name, 'ok': False, 'undecided': True, 'detail': 'function not found (renamed or moved?)', 'fn': key, 'site': key})
            continue
        params = {a.arg for a in node.args.args}
        if only is not None:
            params = params & set(only)
        bad, unresolved, followed = [], [], []
        work = [(qn, node, frozenset(params))]
        seen = set()
        while work:
            q2, n2, ps = work.pop()
            if (q2, ps) in seen or len(seen) > 40:
                continue
            seen.add((q2, ps))
            b, u, fol = analyse(rel, q2, n2, set(ps))
            where = '' if q2 == qn else ' (in %s, reached by a call)' % q2
            bad += [(ln, what + where) for ln, what in b]
            unresolved += [(ln, what + where) for ln, what in u]
            if q2 != qn:
                followed.append(q2)
            for q3, n3, ps3 in fol:
                work.append((q3, n3, frozenset(ps3)))
        rec = {'name': name, 'ok': not bad and not unresolved, 'fn': key, 'site': key,
               'detail': '; '.join('line %d: %s' % b for b in sorted(set(bad + unresolved))),
               'witness': None if not bad else {'file': rel, 'function': qn, 'statements': sorted(set(bad))}}
        if followed:
            rec['followed'] = sorted(set(followed))
        if not bad and unresolved:
            rec['undecided'] = True
        records.append(rec)
    return records


FS_WRITERS = ('os.remove', 'os.unlink', 'os.rename', 'os.replace', 'os.rmdir', 'os.removedirs', 'os.makedirs', 'os.mkdir', 'os.truncate',
              'shutil.rmtree', 'shutil.move', 'shutil.copy', 'shutil.copy2', 'shutil.copyfile', 'shutil.copytree', 'os.system', 'subprocess.run',
              'subprocess.call', 'subprocess.Popen')


def fs_write_frame(repo, rel, allowed, tag='fs'):
    """Frame obligation "this module changes the file system only through the allowed statements": one record per function of `rel`.
    A statement counts when it opens a file for writing/appending (open / codecs.open / io.open with a mode containing w, a, x or +),
    or calls one of FS_WRITERS, or a write_text/write_bytes/unlink/rename method.  `allowed`: {'qualname': [source text of the call, ...]}."""
    path = os.path.join(repo, rel)
    records = []
    if not os.path.exists(path):
        return [{'name': '%s.frame.%s.<file>' % (tag, rel), 'ok': False, 'undecided': True, 'detail': 'file is missing', 'site': rel}]
    for qn, node in functions_of(path):
        sites = []
        for ch in ast.walk(node):
            if isinstance(ch, (ast.FunctionDef, ast.AsyncFunctionDef)) and ch is not node:
                continue
            if not isinstance(ch, ast.Call):
                continue
            src = ast.unparse(ch.func)
            if src in ('open', 'codecs.open', 'io.open'):
                mode = ast.unparse(ch.args[1]) if len(ch.args) > 1 else "'r'"
                for k in ch.keywords:
                    if k.arg == 'mode':
                        mode = ast.unparse(k.value)
                if any(c in mode for c in 'wax+') or not (mode.startswith("'") or mode.startswith('"')):
                    sites.append((ch.lineno, ast.unparse(ch)))
            elif src in FS_WRITERS or (isinstance(ch.func, ast.Attribute) and ch.func.attr in ('write_text', 'write_bytes', 'unlink', 'rename', 'rmdir', 'touch')):
                sites.append((ch.lineno, ast.unparse(ch)))
        want = allowed.get(qn, [])
        got = [s for _, s in sites]
        if callable(want):
            # a predicate over the call nodes (robust against renamed variables): want(function node, [call nodes]) -> bool
            calls = [ch for ch in ast.walk(node) if isinstance(ch, ast.Call) and ast.unparse(ch) in got]
            # the predicate answers True (only the allowed update), False (a different update: violation) or None (the written path cannot
            # be resolved syntactically: undecided, the bounded stand-in decides)
            verdict = want(node, calls)
            ok = verdict is True
            want = 'predicate %s' % getattr(want, '__name__', 'allowed')
        else:
            verdict = ok = sorted(got) == sorted(want)
        rec = {'name': '%s.frame.%s.%s' % (tag, rel.replace('/', '.').replace('.py', ''), qn), 'ok': ok,
               'detail': '' if ok else 'file-system updates %r, allowed %r' % (sites, want), 'fn': '%s:%s' % (rel, qn), 'site': '%s:%s' % (rel, qn),
               'witness': None if ok else {'file': rel, 'function': qn, 'statements': sites, 'allowed': want}}
        if verdict is None:
            rec['undecided'] = True
            rec['witness'] = None
        records.append(rec)
    return records


MUTABLE_CTORS = ('list', 'dict', 'set', 'Counter', 'defaultdict', 'OrderedDict', 'deque', 'bytearray')


def _is_mutable_value(v):
    if isinstance(v, (ast.List, ast.Dict, ast.Set, ast.ListComp, ast.DictComp, ast.SetComp)):
        return True
    if isinstance(v, ast.Call):
        f = v.func
        name = f.id if isinstance(f, ast.Name) else (f.attr if isinstance(f, ast.Attribute) else '')
        return name in MUTABLE_CTORS
    return False


MEMO_DECORATORS = ('lru_cache', 'cache', 'cached_property', 'memoize', 'memoized', 'memoise')


def shared_state_frame(repo, files, tag='state'):
    """Frame obligation "no state is shared between objects or between calls": per class, no class-level attribute holds a mutable value
    (such a value is shared by every instance); per module, no function rebinds (global statement) or updates in place a module-level
    name that holds a mutable value.  What a run emits is then a function of the object it was built from, not of what else the process did."""
    records = []
    for rel in files:
        path = os.path.join(repo, rel)
        base = '%s.frame.%s' % (tag, rel.replace('/', '.').replace('.py', ''))
        if not os.path.exists(path):
            records.append({'name': base + '.<file>', 'ok': False, 'undecided': True, 'detail': 'file is missing', 'site': rel})
            continue
        with open(path, encoding='utf-8') as fh:
            tree = ast.parse(fh.read())
        mod_mutable = set()
        for n in tree.body:
            if isinstance(n, ast.Assign) and _is_mutable_value(n.value):
                for t in n.targets:
                    if isinstance(t, ast.Name):
                        mod_mutable.add(t.id)
            if isinstance(n, ast.AnnAssign) and n.value is not None and _is_mutable_value(n.value) and isinstance(n.target, ast.Name):
                mod_mutable.add(n.target.id)
        for n in ast.walk(tree):
            if isinstance(n, ast.ClassDef):
                bad, unsure = [], []
                for st in n.body:
                    tg = st.targets if isinstance(st, ast.Assign) else ([st.target] if isinstance(st, ast.AnnAssign) and st.value is not None else [])
                    if tg and _is_mutable_value(st.value):
                        # shared by every instance - which matters only if it is updated in place (a constant table or __slots__ is not
                        # state).  Updates are looked for through self.<name>, cls.<name> and <Class>.<name> in the whole file.
                        names = {t.id for t in tg if isinstance(t, ast.Name)}
                        upd, rebound = [], False
                        for m in ast.walk(tree):
                            tgts2 = m.targets if isinstance(m, (ast.Assign, ast.Delete)) else ([m.target] if isinstance(m, ast.AugAssign) else [])
                            for t2 in tgts2:
                                cur, steps = t2, 0
                                while isinstance(cur, ast.Subscript):
                                    cur, steps = cur.value, steps + 1
                                if isinstance(cur, ast.Attribute) and cur.attr in names and isinstance(cur.value, ast.Name) \
                                        and cur.value.id in ('self', 'cls', n.name):
                                    if steps > 0 or isinstance(m, ast.AugAssign):
                                        upd.append(m.lineno)
                                    elif isinstance(m, ast.Assign) and cur.value.id == 'self':
                                        rebound = True      # the instance gets its own object: the class-level value is only a default
                            if isinstance(m, ast.Call) and isinstance(m.func, ast.Attribute) and m.func.attr in MUTATORS:
                                cur = m.func.value
                                while isinstance(cur, ast.Subscript):
                                    cur = cur.value
                                if isinstance(cur, ast.Attribute) and cur.attr in names and isinstance(cur.value, ast.Name) \
                                        and cur.value.id in ('self', 'cls', n.name):
                                    upd.append(m.lineno)
                            if isinstance(m, ast.Call) and m.args and ast.unparse(m.func) in (
                                    'heapq.heappush', 'heapq.heappop', 'heapq.heapify', 'heapq.heapreplace', 'heapq.heappushpop', 'random.shuffle',
                                    'bisect.insort', 'bisect.insort_left', 'bisect.insort_right'):
                                cur = m.args[0]
                                while isinstance(cur, ast.Subscript):
                                    cur = cur.value
                                if isinstance(cur, ast.Attribute) and cur.attr in names and isinstance(cur.value, ast.Name) \
                                        and cur.value.id in ('self', 'cls', n.name):
                                    upd.append(m.lineno)
                        if upd and not rebound:
                            bad.append((st.lineno, '%s (updated in place at line %s)' % (ast.unparse(st)[:80], ', '.join(map(str, sorted(set(upd)))))))
                        elif upd:
                            unsure.append((st.lineno, '%s (updated in place, but instances also get their own object)' % ast.unparse(st)[:80]))
                rec = {'name': '%s.class.%s' % (base, n.name), 'ok': not bad and not unsure,
                       'detail': '; '.join('line %d: class-level mutable attribute %s' % b for b in bad + unsure), 'fn': '%s:%s' % (rel, n.name),
                       'site': '%s:%s' % (rel, n.name), 'witness': None if not bad else {'file': rel, 'class': n.name, 'statements': bad}}
                if unsure and not bad:
                    rec['undecided'] = True
                records.append(rec)
        bad = []
        for fn in ast.walk(tree):
            if not isinstance(fn, (ast.FunctionDef, ast.AsyncFunctionDef)):
                continue
            local = {a.arg for a in fn.args.args} | {a.arg for a in fn.args.kwonlyargs}
            for n in ast.walk(fn):
                if isinstance(n, ast.Assign):
                    for t in n.targets:
                        if isinstance(t, ast.Name):
                            local.add(t.id)
            globs = set()
            for n in ast.walk(fn):
                if isinstance(n, ast.Global):
                    globs.update(n.names)
            # a memo table kept by a decorator is state that outlives the call: harmless on a pure function, but the answer of an earlier call
            # survives a change of whatever the body reads from outside its arguments (files, directories, the clock, the object)
            memo = [ast.unparse(d) for d in fn.decorator_list
                    if ast.unparse(d.func if isinstance(d, ast.Call) else d).split('.')[-1] in MEMO_DECORATORS]
            if memo:
                reads = sorted({ast.unparse(c.func) for c in ast.walk(fn) if isinstance(c, ast.Call)
                                and (ast.unparse(c.func) in ('open', 'codecs.open', 'input')
                                     or ast.unparse(c.func).split('.')[0] in ('os', 'time', 'random', 'glob', 'shutil', 'pathlib'))}
                               | {'self.' + a.attr for a in ast.walk(fn) if isinstance(a, ast.Attribute) and isinstance(a.value, ast.Name)
                                  and a.value.id == 'self'})
                if reads:
                    bad.append((fn.lineno, '%s(): memoised by @%s but reads %s; a later call with the same arguments returns the earlier answer'
                                % (fn.name, memo[0], ', '.join(reads[:6]))))
            for n in ast.walk(fn):
                if isinstance(n, ast.Global):
                    bad.append((n.lineno, '%s(): global %s' % (fn.name, ', '.join(n.names))))
                tgts = n.targets if isinstance(n, (ast.Assign, ast.Delete)) else ([n.target] if isinstance(n, ast.AugAssign) else [])
                for t in tgts:
                    cur, steps = t, 0
                    while isinstance(cur, (ast.Subscript, ast.Attribute)):
                        cur, steps = cur.value, steps + 1
                    if isinstance(cur, ast.Name) and steps > 0 and cur.id in mod_mutable and (cur.id not in local or cur.id in globs):
                        bad.append((n.lineno, '%s(): store into module-level %s' % (fn.name, cur.id)))
                if isinstance(n, ast.Call) and isinstance(n.func, ast.Attribute) and n.func.attr in MUTATORS:
                    cur = n.func.value
                    while isinstance(cur, (ast.Subscript, ast.Attribute)):
                        cur = cur.value
                    if isinstance(cur, ast.Name) and cur.id in mod_mutable and (cur.id not in local or cur.id in globs):
                        bad.append((n.lineno, '%s(): in-place update of module-level %s' % (fn.name, cur.id)))
        records.append({'name': '%s.module' % base, 'ok': not bad, 'detail': '; '.join('line %d: %s' % b for b in sorted(set(bad))), 'fn': rel, 'site': rel,
                        'witness': None if not bad else {'file': rel, 'statements': sorted(set(bad))}})
    return records


def state_frame_for(pid, files):
    """effects function for a Prop: the shared-state frame over `files`, obligation names prefixed with the property id"""
    def run(repo):
        recs = shared_state_frame(repo, files)
        for r in recs:
            r['name'] = '%s.%s' % (pid, r['name'])
        return recs
    return run


def combine(*fns):
    def run(repo):
        out = []
        for f in fns:
            out.extend(f(repo))
        return out
    return run
