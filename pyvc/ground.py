"""
pyvc.ground -- quantifier-free relaxation of a VC by syntactic pattern instantiation.

Used for *refutation*: the quantified query (axioms + hyps + not goal) is what proves an
obligation; when it is not proved, the same query is put in NNF (existentials skolemised),
every universal is replaced by the conjunction of its instances on the ground terms that
match its patterns (a fixed number of rounds), and the resulting quantifier-free formula is
solved.  unsat there is still a proof (instances are consequences); sat gives a *candidate*
counter-model which is only believed after it has been replayed on the real code.
"""
import itertools

import z3


def _subterms(t, acc, seen):
    stack = [t]
    while stack:
        t = stack.pop()
        i = t.get_id()
        if i in seen:
            continue
        seen.add(i)
        if z3.is_quantifier(t):
            continue        # do not descend: bound variables
        if z3.is_app(t):
            acc.setdefault(t.decl().name() + '/' + str(t.num_args()), []).append(t)
            for k in range(t.num_args()):
                stack.append(t.arg(k))


def _has_var(t):
    stack = [t]
    seen = set()
    while stack:
        t = stack.pop()
        if t.get_id() in seen:
            continue
        seen.add(t.get_id())
        if z3.is_var(t):
            return True
        if z3.is_quantifier(t):
            stack.append(t.body())
        elif z3.is_app(t):
            for k in range(t.num_args()):
                stack.append(t.arg(k))
    return False


def _match(p, t, binding):
    """syntactic match of pattern p (with de Bruijn vars) against ground term t."""
    if z3.is_var(p):
        idx = z3.get_var_index(p)
        if idx in binding:
            return binding if binding[idx].eq(t) else None
        if p.sort() != t.sort():
            return None
        b = dict(binding)
        b[idx] = t
        return b
    if not z3.is_app(p) or not z3.is_app(t):
        return None
    if not _has_var(p):
        return binding if p.eq(t) else None
    if p.decl().name() != t.decl().name() or p.num_args() != t.num_args():
        # arithmetic in patterns (k + 1): match the variable against t - const
        if p.decl().kind() == z3.Z3_OP_ADD and p.num_args() == 2 and t.sort() == z3.IntSort():
            a, b = p.arg(0), p.arg(1)
            if z3.is_var(a) and z3.is_int_value(b):
                return _match(a, z3.simplify(t - b), binding)
            if z3.is_var(b) and z3.is_int_value(a):
                return _match(b, z3.simplify(t - a), binding)
        return None
    b = binding
    for k in range(p.num_args()):
        b = _match(p.arg(k), t.arg(k), b)
        if b is None:
            return None
    return b


def _instances(q, pool, cap):
    """all instantiations of quantifier q from the ground-term pool."""
    n = q.num_vars()
    results = []
    seen = set()

    def add(binding):
        if len(binding) != n:
            return
        key = tuple(binding[i].get_id() for i in range(n))
        if key in seen:
            return
        seen.add(key)
        results.append([binding[i] for i in range(n)])

    pats = [q.pattern(i) for i in range(q.num_patterns())]
    if not pats:
        # no pattern: use every ground term of the right sort as a candidate (capped)
        by_sort = {}
        for lst in pool.values():
            for t in lst:
                by_sort.setdefault(t.sort().name(), []).append(t)
        choices = []
        for i in range(n):
            cands = by_sort.get(q.var_sort(n - 1 - i).name(), [])[:8]
            choices.append(cands)
        for combo in itertools.islice(itertools.product(*choices), cap):
            add({i: combo[i] for i in range(n)})
        return results
    for pat in pats:
        parts = [pat.arg(k) for k in range(pat.num_args())]
        bindings = [{}]
        for part in parts:
            key = part.decl().name() + '/' + str(part.num_args())
            nxt = []
            for b in bindings:
                for t in pool.get(key, ()):
                    b2 = _match(part, t, b)
                    if b2 is not None:
                        nxt.append(b2)
                        if len(nxt) > cap:
                            break
                if len(nxt) > cap:
                    break
            bindings = nxt
        for b in bindings:
            add(b)
            if len(results) > cap:
                return results
    return results


import time as _time


def _late(stats):
    return _time.time() > stats.get('deadline', 1e18)


def _expand(f, pool, cap, stats):
    """replace positive universals in an NNF formula by the conjunction of their instances."""
    if _late(stats):
        stats['budget_exhausted'] = True
        return z3.BoolVal(True) if z3.is_quantifier(f) or _contains_quantifier(f) else f
    if z3.is_quantifier(f):
        if not f.is_forall():
            return f      # should not occur after nnf/skolemisation
        insts = _instances(f, pool, cap)
        stats['instances'] += len(insts)
        out = []
        for terms in insts:
            body = z3.substitute_vars(f.body(), *terms)
            out.append(body)
        if not out:
            return z3.BoolVal(True)
        return z3.And(out)
    if z3.is_and(f) or z3.is_or(f):
        kids = [_expand(f.arg(k), pool, cap, stats) for k in range(f.num_args())]
        return z3.And(kids) if z3.is_and(f) else z3.Or(kids)
    return f


def _contains_quantifier(f):
    stack = [f]
    seen = set()
    while stack:
        t = stack.pop()
        if t.get_id() in seen:
            continue
        seen.add(t.get_id())
        if z3.is_quantifier(t):
            return True
        if z3.is_app(t):
            for k in range(t.num_args()):
                stack.append(t.arg(k))
    return False


def _nnf(formulas):
    g = z3.Goal()
    for f in formulas:
        g.add(f)
    res = z3.Then(z3.Tactic('simplify'), z3.Tactic('nnf'))(g)
    out = []
    for sub in res:
        for f in sub:
            out.append(f)
    return out


def ground(formulas, rounds=3, cap=600, budget_s=8.0):
    """formulas: list of z3 Bool (to be conjoined). Returns (qf_formulas, stats)."""
    cur = _nnf(formulas)
    stats = {'instances': 0, 'rounds': 0}
    quantified = [f for f in cur if _contains_quantifier(f)]
    plain = [f for f in cur if not _contains_quantifier(f)]
    insts = []
    last = -1
    import time as _t
    t0 = _t.time()
    stats['deadline'] = t0 + budget_s
    for r in range(rounds):
        if r > 0 and _t.time() - t0 > budget_s:
            stats['budget_exhausted'] = True
            break
        stats['rounds'] = r + 1
        stats['instances'] = 0
        pool = {}
        seen = set()
        for f in plain + insts:
            _subterms(f, pool, seen)
        insts = [z3.simplify(_strip(_expand_deep(q, pool, cap, stats))) for q in quantified]
        if stats['instances'] == last:
            break
        last = stats['instances']
    stats.pop('deadline', None)
    return plain + insts, stats


def _expand_deep(f, pool, cap, stats):
    if _late(stats):
        stats['budget_exhausted'] = True
        return z3.BoolVal(True) if _contains_quantifier(f) else f
    if z3.is_quantifier(f):
        e = _expand(f, pool, cap, stats)
        if z3.is_quantifier(e):
            return z3.BoolVal(True)
        return _expand_deep(e, pool, cap, stats) if _contains_quantifier(e) else e
    if z3.is_and(f) or z3.is_or(f):
        kids = [_expand_deep(f.arg(k), pool, cap, stats) for k in range(f.num_args())]
        return z3.And(kids) if z3.is_and(f) else z3.Or(kids)
    return f


def _strip(f):
    """replace any remaining quantified subformula (positive position in NNF) by True."""
    if z3.is_quantifier(f):
        return z3.BoolVal(True)
    if z3.is_and(f) or z3.is_or(f):
        kids = [_strip(f.arg(k)) for k in range(f.num_args())]
        return z3.And(kids) if z3.is_and(f) else z3.Or(kids)
    if _contains_quantifier(f):
        return z3.BoolVal(True)
    return f
