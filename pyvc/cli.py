import argparse
import importlib
import json
import os
import sys

HERE = os.path.dirname(os.path.dirname(os.path.abspath(__file__)))
sys.path.insert(0, HERE)


def main():
    ap = argparse.ArgumentParser()
    ap.add_argument('pid')
    ap.add_argument('--tier', default=os.environ.get('VERIF_TIER', 'quick'))
    ap.add_argument('--repo', default=os.environ.get('PYVC_REPO', '/repo'))
    ap.add_argument('--replay')
    ap.add_argument('--update-lock', action='store_true')
    ap.add_argument('-v', action='store_true')
    a = ap.parse_args()
    seed = int(os.environ.get('VERIF_SEED', '0') or 0)
    from pyvc import runner
    mod = importlib.import_module('props.' + a.pid)
    if a.replay:
        # replay a recorded violation against the real code of --repo: the bounded stand-in that produced the failing input is run again,
        # or the property's replay adapter searches a native failing input for the recorded obligation.  Exit 1 if it fails (again), 0 if not.
        with open(a.replay) as fh:
            rec = json.load(fh)
        print(json.dumps(rec, indent=1)[:6000])
        prop = mod.PROP
        obl = rec.get('obligation') or ''
        witness = None
        if '.bounded.' in obl:
            name = obl.split('.bounded.', 1)[1]
            for b in prop.bounded:
                if b.name == name or b.name.endswith(name):
                    d = runner.run_bounded(b, a.repo, a.tier, seed)
                    fails = d.get('failures') or []
                    witness = fails[0] if fails else None
                    if d.get('error'):
                        print('replay error: %s' % d['error'])
                        sys.exit(3)
        elif prop.replay is not None:
            try:
                witness = prop.replay({'name': obl, 'fn': rec.get('function') or '', 'detail': rec.get('solver_output') or {}}, a.repo, seed)
            except Exception:
                import traceback
                traceback.print_exc()
                sys.exit(3)
        if witness is not None:
            print('REPLAY: the real code at %s fails: %s' % (a.repo, json.dumps(witness, default=str)[:1500]))
            sys.exit(1)
        print('REPLAY: no failing input on the real code at %s for %s' % (a.repo, obl))
        sys.exit(0)
    try:
        code = runner.run(mod.PROP, tier=a.tier, seed=seed, repo=a.repo, update_lock=a.update_lock, verbose=a.v)
    except Exception:
        import traceback
        traceback.print_exc()
        sys.exit(3)
    if a.tier == 'thorough' and code == 0 and os.path.realpath(a.repo) == '/repo' and not os.environ.get('PYVC_NO_SELFTEST'):
        code = selftest(a.pid)
    sys.exit(code)


def selftest(pid):
    """thorough tier only: the check must still detect the seeded breaking changes recorded under seeded/<pid>/ (each applied to a scratch
    copy of the current tree, removed afterwards).  A recorded change that is no longer detected means the checker is broken: exit 3."""
    import glob
    import shutil
    import subprocess
    import tempfile
    from concurrent.futures import ThreadPoolExecutor
    seeds = sorted(glob.glob(os.path.join(HERE, 'seeded', pid, '*', 'patch.diff')))
    if not seeds:
        return 0

    def one(patch):
        d = tempfile.mkdtemp(prefix='pcfg_selftest_')
        try:
            subprocess.run(['rsync', '-a', '--exclude', '.git', '--exclude', '.pyvc_*', '/repo/', d + '/'], check=True)
            r = subprocess.run(['git', 'apply', '--directory', d.lstrip('/'), '--unsafe-paths', patch], cwd='/', capture_output=True, text=True)
            if r.returncode != 0:
                return {'seed': os.path.relpath(patch, HERE), 'applies': False, 'detected': None}
            env = dict(os.environ, PYVC_NO_SELFTEST='1')
            c = subprocess.run([os.path.join(HERE, 'check'), pid, '--repo', d, '--tier', 'quick'], capture_output=True, text=True, env=env)
            return {'seed': os.path.relpath(patch, HERE), 'applies': True, 'detected': c.returncode == 1, 'exit': c.returncode}
        finally:
            shutil.rmtree(d, ignore_errors=True)
    with ThreadPoolExecutor(max_workers=2) as ex:
        res = list(ex.map(one, seeds))
    ev = os.path.join(HERE, 'evidence', pid + '.json')
    try:
        with open(ev) as fh:
            e = json.load(fh)
        e['coverage']['selftest_seeded_changes'] = res
        with open(ev, 'w') as fh:
            json.dump(e, fh, indent=1)
    except Exception:
        pass
    missed = [r for r in res if r['applies'] and not r['detected']]
    print('selftest: %d of %d applicable seeded changes detected' % (len([r for r in res if r['detected']]), len([r for r in res if r['applies']])))
    for r in missed:
        print('SELFTEST-MISS property=%s seed=%s exit=%s (the check no longer reports this recorded breaking change)' % (pid, r['seed'], r.get('exit')))
    return 3 if missed else 0


main()
