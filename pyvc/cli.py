import argparse
import importlib
import json
import os
import sys

HERE = os.path.dirname(os.path.dirname(os.path.abspath(__file__)))
sys.path.insert(0, HERE)


def main():
    ap = argparse.ArgumentParser()
    ap.add_argument('pid')
    ap.add_argument('--tier', default=os.environ.get('VERIF_TIER', 'quick'))
    ap.add_argument('--repo', default=os.environ.get('PYVC_REPO', '/repo'))
    ap.add_argument('--replay')
    ap.add_argument('--update-lock', action='store_true')
    ap.add_argument('-v', action='store_true')
    a = ap.parse_args()
    seed = int(os.environ.get('VERIF_SEED', '0') or 0)
    from pyvc import runner
    mod = importlib.import_module('props.' + a.pid)
    if a.replay:
        with open(a.replay) as fh:
            print(json.dumps(json.load(fh), indent=1))
        rp = getattr(mod, 'replay_file', None)
        if rp is not None:
            sys.exit(rp(a.replay, a.repo))
        sys.exit(0)
    try:
        code = runner.run(mod.PROP, tier=a.tier, seed=seed, repo=a.repo, update_lock=a.update_lock, verbose=a.v)
    except Exception:
        import traceback
        traceback.print_exc()
        sys.exit(3)
    sys.exit(code)


main()
