"""
pyvc.theory -- sorts, shapes and background axioms used by the VC generator.

Everything here is *true of CPython values* (see DESIGN.md 3.3); the solver only ever sees
 * Int for Python int (exact),
 * an uninterpreted sort F for float with an order embedding fval:F->Real and
   uninterpreted fmul/fdiv/fadd that are only known to be monotone (assumption A-FP),
 * an uninterpreted sort Str with slen/sch/sslice/scat/... and ground/quantified axioms,
 * algebraic datatypes for tuples, records, options, lists (length + index map), dicts.
"""
import z3

IntS = z3.IntSort()
BoolS = z3.BoolSort()
RealS = z3.RealSort()

F = z3.DeclareSort('F')
fval = z3.Function('fval', F, RealS)
fmul = z3.Function('fmul', F, F, F)
fdiv = z3.Function('fdiv', F, F, F)
fadd = z3.Function('fadd', F, F, F)
fsub = z3.Function('fsub', F, F, F)
int2f = z3.Function('int2f', IntS, F)
F_ZERO = z3.Const('F_zero', F)
F_ONE = z3.Const('F_one', F)

Str = z3.DeclareSort('Str')
slen = z3.Function('slen', Str, IntS)
sch = z3.Function('sch', Str, IntS, IntS)          # code point at index
sslice = z3.Function('sslice', Str, IntS, IntS, Str)  # normalised 0<=a<=b<=len
scat = z3.Function('scat', Str, Str, Str)
schar = z3.Function('schar', IntS, Str)            # one-character string
slower = z3.Function('slower', Str, Str)
supper = z3.Function('supper', Str, Str)
sofint = z3.Function('sofint', IntS, Str)          # str(int)
S_EMPTY = z3.Const('S_empty', Str)

# character classes: uninterpreted predicates on code points (ground facts from the
# character table are added by the properties that need them)
c_isdigit = z3.Function('c_isdigit', IntS, BoolS)
c_isalpha = z3.Function('c_isalpha', IntS, BoolS)
c_isupper = z3.Function('c_isupper', IntS, BoolS)
c_islower = z3.Function('c_islower', IntS, BoolS)
c_isspace = z3.Function('c_isspace', IntS, BoolS)
c_isalnum = z3.Function('c_isalnum', IntS, BoolS)
c_upper1 = z3.Function('c_upper1', IntS, Str)      # str.upper() of a 1-char string


# --------------------------------------------------------------------------- shapes
class Shape:
    _cache = {}

    def __eq__(self, other):
        return isinstance(other, Shape) and self.key() == other.key()

    def __hash__(self):
        return hash(self.key())

    def __repr__(self):
        return self.key()


class _Prim(Shape):
    def __init__(self, name, sort):
        self.name = name
        self._sort = sort

    def key(self):
        return self.name

    def sort(self):
        return self._sort


TInt = _Prim('int', IntS)
TBool = _Prim('bool', BoolS)
TF = _Prim('float', F)
TStr = _Prim('str', Str)

_dt_cache = {}


def _dt(key, build):
    if key not in _dt_cache:
        _dt_cache[key] = build()
    return _dt_cache[key]


def _san(s):
    out = []
    for ch in s:
        out.append(ch if ch.isalnum() else '_')
    return ''.join(out)


class TList(Shape):
    """Python list of a uniform element shape: (len:Int, arr: Int -> elem)."""

    def __init__(self, elem):
        self.elem = elem

    def key(self):
        return 'list[%s]' % self.elem.key()

    def sort(self):
        def build():
            nm = 'L_' + _san(self.elem.key())
            d = z3.Datatype(nm)
            d.declare('mk_' + nm, ('len_' + nm, IntS), ('arr_' + nm, z3.ArraySort(IntS, self.elem.sort())))
            return d.create()
        return _dt(self.key(), build)

    def _nm(self):
        return 'L_' + _san(self.elem.key())

    def mk(self, n, arr):
        return getattr(self.sort(), 'mk_' + self._nm())(n, arr)

    def len(self, t):
        return getattr(self.sort(), 'len_' + self._nm())(t)

    def arr(self, t):
        return getattr(self.sort(), 'arr_' + self._nm())(t)


class TTuple(Shape):
    def __init__(self, elems):
        self.elems = tuple(elems)

    def key(self):
        return 'tuple[%s]' % ','.join(e.key() for e in self.elems)

    def sort(self):
        def build():
            nm = self._nm()
            d = z3.Datatype(nm)
            d.declare('mk_' + nm, *[('f%d_%s' % (i, nm), e.sort()) for i, e in enumerate(self.elems)])
            return d.create()
        return _dt(self.key(), build)

    def _nm(self):
        return 'T_' + _san(self.key())

    def mk(self, *terms):
        return getattr(self.sort(), 'mk_' + self._nm())(*terms)

    def get(self, t, i):
        return getattr(self.sort(), 'f%d_%s' % (i, self._nm()))(t)


class TRec(Shape):
    """dict with a fixed set of literal string keys."""

    def __init__(self, fields):
        self.fields = dict(fields)
        self.names = sorted(self.fields)

    def key(self):
        return 'rec{%s}' % ','.join('%s:%s' % (k, self.fields[k].key()) for k in self.names)

    def sort(self):
        def build():
            nm = self._nm()
            d = z3.Datatype(nm)
            d.declare('mk_' + nm, *[('r_%s_%s' % (_san(k), nm), self.fields[k].sort()) for k in self.names])
            return d.create()
        return _dt(self.key(), build)

    def _nm(self):
        return 'R_' + _san(self.key())

    def mk(self, **kw):
        return getattr(self.sort(), 'mk_' + self._nm())(*[kw[k] for k in self.names])

    def get(self, t, k):
        return getattr(self.sort(), 'r_%s_%s' % (_san(k), self._nm()))(t)


class TOpt(Shape):
    def __init__(self, elem):
        self.elem = elem

    def key(self):
        return 'opt[%s]' % self.elem.key()

    def sort(self):
        def build():
            nm = self._nm()
            d = z3.Datatype(nm)
            d.declare('none_' + nm)
            d.declare('some_' + nm, ('val_' + nm, self.elem.sort()))
            return d.create()
        return _dt(self.key(), build)

    def _nm(self):
        return 'O_' + _san(self.elem.key())

    def none(self):
        return getattr(self.sort(), 'none_' + self._nm())

    def some(self, t):
        return getattr(self.sort(), 'some_' + self._nm())(t)

    def is_none(self, t):
        return getattr(self.sort(), 'is_none_' + self._nm())(t)

    def val(self, t):
        return getattr(self.sort(), 'val_' + self._nm())(t)


class TDict(Shape):
    """dict: presence map + value map (insertion order is not modelled here)."""

    def __init__(self, k, v, counter=False):
        self.k = k
        self.v = v
        self.counter = counter     # collections.Counter: a missing key reads as 0

    def key(self):
        return 'dict[%s,%s]' % (self.k.key(), self.v.key())

    def sort(self):
        def build():
            nm = self._nm()
            d = z3.Datatype(nm)
            d.declare('mk_' + nm, ('has_' + nm, z3.ArraySort(self.k.sort(), BoolS)),
                      ('get_' + nm, z3.ArraySort(self.k.sort(), self.v.sort())))
            return d.create()
        return _dt(self.key(), build)

    def _nm(self):
        return 'D_' + _san(self.key())

    def has_map(self, t):
        return getattr(self.sort(), 'has_' + self._nm())(t)

    def get_map(self, t):
        return getattr(self.sort(), 'get_' + self._nm())(t)

    def mk(self, has, get):
        return getattr(self.sort(), 'mk_' + self._nm())(has, get)

    def has(self, t, k):
        return z3.Select(self.has_map(t), k)

    def get(self, t, k):
        return z3.Select(self.get_map(t), k)

    def put(self, t, k, v):
        return self.mk(z3.Store(self.has_map(t), k, z3.BoolVal(True)), z3.Store(self.get_map(t), k, v))


class TBag(Shape):
    """multiset of elem (ghost view of the heap): elem -> Int."""

    def __init__(self, elem):
        self.elem = elem

    def key(self):
        return 'bag[%s]' % self.elem.key()

    def sort(self):
        return z3.ArraySort(self.elem.sort(), IntS)


# --------------------------------------------------------------------------- literals
_lit_cache = {}


def str_lit(s):
    """A constant of sort Str for the Python literal s, with its defining ground axioms."""
    if s == '':
        return S_EMPTY
    if len(s) == 1:
        return schar(z3.IntVal(ord(s)))
    if s not in _lit_cache:
        name = 'lit_' + ''.join('%02x' % b for b in s.encode('utf-8'))
        _lit_cache[s] = z3.Const(name, Str)
    return _lit_cache[s]


def lit_value(term):
    """Inverse of str_lit for terms that are syntactically literals, else None."""
    if term.eq(S_EMPTY):
        return ''
    if z3.is_app(term) and term.decl().name() == 'schar' and z3.is_int_value(term.arg(0)):
        return chr(term.arg(0).as_long())
    if z3.is_const(term) and term.decl().name().startswith('lit_'):
        try:
            return bytes.fromhex(term.decl().name()[4:]).decode('utf-8')
        except ValueError:
            return None
    return None


_float_lits = {}


def float_lit(c):
    """a constant of sort F for a Python float literal; its exact value is an axiom"""
    if c == 0.0:
        return F_ZERO
    if c == 1.0:
        return F_ONE
    name = 'flit_%s' % repr(c).replace('.', '_').replace('-', 'm').replace('+', 'p')
    if name not in _float_lits:
        _float_lits[name] = (z3.Const(name, F), c)
    return _float_lits[name][0]


def float_lit_axioms():
    from fractions import Fraction
    out = []
    for name, (k, c) in _float_lits.items():
        fr = Fraction(c)
        out.append(fval(k) == z3.RealVal(fr.numerator) / z3.RealVal(fr.denominator))
    return out


def lit_axioms():
    out = []
    for s, c in _lit_cache.items():
        out.append(slen(c) == len(s))
        for i, ch in enumerate(s):
            out.append(sch(c, i) == ord(ch))
    return out


# --------------------------------------------------------------------------- axioms
_base_cache = {}


def base_axioms():
    key = (len(_lit_cache), len(_list_fns), len(_bag_size), len(_list_contains), len(SpecFun.registry), len(_float_lits))
    if key not in _base_cache:
        _base_cache.clear()
        _base_cache[key] = _base_axioms()
    return _base_cache[key]


def _base_axioms():
    """Background axioms (all true of CPython str / binary64 restricted to [0,1])."""
    ax = []
    x, y, z = z3.Consts('x y z', F)
    s, t = z3.Consts('s t', Str)
    a, b, i, c = z3.Ints('a b i c')
    fv = fval
    # ---- F: order embedding is injective (== on floats is == on values)
    ax.append(z3.ForAll([x, y], z3.Implies(fv(x) == fv(y), x == y), patterns=[z3.MultiPattern(fv(x), fv(y))]))
    ax.append(fv(F_ZERO) == 0)
    ax.append(fv(F_ONE) == 1)
    # fmul: non-negative on non-negative operands, monotone in each argument (A-FP),
    # bounded by each operand when the other is <= 1
    ax.append(z3.ForAll([x, y], z3.Implies(z3.And(fv(x) >= 0, fv(y) >= 0), fv(fmul(x, y)) >= 0),
                        patterns=[fmul(x, y)]))
    ax.append(z3.ForAll([x, y, z], z3.Implies(z3.And(fv(x) >= 0, fv(y) >= 0, fv(y) <= fv(z)),
                                             fv(fmul(x, y)) <= fv(fmul(x, z))),
                        patterns=[z3.MultiPattern(fmul(x, y), fmul(x, z))]))
    ax.append(z3.ForAll([x, y, z], z3.Implies(z3.And(fv(x) >= 0, fv(y) >= 0, fv(y) <= fv(z)),
                                             fv(fmul(y, x)) <= fv(fmul(z, x))),
                        patterns=[z3.MultiPattern(fmul(y, x), fmul(z, x))]))
    x2, y2 = z3.Consts('x2 y2', F)
    # (consequence of the two one-sided monotonicity axioms by transitivity)
    ax.append(z3.ForAll([x, y, x2, y2], z3.Implies(z3.And(fv(x) >= 0, fv(y) >= 0, fv(x) <= fv(x2), fv(y) <= fv(y2)),
                                                  fv(fmul(x, y)) <= fv(fmul(x2, y2))),
                        patterns=[z3.MultiPattern(fmul(x, y), fmul(x2, y2))]))
    ax.append(z3.ForAll([x, y], z3.Implies(z3.And(fv(x) >= 0, fv(y) >= 0, fv(y) <= 1),
                                          fv(fmul(x, y)) <= fv(x)), patterns=[fmul(x, y)]))
    ax.append(z3.ForAll([x, y], z3.Implies(z3.And(fv(x) >= 0, fv(y) >= 0, fv(x) <= 1),
                                          fv(fmul(x, y)) <= fv(y)), patterns=[fmul(x, y)]))
    ax.append(z3.ForAll([x], fmul(x, F_ONE) == x, patterns=[fmul(x, F_ONE)]))
    ax.append(z3.ForAll([x], fmul(F_ONE, x) == x, patterns=[fmul(F_ONE, x)]))
    # fdiv by a positive divisor is monotone in the dividend
    ax.append(z3.ForAll([x, y, z], z3.Implies(z3.And(fv(z) > 0, fv(x) <= fv(y)),
                                             fv(fdiv(x, z)) <= fv(fdiv(y, z))),
                        patterns=[z3.MultiPattern(fdiv(x, z), fdiv(y, z))]))
    ax.append(z3.ForAll([x, z], z3.Implies(z3.And(fv(z) > 0, fv(x) >= 0), fv(fdiv(x, z)) >= 0),
                        patterns=[fdiv(x, z)]))
    # fadd monotone, adding a non-negative never decreases
    ax.append(z3.ForAll([x, y], z3.Implies(fv(y) >= 0, fv(fadd(x, y)) >= fv(x)), patterns=[fadd(x, y)]))
    ax.append(z3.ForAll([x], fadd(F_ZERO, x) == x, patterns=[fadd(F_ZERO, x)]))
    # ---- Str
    ax.append(z3.ForAll([s], slen(s) >= 0, patterns=[slen(s)]))
    ax.append(slen(S_EMPTY) == 0)
    ax.append(z3.ForAll([s], z3.Implies(slen(s) == 0, s == S_EMPTY), patterns=[slen(s)]))
    ax.append(z3.ForAll([c], slen(schar(c)) == 1, patterns=[schar(c)]))
    ax.append(z3.ForAll([c], sch(schar(c), 0) == c, patterns=[schar(c)]))
    ax.append(z3.ForAll([s, a, b], z3.Implies(z3.And(0 <= a, a <= b, b <= slen(s)), slen(sslice(s, a, b)) == b - a),
                        patterns=[sslice(s, a, b)]))
    ax.append(z3.ForAll([s, a, b, i], z3.Implies(z3.And(0 <= a, a <= b, b <= slen(s), 0 <= i, i < b - a),
                                                sch(sslice(s, a, b), i) == sch(s, a + i)),
                        patterns=[sch(sslice(s, a, b), i)]))
    ax.append(z3.ForAll([s], sslice(s, 0, slen(s)) == s, patterns=[sslice(s, 0, slen(s))]))
    c2, d2 = z3.Ints('c2 d2')
    # a slice of a slice is a slice of the underlying string
    ax.append(z3.ForAll([s, a, b, c2, d2], z3.Implies(z3.And(0 <= a, a <= b, b <= slen(s), 0 <= c2, c2 <= d2, d2 <= b - a),
                                                     sslice(sslice(s, a, b), c2, d2) == sslice(s, a + c2, a + d2)),
                        patterns=[sslice(sslice(s, a, b), c2, d2)]))
    ax.append(z3.ForAll([s, t], slen(scat(s, t)) == slen(s) + slen(t), patterns=[scat(s, t)]))
    ax.append(z3.ForAll([s, t, i], z3.Implies(z3.And(0 <= i, i < slen(s) + slen(t)),
                                             sch(scat(s, t), i) == z3.If(i < slen(s), sch(s, i), sch(t, i - slen(s)))),
                        patterns=[sch(scat(s, t), i)]))
    ax.append(z3.ForAll([s], scat(s, S_EMPTY) == s, patterns=[scat(s, S_EMPTY)]))
    ax.append(z3.ForAll([s], scat(S_EMPTY, s) == s, patterns=[scat(S_EMPTY, s)]))
    # a one-character slice is the one-character string of its code point
    ax.append(z3.ForAll([s, a], z3.Implies(z3.And(0 <= a, a < slen(s)), sslice(s, a, a + 1) == schar(sch(s, a))),
                        patterns=[sslice(s, a, a + 1)]))
    # str(int) of a non-negative int is non-empty and made of ASCII digits (only what is used)
    ax.append(z3.ForAll([a], slen(sofint(a)) >= 1, patterns=[sofint(a)]))
    ax.append(z3.ForAll([a, b], z3.Implies(sofint(a) == sofint(b), a == b),
                        patterns=[z3.MultiPattern(sofint(a), sofint(b))]))
    ax.extend(lit_axioms())
    ax.extend(float_lit_axioms())
    ax.extend(list_axioms())
    ax.extend(bag_axioms())
    ax.extend(contains_axioms())
    for sf in SpecFun.registry.values():
        if sf.quantified and sf.defn is not None:
            ax.append(sf.axiom())
    return ax


# --------------------------------------------------------------------------- spec functions
class SpecFun:
    """A (possibly recursive) specification function with ground unfolding.

    defn(*args) returns the z3 term the application equals.  Unfolding instances are added
    for every application that occurs in a VC (see instantiate), to a fixed fuel.
    """
    registry = {}

    def __init__(self, name, arg_sorts, res_sort, defn=None, doc='', quantified=False):
        self.name = name
        self.arg_sorts = list(arg_sorts)
        self.f = z3.Function(name, *(list(arg_sorts) + [res_sort]))
        self.defn = defn
        self.doc = doc
        self.quantified = quantified     # also state the definition as a quantified axiom (for uses under binders)
        SpecFun.registry[name] = self

    def axiom(self):
        vs = [z3.Const('a%d!%s' % (i, self.name), s) for i, s in enumerate(self.arg_sorts)]
        app = self.f(*vs)
        r = self.defn(*vs)
        body = z3.And(list(r)) if isinstance(r, (list, tuple)) else app == r
        return z3.ForAll(vs, body, patterns=[app])

    def __call__(self, *args):
        return self.f(*args)

    def unfold(self, app):
        if self.defn is None:
            return []
        args = [app.arg(i) for i in range(app.num_args())]
        r = self.defn(*args)
        if isinstance(r, (list, tuple)):
            return [x for x in r]
        return [app == r]


def _walk(t, seen, out):
    stack = [t]
    while stack:
        t = stack.pop()
        tid = t.get_id()
        if tid in seen:
            continue
        seen.add(tid)
        if z3.is_quantifier(t):
            stack.append(t.body())
            continue
        if z3.is_app(t):
            nm = t.decl().name()
            if nm in SpecFun.registry and t.num_args() > 0:
                out.append(t)
            for i in range(t.num_args()):
                stack.append(t.arg(i))


def _has_bound_var(t):
    stack = [t]
    seen = set()
    while stack:
        t = stack.pop()
        if t.get_id() in seen:
            continue
        seen.add(t.get_id())
        if z3.is_var(t):
            return True
        if z3.is_app(t):
            for i in range(t.num_args()):
                stack.append(t.arg(i))
        elif z3.is_quantifier(t):
            stack.append(t.body())
    return False


_apps_cache = {}      # formula id -> (formula kept alive, spec-function applications in it)
_unfold_cache = {}    # application id -> (app kept alive, unfolding instances)


def _apps_of(f):
    fid = f.get_id()
    hit = _apps_cache.get(fid)
    if hit is not None:
        return hit[1]
    out = []
    _walk(f, set(), out)
    out = [a for a in out if not _has_bound_var(a)]
    _apps_cache[fid] = (f, out)
    return out


def instantiate(formulas, fuel=2):
    """Ground unfolding of spec-function applications occurring in formulas (memoised per formula)."""
    done = set()
    extra = []
    frontier = list(formulas)
    for _ in range(fuel):
        apps = []
        for f in frontier:
            apps.extend(_apps_of(f))
        frontier = []
        for app in apps:
            aid = app.get_id()
            if aid in done:
                continue
            done.add(aid)
            hit = _unfold_cache.get(aid)
            if hit is None:
                inst = SpecFun.registry[app.decl().name()].unfold(app)
                _unfold_cache[aid] = (app, inst)
            else:
                inst = hit[1]
            extra.extend(inst)
            frontier.extend(inst)
        if not frontier:
            break
    return extra


# --------------------------------------------------------------------------- bags
_bag_size = {}


_bag_shapes = {}


def bag_size(bag_shape):
    k = bag_shape.key()
    if k not in _bag_size:
        _bag_size[k] = z3.Function('bag_size_' + _san(k), bag_shape.sort(), IntS)
        _bag_shapes[k] = bag_shape
    return _bag_size[k]


def bag_axioms():
    """bag_size is the number of elements of a finite multiset: never negative, and zero only
    for the multiset without elements (assumption on the heap view, DESIGN 3.3)."""
    out = []
    for k, f in _bag_size.items():
        sh = _bag_shapes[k]
        b = z3.Const('b!bs', sh.sort())
        x = z3.Const('x!bs', sh.elem.sort())
        out.append(z3.ForAll([b], f(b) >= 0, patterns=[f(b)]))
        out.append(z3.ForAll([b, x], z3.Implies(f(b) == 0, z3.Select(b, x) <= 0),
                             patterns=[z3.MultiPattern(f(b), z3.Select(b, x))]))
    return out


# --------------------------------------------------------------------------- list operations as functions
_list_fns = {}


def list_fn(name, list_shape, extra_sorts):
    """lslice/lcat/ldel/lsplice on a list sort, as function symbols (their defining facts are
    assumed for each application the engine creates)."""
    k = (name, list_shape.key())
    if k not in _list_fns:
        _list_fns[k] = z3.Function('%s_%s' % (name, _san(list_shape.key())), *([list_shape.sort()] + list(extra_sorts)
                                                                                + [list_shape.sort()]))
    return _list_fns[k]


class TSeq(Shape):
    """ghost sequence (native z3 Seq): output streams, logs."""

    def __init__(self, elem):
        self.elem = elem

    def key(self):
        return 'seq[%s]' % self.elem.key()

    def sort(self):
        return z3.SeqSort(self.elem.sort())


def list_axioms():
    """defining axioms of the list function symbols that have been created so far."""
    out = []
    for (name, key), f in _list_fns.items():
        sh = _list_shapes[key]
        l = z3.Const('l!la', sh.sort())
        m = z3.Const('m!la', sh.sort())
        a, b, j = z3.Ints('a!la b!la j!la')
        if name == 'lslice':
            r = f(l, a, b)
            ok = z3.And(0 <= a, a <= b, b <= sh.len(l))
            out.append(z3.ForAll([l, a, b], z3.Implies(ok, sh.len(r) == b - a), patterns=[f(l, a, b)]))
            out.append(z3.ForAll([l, a, b, j], z3.Implies(z3.And(ok, 0 <= j, j < b - a),
                                                         z3.Select(sh.arr(r), j) == z3.Select(sh.arr(l), a + j)),
                                 patterns=[z3.Select(sh.arr(r), j)]))
        elif name == 'linsert':
            x = z3.Const('x!la', sh.elem.sort())
            r = f(l, a, x)
            ok = z3.And(0 <= a, a <= sh.len(l))
            out.append(z3.ForAll([l, a, x], z3.Implies(ok, sh.len(r) == sh.len(l) + 1), patterns=[f(l, a, x)]))
            out.append(z3.ForAll([l, a, x, j], z3.Implies(z3.And(ok, 0 <= j, j <= sh.len(l)),
                                                         z3.Select(sh.arr(r), j) == z3.If(j < a, z3.Select(sh.arr(l), j),
                                                                                          z3.If(j == a, x, z3.Select(sh.arr(l), j - 1)))),
                                 patterns=[z3.Select(sh.arr(r), j)]))
        elif name == 'ldel':
            r = f(l, a)
            ok = z3.And(0 <= a, a < sh.len(l))
            out.append(z3.ForAll([l, a], z3.Implies(ok, sh.len(r) == sh.len(l) - 1), patterns=[f(l, a)]))
            out.append(z3.ForAll([l, a, j], z3.Implies(z3.And(ok, 0 <= j, j < sh.len(l) - 1),
                                                      z3.Select(sh.arr(r), j) == z3.If(j < a, z3.Select(sh.arr(l), j), z3.Select(sh.arr(l), j + 1))),
                                 patterns=[z3.Select(sh.arr(r), j)]))
        elif name == 'lsplice':
            r = f(l, a, m)
            ok = z3.And(0 <= a, a <= sh.len(l), sh.len(m) >= 0)
            out.append(z3.ForAll([l, a, m], z3.Implies(ok, sh.len(r) == sh.len(l) + sh.len(m)), patterns=[f(l, a, m)]))
            out.append(z3.ForAll([l, a, m, j], z3.Implies(z3.And(ok, 0 <= j, j < sh.len(l) + sh.len(m)),
                                                         z3.Select(sh.arr(r), j) == z3.If(j < a, z3.Select(sh.arr(l), j),
                                                                                          z3.If(j < a + sh.len(m), z3.Select(sh.arr(m), j - a),
                                                                                                z3.Select(sh.arr(l), j - sh.len(m))))),
                                 patterns=[z3.Select(sh.arr(r), j)]))
        elif name == 'lcat':
            r = f(l, m)
            ok = z3.And(sh.len(l) >= 0, sh.len(m) >= 0)
            out.append(z3.ForAll([l, m], z3.Implies(ok, sh.len(r) == sh.len(l) + sh.len(m)), patterns=[f(l, m)]))
            out.append(z3.ForAll([l, m, j], z3.Implies(z3.And(ok, 0 <= j, j < sh.len(l) + sh.len(m)),
                                                      z3.Select(sh.arr(r), j) == z3.If(j < sh.len(l), z3.Select(sh.arr(l), j),
                                                                                       z3.Select(sh.arr(m), j - sh.len(l)))),
                                 patterns=[z3.Select(sh.arr(r), j)]))
    return out


_list_shapes = {}
_orig_list_fn = list_fn


def list_fn(name, list_shape, extra_sorts):   # noqa: F811
    _list_shapes[list_shape.key()] = list_shape
    return _orig_list_fn(name, list_shape, extra_sorts)


_list_contains = {}


def list_contains(list_shape):
    """x in xs, with a witness index function so that both polarities are usable."""
    k = list_shape.key()
    if k not in _list_contains:
        c = z3.Function('lcontains_' + _san(k), list_shape.sort(), list_shape.elem.sort(), BoolS)
        w = z3.Function('lwitness_' + _san(k), list_shape.sort(), list_shape.elem.sort(), IntS)
        _list_contains[k] = (c, w, list_shape)
    return _list_contains[k][0]


def contains_axioms():
    out = []
    for k, (c, w, sh) in _list_contains.items():
        l = z3.Const('l!lc', sh.sort())
        x = z3.Const('x!lc', sh.elem.sort())
        j = z3.Int('j!lc')
        out.append(z3.ForAll([l, x], z3.Implies(c(l, x), z3.And(0 <= w(l, x), w(l, x) < sh.len(l),
                                                               z3.Select(sh.arr(l), w(l, x)) == x)), patterns=[c(l, x)]))
        out.append(z3.ForAll([l, x, j], z3.Implies(z3.And(0 <= j, j < sh.len(l), z3.Select(sh.arr(l), j) == x), c(l, x)),
                             patterns=[z3.MultiPattern(c(l, x), z3.Select(sh.arr(l), j))]))
    return out
