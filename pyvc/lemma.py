"""pyvc.lemma -- lemma schemas: proved once on fresh constants, instantiated by hand where used.

A schema is  forall params. hyps(params) => concl(params).  With induction='k' the proof
obligations are the base case (k = 0) and the step (statement at k as an extra premise,
proved at k + 1); nothing is left to the solver's imagination (DESIGN.md 3.5).
"""
import z3

from .runner import Lemma
from .engine import fresh_name


class Schema:
    def __init__(self, name, params, stmt, induction=None, doc='', uses=None):
        """params: list of (name, sort); stmt(*terms) -> (hyps:list, concl:Bool);
        uses(*terms) -> list of extra premises (instances of other, separately proved schemas)."""
        self.name = name
        self.params = params
        self.stmt = stmt
        self.induction = induction
        self.doc = doc
        self.uses = uses

    def consts(self):
        return [z3.Const(fresh_name(self.name + '.' + n), s) for n, s in self.params]

    def inst(self, *terms):
        hyps, concl = self.stmt(*terms)
        return z3.Implies(z3.And(hyps) if hyps else z3.BoolVal(True), concl)

    def lemmas(self):
        cs = self.consts()
        out = []
        if self.induction is None:
            hyps, concl = self.stmt(*cs)
            extra = self.uses(*cs) if self.uses else []
            out.append(Lemma(self.name, list(hyps) + list(extra), concl, self.doc))
            return out
        ki = [n for n, _ in self.params].index(self.induction)
        k = cs[ki]
        # base
        c0 = list(cs)
        c0[ki] = z3.IntVal(0)
        hyps, concl = self.stmt(*c0)
        extra = self.uses(*c0) if self.uses else []
        out.append(Lemma(self.name + '.base', list(hyps) + list(extra), concl, self.doc))
        # step
        c1 = list(cs)
        c1[ki] = k + 1
        hyps1, concl1 = self.stmt(*c1)
        ih = self.inst(*cs)
        extra = self.uses(*c1) if self.uses else []
        out.append(Lemma(self.name + '.step', [k >= 0, ih] + list(hyps1) + list(extra), concl1, self.doc))
        return out
