"""pyvc.calls -- call dispatch: builtins, value methods, and callee contracts (modular)."""
import ast

import z3

from . import theory as T
from .engine import (ZV, PNone, PTuple, PList, PRec, PObj, PFun, PModule, Unsupported, Contract, Ctx, VC,
                     fresh, RaisePath, NeedChoice, zint, zbool, zstr, simp, ObjShape, FunShape, wf_vals)
from .theory import TInt, TBool, TF, TStr, TList, TTuple, TRec, TOpt, TDict


def call(eng, e, st, stmt):
    fc = eng.cur
    fc.cur_line = e.lineno
    f = e.func
    # print(..., file=sys.stderr) and friends are recorded, not executed
    if isinstance(f, ast.Name) and f.id == 'print':
        return _print(eng, e, st)
    fv = eng.eval(f, st)
    if not isinstance(fv, PFun):
        raise Unsupported('%s: call of a non-function value at line %d' % (fc.qualname, e.lineno))
    if e.keywords and any(k.arg is None for k in e.keywords):
        raise Unsupported('**kwargs call')
    args = [eng.eval(a, st) for a in e.args]
    kwargs = {k.arg: eng.eval(k.value, st) for k in e.keywords}
    kind = fv.kind
    if kind == 'builtin':
        kw_guard(eng, fv.payload, kwargs, e)
        return eng.builtins[fv.payload](eng, e, st, args, kwargs)
    if kind == 'modattr':
        name = '%s.%s' % fv.payload
        if name in eng.builtins:
            kw_guard(eng, name, kwargs, e)
            return eng.builtins[name](eng, e, st, args, kwargs)
        q = '%s:%s' % fv.payload
        if q in Contract.registry:
            return apply_contract(eng, Contract.registry[q], None, args, kwargs, e, st)
        raise Unsupported('%s: call to %s (line %d) has no contract' % (fc.qualname, name, e.lineno))
    if kind == 'global':
        imp = fv.payload
        q = '%s:%s' % (imp[1], imp[2])
        if q in eng.builtins:
            kw_guard(eng, q, kwargs, e)
            return eng.builtins[q](eng, e, st, args, kwargs)
        if q in Contract.registry:
            return apply_contract(eng, Contract.registry[q], None, args, kwargs, e, st)
        q2 = q + '.__init__'
        if q2 in Contract.registry:
            return apply_contract(eng, Contract.registry[q2], None, args, kwargs, e, st, ctor=q)
        if imp[0] == 'class' or _is_class(eng, imp[1], imp[2]):
            return inline_ctor(eng, q, args, kwargs, e, st)
        if q in eng.inline_ok:
            return inline_function(eng, q, args, kwargs, e, st)
        raise Unsupported('%s: call to %s (line %d) has no contract' % (fc.qualname, q, e.lineno))
    if kind == 'method':
        obj, name, objexpr = fv.payload
        q = '%s.%s' % (obj.cls, name)
        if q in eng.builtins:
            kw_guard(eng, q, kwargs, e)
            return eng.builtins[q](eng, e, st, [obj] + args, kwargs)
        if q in Contract.registry:
            return apply_contract(eng, Contract.registry[q], (obj, objexpr), args, kwargs, e, st)
        raise Unsupported('%s: call to method %s (line %d) has no contract' % (fc.qualname, q, e.lineno))
    if kind == 'valmethod':
        val, name, valexpr = fv.payload
        key = 'method.' + name
        if key in eng.builtins:
            kw_guard(eng, key, kwargs, e)
            return eng.builtins[key](eng, e, st, val, valexpr, args, kwargs)
        raise Unsupported('%s: method .%s() on %r (line %d) is not modelled' % (fc.qualname, name, val, e.lineno))
    if kind == 'native':
        return fv.payload(eng, st, args, kwargs, e)
    raise Unsupported('call kind %s' % kind)


def _print(eng, e, st):
    fc = eng.cur
    to_stderr = False
    for k in e.keywords:
        if k.arg == 'file':
            to_stderr = ast.unparse(k.value) == 'sys.stderr'
            if not to_stderr:
                eng.stdout_events.append({'fn': fc.qualname, 'line': e.lineno, 'what': 'print(file=%s)' % ast.unparse(k.value)})
                fc.eng.log.append({'fn': fc.qualname, 'line': e.lineno, 'handled': 'print to non-stderr file: recorded'})
                return PNone()
    if to_stderr:
        eng.log.append({'fn': fc.qualname, 'line': e.lineno, 'handled': 'dropped: print(file=sys.stderr)'})
        return PNone()
    # a print to stdout: recorded as a stdout event and, if the function has a ghost
    # output stream, appended to it
    eng.stdout_events.append({'fn': fc.qualname, 'line': e.lineno, 'what': 'print'})
    h = eng.builtins.get('print.stdout')
    if h is not None:
        args = [eng.eval(a, st) for a in e.args]
        return h(eng, e, st, args, {})
    return PNone()


GHOST_READONLY = ('$quit', '$pw')     # ghost inputs that no function changes


def bind_args(con, selfpair, args, kwargs, e, eng):
    names = list(con.params)
    vals = {}
    pos = [n for n in names if n != 'self' and not n.startswith('$')]
    exprs = {}
    if 'self' in con.params:
        if selfpair is None:
            raise Unsupported('method contract %s called without a receiver' % con.qualname)
        vals['self'] = selfpair[0]
        exprs['self'] = selfpair[1]
    if len(args) > len(pos):
        raise Unsupported('too many positional arguments for %s' % con.qualname)
    for n, v, ex in zip(pos, args, e.args):
        vals[n] = v
        exprs[n] = ex
    for k in e.keywords:
        if k.arg not in con.params:
            raise Unsupported('keyword %s not in the contract of %s' % (k.arg, con.qualname))
        vals[k.arg] = kwargs[k.arg]
        exprs[k.arg] = k.value
    for n in pos:
        if n.startswith('$'):
            continue
        if n not in vals:
            d = getattr(con, 'defaults', {}).get(n)
            if d is None:
                raise Unsupported('argument %s of %s is not given and has no default in the contract' % (n, con.qualname))
            vals[n] = d() if callable(d) else d
    return vals, exprs


def coerce(v, shape, eng):
    """Bring an actual argument to the declared parameter shape (python aggregates stay)."""
    from .engine import box, unbox, shape_of
    if isinstance(shape, (ObjShape, FunShape)):
        return v
    if isinstance(v, PNone) and not isinstance(shape, TOpt):
        return v
    try:
        return unbox(box(v, shape), shape)
    except Unsupported:
        return v


# Keyword arguments a builtin model takes into account (or that cannot change the modelled result).  A keyword argument outside this map makes
# the call unsupported: a model that silently ignored `fallback=`, `maxsplit=` or `key=` would verify code it does not describe.
KW_OK = {
    'open': {'mode', 'encoding', 'errors', 'newline'}, 'codecs.open': {'mode', 'encoding', 'errors'},
    'traceback.print_exc': {'file'}, 'threading.Thread': {'target', 'args', 'daemon', 'name'},
    'print': {'file', 'end', 'sep', 'flush'},
}
KW_ANY_PREFIX = ('argparse', 'argparse:')


def kw_guard(eng, name, kwargs, e):
    if not kwargs:
        return
    if name.startswith(KW_ANY_PREFIX) or name in getattr(eng, 'kw_any', ()):
        return
    extra = sorted(set(kwargs) - KW_OK.get(name, set()) - getattr(eng, 'kw_ok', {}).get(name, set()))
    if extra:
        raise Unsupported('%s(... %s=) at line %d: the model of this builtin does not take that keyword argument into account'
                          % (name, '=, '.join(extra), e.lineno))


_PLAIN_DECORATORS = ('staticmethod', 'classmethod')


def refuse_decorated(eng, qualname):
    """A contract (verified or trusted) describes the function body; a decorator (functools.lru_cache, a wrapper) changes what a call does,
    so a decorated callee is outside the subset.  Functions that cannot be located (library contracts) are not examined."""
    try:
        node, _info, _src = eng.src.function(qualname.split('#')[0])
    except Exception:
        return
    decs = [ast.unparse(d) for d in getattr(node, 'decorator_list', []) if ast.unparse(d) not in _PLAIN_DECORATORS]
    if decs:
        raise Unsupported('%s is decorated with %s: the contract describes the undecorated body' % (qualname, ', '.join('@' + d for d in decs)))


def apply_contract(eng, con, selfpair, args, kwargs, e, st, ctor=None):
    fc = eng.cur
    refuse_decorated(eng, con.qualname)
    if ctor is not None:
        # constructor: the contract of __init__ builds the object (self is its result)
        selfpair = None
        vals, exprs = bind_args(_NoSelf(con), None, args, kwargs, e, eng)
    else:
        vals, exprs = bind_args(con, selfpair, args, kwargs, e, eng)
    ghosts = [n for n in con.params if n.startswith('$')]
    ghosts_rw = [n for n in ghosts if n not in GHOST_READONLY]
    for gname in ghosts:
        if gname not in st.env:
            # ghost state the caller does not track: an arbitrary value (the caller states nothing about it)
            st.env[gname] = fresh(con.params[gname], gname)
        vals[gname] = st.env[gname]
    for n, shp in con.params.items():
        if n in vals:
            vals[n] = coerce(vals[n], shp, eng)
    c = Ctx(dict(vals), eng=eng)
    tag = '%s.call.L%d.%s' % (fc.short, e.lineno, con.qualname.partition(':')[2])
    if getattr(con, 'definitions', None) is not None:
        for b in con.definitions(c):
            st.assume(b)
    for nm, b in con.requires(c):
        eng.emit(VC('%s.pre.%s' % (tag, nm), st.pc, b, 'pre', fn=fc.qualname))
        st.assume(b)
    if con.qualname == fc.qualname and con.decreases is not None:
        m0 = con.decreases(fc.entry)
        m1 = con.decreases(c)
        eng.emit(VC('%s.decreases' % tag, st.pc, z3.And(m1 >= 0, m1 < m0), 'decr', fn=fc.qualname))
    elif con.qualname == fc.qualname:
        eng.assumed.add('termination of the recursion in %s is not verified (partial correctness)' % con.qualname)
    if con.trusted:
        eng.assumed.add(con.qualname)
    nopt = len(con.cases) + len(con.raises)
    k = st.choose(nopt) if nopt > 1 else 0
    if k >= len(con.cases):
        raise RaisePath(st, con.raises[k - len(con.cases)])
    case = con.cases[k]
    if case.when is not None:
        st.assume(case.when(c))
    res = case.make(c)
    if ctor is not None and isinstance(res, PNone):
        res = fresh(con.params['self'], 'new_' + ctor.rsplit('.', 1)[-1].rsplit(':', 1)[-1])
    after = {}
    for m in list(con.mutates) + ghosts_rw:
        after[m] = fresh(con.params[m], m + "'")
    for gname in ghosts:
        if gname in GHOST_READONLY:
            after[gname] = vals[gname]
    if 'self' in con.params and con.self_modifies and ctor is None:
        obj = vals['self']
        shp = con.params['self']
        for fld in con.self_modifies:
            obj = obj.with_field(fld, fresh(shp.fields[fld], 'self.' + fld + "'"))
        after['self'] = obj
    elif 'self' in con.params and ctor is None:
        after['self'] = vals['self']
    if ctor is not None:
        after['self'] = res
    for v in [res] + list(after.values()):
        if v is not None and not isinstance(v, PNone):
            for b in wf_vals(v):
                st.assume(b)
    c2 = Ctx(dict(vals), result=res, after=after, eng=eng)
    posts = case.post(c2)
    if posts is None:
        raise Unsupported('contract case %s of %s does not fit its own fresh result' % (case.name, con.qualname))
    for nm, b in posts:
        st.assume(b)
    if getattr(con, 'assumed_ensures', None) is not None:
        for nm, b in con.assumed_ensures(c2):
            st.assume(b)
            eng.assumed.add('assumed (unproved) postcondition %s.%s' % (con.qualname.partition(':')[2], nm))
    if getattr(con, 'call_hook', None) is not None:
        con.call_hook(eng, st, c2, e, exprs)
    # write back mutated objects into the caller's l-values
    for m in con.mutates:
        eng.assign(exprs[m], after[m], st)
    for gname in ghosts_rw:
        st.env[gname] = after[gname]
    if 'self' in con.params and con.self_modifies and ctor is None:
        eng.assign(exprs['self'], after['self'], st)
    return res


class _NoSelf:
    def __init__(self, con):
        self.qualname = con.qualname
        self.params = {k: v for k, v in con.params.items() if k != 'self'}
        self.defaults = getattr(con, 'defaults', {})


def inline_ctor(eng, q, args, kwargs, e, st):
    """Class without an __init__ contract: its __init__ is executed inline (it must be
    straight-line code); the text executed is the repository's, fingerprinted like any
    other function under contract."""
    from .engine import FnCtx, State
    try:
        node, info, src = eng.src.function(q + '.__init__')
    except Unsupported:
        raise Unsupported('%s: constructor %s has neither a contract nor an __init__' % (eng.cur.qualname, q))
    if info not in eng.functions:
        info['inlined'] = True
        eng.functions.append(info)
    formal = [a.arg for a in node.args.args]
    if node.args.vararg or node.args.kwarg or node.args.kwonlyargs or node.args.defaults or getattr(node.args, 'posonlyargs', None):
        raise Unsupported('inline constructor %s: argument binding (defaults / *args / keyword-only parameters)' % q)
    # positional arguments first, then keywords by name: every parameter bound exactly once (Python's rule for plain parameters)
    bound = dict(zip(formal[1:], args))
    if len(args) > len(formal) - 1 or any(k in bound or k not in formal[1:] for k in kwargs):
        raise Unsupported('inline constructor %s: argument binding' % q)
    bound.update(kwargs)
    if set(bound) != set(formal[1:]):
        raise Unsupported('inline constructor %s: argument binding (missing %s)' % (q, sorted(set(formal[1:]) - set(bound))))
    args = [bound[n] for n in formal[1:]]
    outer = eng.cur
    dummy = Contract.__new__(Contract)
    dummy.locals = {}
    dummy.loops = {}
    dummy.call_writes = {}
    dummy.params = {}
    dummy.volatile = {}
    inner = FnCtx(eng, dummy, node, q + '.__init__', src)
    inner.safe_n = outer.safe_n
    env = {'self': PObj(q, {})}
    for n, v in zip(formal[1:], args):
        env[n] = v
    sub = State(env, st.pc)
    eng.cur = inner
    try:
        outs = eng.exec_block(node.body, sub)
    finally:
        eng.cur = outer
        outer.safe_n = inner.safe_n
    if len(outs) != 1 or outs[0][0] != 'next':
        raise Unsupported('inline constructor %s is not straight-line' % q)
    st.pc = outs[0][1].pc
    return outs[0][1].env['self']


def _is_class(eng, modname, name):
    import ast as _ast
    try:
        path, src, tree = eng.src.module(modname)
    except (OSError, Unsupported):
        return False
    return any(isinstance(n, _ast.ClassDef) and n.name == name for n in tree.body)


def inline_function(eng, q, args, kwargs, e, st):
    """A helper listed in Engine.inline_ok (straight-line, no loops) is executed inline from its real source."""
    from .engine import FnCtx, State
    node, info, src = eng.src.function(q)
    if info not in eng.functions:
        info['inlined'] = True
        eng.functions.append(info)
    formal = [a.arg for a in node.args.args]
    if len(args) != len(formal) or kwargs:
        raise Unsupported('inline call %s: argument binding' % q)
    outer = eng.cur
    dummy = Contract.__new__(Contract)
    dummy.locals = {}
    dummy.loops = {}
    dummy.call_writes = {}
    dummy.params = {}
    dummy.volatile = {}
    inner = FnCtx(eng, dummy, node, q, src)
    inner.safe_n = outer.safe_n
    sub = State(dict(zip(formal, args)), st.pc)
    eng.cur = inner
    try:
        outs = eng.exec_block(node.body, sub)
    finally:
        eng.cur = outer
        outer.safe_n = inner.safe_n
    rets = [o for o in outs if o[0] in ('return', 'next')]
    if len(outs) != 1 or len(rets) != 1:
        raise Unsupported('inline call %s is not straight-line' % q)
    st.pc = rets[0][1].pc
    return rets[0][2] if rets[0][2] is not None else PNone()
