"""
pyvc.engine -- forward, path-splitting symbolic executor over the *real* source of /repo.

It reads a function's AST, executes it on symbolic values (z3 terms wrapped in shapes),
cuts loops at sidecar invariants, replaces calls by callee contracts and emits named
verification conditions.  See DESIGN.md section 3.  Unsupported constructs raise
Unsupported: the function is then reported as undecided, never silently skipped.
"""
import ast
import hashlib
import itertools
import os

import z3

from . import theory as T
from .theory import TInt, TBool, TF, TStr, TList, TTuple, TRec, TOpt, TDict, TBag


class Unsupported(Exception):
    pass


# =========================================================================== values
class Val:
    pass


class ZV(Val):
    """A z3 term with its shape. pyval: the concrete Python value when statically known."""

    def __init__(self, shape, term, pyval=None):
        self.shape = shape
        self.term = term
        self.pyval = pyval

    def __repr__(self):
        return 'ZV(%s,%s)' % (self.shape, self.term)


class PNone(Val):
    def __repr__(self):
        return 'PNone'


class PTuple(Val):
    def __init__(self, items):
        self.items = list(items)

    def __repr__(self):
        return 'PTuple(%r)' % (self.items,)


class PList(Val):
    """A list whose length is statically known (literal lists, straight-line appends)."""

    def __init__(self, items, shape=None):
        self.items = list(items)
        self.elem_shape = shape

    def __repr__(self):
        return 'PList(%r)' % (self.items,)


class PRec(Val):
    def __init__(self, fields):
        self.fields = dict(fields)

    def __repr__(self):
        return 'PRec(%r)' % (self.fields,)


class PObj(Val):
    def __init__(self, cls, fields):
        self.cls = cls
        self.fields = dict(fields)

    def with_field(self, k, v):
        f = dict(self.fields)
        f[k] = v
        return PObj(self.cls, f)

    def __repr__(self):
        return 'PObj(%s,%r)' % (self.cls, sorted(self.fields))


class PFun(Val):
    """A callable value: ('method', obj_expr_src, name) or ('spec', callable)."""

    def __init__(self, kind, payload):
        self.kind = kind
        self.payload = payload


class PModule(Val):
    def __init__(self, name):
        self.name = name


_fresh = itertools.count()


def fresh_name(hint):
    hint = ''.join(ch if (ch.isalnum() or ch in '._!@') else '_' for ch in hint)
    return '%s!%d' % (hint, next(_fresh))


def fresh(shape, hint='v'):
    """A fresh symbolic value of a shape (python-level aggregates are built component-wise)."""
    if isinstance(shape, FunShape):
        return PFun('native', shape.handler)
    if isinstance(shape, ObjShape):
        return PObj(shape.cls, {k: fresh(s, hint + '.' + k) for k, s in shape.fields.items()})
    if isinstance(shape, TTuple):
        return PTuple([fresh(s, '%s.%d' % (hint, i)) for i, s in enumerate(shape.elems)])
    if isinstance(shape, TRec):
        return PRec({k: fresh(shape.fields[k], hint + '.' + k) for k in shape.names})
    return ZV(shape, z3.Const(fresh_name(hint), shape.sort()))


class FunShape(T.Shape):
    """A callable parameter: handler(eng, st, args, kwargs, node) -> Val implements its spec."""

    def __init__(self, handler, name='callback'):
        self.handler = handler
        self.name = name

    def key(self):
        return 'fun:%s' % self.name


class ObjShape(T.Shape):
    """A Python object with named fields (only python-level; boxes as a record)."""

    def __init__(self, cls, fields):
        self.cls = cls
        self.fields = dict(fields)

    def key(self):
        return 'obj:%s{%s}' % (self.cls, ','.join('%s:%s' % (k, self.fields[k].key()) for k in sorted(self.fields)))

    def rec(self):
        return TRec(self.fields)

    def sort(self):
        return self.rec().sort()


def shape_of(v):
    if isinstance(v, ZV):
        return v.shape
    if isinstance(v, PTuple):
        return TTuple([shape_of(x) for x in v.items])
    if isinstance(v, PRec):
        return TRec({k: shape_of(x) for k, x in v.fields.items()})
    if isinstance(v, PObj):
        return ObjShape(v.cls, {k: shape_of(x) for k, x in v.fields.items()})
    if isinstance(v, PList):
        if v.elem_shape is not None:
            return TList(v.elem_shape)
        if v.items:
            return TList(shape_of(v.items[0]))
        raise Unsupported('shape of an empty list literal is unknown; declare it in the contract')
    if isinstance(v, PNone):
        raise Unsupported('shape of None needs context')
    raise Unsupported('shape_of %r' % (v,))


_empty_arr = {}


def empty_arr(elem_shape):
    """Canonical array under an empty list: the constant array of a per-sort default."""
    k = elem_shape.key()
    if k not in _empty_arr:
        _empty_arr[k] = z3.Const('emptyarr_' + T._san(k), z3.ArraySort(T.IntS, elem_shape.sort()))
    return _empty_arr[k]


def empty_list(shape):
    return shape.mk(z3.IntVal(0), empty_arr(shape.elem))


def wf_vals(v):
    """implicit well-formedness of a fresh value: top-level list lengths are >= 0."""
    out = []
    if isinstance(v, ZV):
        if isinstance(v.shape, TList):
            out.append(v.shape.len(v.term) >= 0)
        elif isinstance(v.shape, (TTuple, TRec)):
            out.extend(wf_vals(unbox(v.term, v.shape)))
        elif v.shape == TStr:
            pass
    elif isinstance(v, (PTuple, PList)):
        for x in v.items:
            out.extend(wf_vals(x))
    elif isinstance(v, (PRec, PObj)):
        for x in v.fields.values():
            out.extend(wf_vals(x))
    return out


def box(v, shape):
    """Python-level value -> z3 term of shape.sort()."""
    if isinstance(shape, ObjShape):
        if not isinstance(v, PObj):
            raise Unsupported('box: expected object of %s, got %r' % (shape.cls, v))
        r = shape.rec()
        return r.mk(**{k: box(v.fields[k], shape.fields[k]) for k in r.names})
    if isinstance(shape, TOpt):
        if isinstance(v, PNone):
            return shape.none()
        if isinstance(v, ZV) and v.shape == shape:
            return v.term
        return shape.some(box(v, shape.elem))
    if isinstance(v, ZV):
        if v.shape == shape:
            return v.term
        if v.shape == TInt and shape == TF:
            return int_to_f(v.term)
        if isinstance(v.shape, TOpt) and v.shape.elem == shape:
            return v.shape.val(v.term)
        raise Unsupported('box: %s where %s expected' % (v.shape, shape))
    if isinstance(shape, TTuple):
        if not isinstance(v, PTuple) or len(v.items) != len(shape.elems):
            raise Unsupported('box: tuple shape mismatch %r vs %s' % (v, shape))
        return shape.mk(*[box(x, s) for x, s in zip(v.items, shape.elems)])
    if isinstance(shape, TRec):
        if isinstance(v, PObj):
            v = PRec(v.fields)
        if not isinstance(v, PRec) or sorted(v.fields) != shape.names:
            raise Unsupported('box: record shape mismatch %r vs %s' % (v, shape))
        return shape.mk(**{k: box(v.fields[k], shape.fields[k]) for k in shape.names})
    if isinstance(shape, TDict) and isinstance(v, PRec) and not v.fields:
        from .builtins import empty_dict
        return empty_dict(shape)
    if isinstance(shape, TList):
        if isinstance(v, PList):
            arr = empty_arr(shape.elem)
            for i, x in enumerate(v.items):
                arr = z3.Store(arr, i, box(x, shape.elem))
            return shape.mk(z3.IntVal(len(v.items)), arr)
    raise Unsupported('box %r as %s' % (v, shape))


def unbox(term, shape):
    if isinstance(shape, ObjShape):
        r = shape.rec()
        return PObj(shape.cls, {k: unbox(r.get(term, k), shape.fields[k]) for k in r.names})
    if isinstance(shape, TTuple):
        return PTuple([unbox(shape.get(term, i), s) for i, s in enumerate(shape.elems)])
    if isinstance(shape, TRec):
        return PRec({k: unbox(shape.get(term, k), shape.fields[k]) for k in shape.names})
    return ZV(shape, term)


def int_to_f(t):
    if z3.is_int_value(t):
        if t.as_long() == 0:
            return T.F_ZERO
        if t.as_long() == 1:
            return T.F_ONE
    return T.int2f(t)


def zint(n):
    return ZV(TInt, z3.IntVal(n), n)


def zbool(b):
    return ZV(TBool, z3.BoolVal(b), b)


def zstr(s):
    return ZV(TStr, T.str_lit(s), s)


def simp(t):
    return z3.simplify(t)


# =========================================================================== contracts
class Ctx:
    """What a contract clause sees: entry values, result, final values, ghost access."""

    def __init__(self, args, result=None, after=None, eng=None):
        self.args = args              # name -> Val at entry
        self.result = result
        self.after = after or {}      # name -> Val at exit (for mutated params / self)
        self.eng = eng

    def __getattr__(self, k):
        if k in self.__dict__.get('args', {}):
            return self.args[k]
        raise AttributeError(k)


class Case:
    """One result case of a contract: how to make a fresh result and what holds of it."""

    def __init__(self, name, make, post, when=None):
        self.name = name
        self.make = make      # (ctx) -> Val   (fresh symbolic result for call sites)
        self.post = post      # (ctx) -> list[(name, z3 Bool)] or None if the result shape does not fit
        self.when = when      # optional (ctx) -> z3 Bool: case guard known from the entry state


class LoopSpec:
    def __init__(self, inv, fingerprint=None, shapes=None, unroll=False, extra_writes=(), hints=None, ghost_entry=None):
        self.ghost_entry = ghost_entry  # (eng, state): ghost assignments made just before the loop is entered
        self.hints = hints              # (L) -> instances of separately proved lemma schemas, assumed at the head
        self.inv = inv                  # (L) -> list[(name, z3 Bool)]
        self.fingerprint = fingerprint  # substring of the loop header source
        self.shapes = shapes or {}      # declared shapes for variables havocked at the head
        self.unroll = unroll
        self.extra_writes = extra_writes


class Contract:
    registry = {}

    def __init__(self, qualname, params, requires=None, cases=None, ensures=None, result=None,
                 mutates=(), loops=None, decreases=None, locals=None, trusted=False, raises=(),
                 self_modifies=None, note='', definitions=None):
        """
        qualname: 'pkg.module:Class.func'
        params:   ordered dict name -> Shape (ObjShape for self)
        requires: (ctx) -> list[(name, Bool)]
        ensures:  (ctx) -> list[(name, Bool)]   with result shape `result`
        cases:    alternative to ensures/result for functions with several result shapes
        mutates:  parameter names whose object is changed in place (ctx.after[name])
        self_modifies: for methods, the set of self fields that may change (None = none)
        raises:   exception names the function may let escape
        trusted:  contract assumed, body not verified (listed as an assumption)
        """
        self.qualname = qualname
        self.params = params
        self.requires = requires or (lambda c: [])
        if cases is None:
            ens = ensures or (lambda c: [])
            if result is None:
                cases = [Case('ret', lambda c: PNone(), ens)]
            else:
                cases = [Case('ret', lambda c, _r=result: fresh(_r, 'res'), ens)]
        self.cases = cases
        self.mutates = tuple(mutates)
        self.loops = loops or {}
        self.decreases = decreases
        self.locals = locals or {}
        self.trusted = trusted
        self.raises = tuple(raises)
        self.self_modifies = self_modifies
        self.note = note
        self.call_writes = {}
        self.call_hook = None
        self.volatile = {}        # field name -> reader(eng, st, obj): fields written by another thread
        self.variants = None      # list of {param: Shape | PNone()} overrides; verified once per variant
        self.definitions = None       # (ctx) -> definitional axioms of spec functions for the actual arguments (assumed, both sides)
        self.ghost_after = {}         # source text of a simple statement -> ghost update (eng, state) run after it
        self.assumed_ensures = None   # (ctx) -> clauses assumed at call sites but NOT proved of the body (listed as assumptions)
        self.post_hints = None    # (ctx) -> extra premises (instances of separately proved lemmas)
        self.defaults = {}
        self.slice = None         # (first, last): verify only a contiguous run of top-level statements (see Engine._verify)
        Contract.registry[qualname] = self


class VC:
    def __init__(self, name, hyps, goal, kind, where='', fn=''):
        self.name = name
        self.hyps = list(hyps)
        self.goal = goal
        self.kind = kind      # 'post' | 'pre' | 'inv' | 'safe' | 'decr' | 'frame' | 'lemma'
        self.where = where
        self.fn = fn


class AliasPath:
    """name is a reference to root.step.step... (indices evaluated when the alias was made)."""

    def __init__(self, root, steps):
        self.root = root
        self.steps = list(steps)     # ('attr', name) | ('item', Val)


def is_mutable_val(v):
    if isinstance(v, (PList, PRec, PObj)):
        return True
    if isinstance(v, ZV):
        return _shape_mutable(v.shape)
    return False


def _shape_mutable(sh):
    if isinstance(sh, (TList, TDict, TBag, TRec)):
        return True
    if isinstance(sh, TOpt):
        return _shape_mutable(sh.elem)
    return False


class NeedChoice(Exception):
    def __init__(self, n):
        self.n = n


class State:
    def __init__(self, env=None, pc=None):
        self.env = env if env is not None else {}
        self.pc = pc if pc is not None else []
        self.choices = []
        self.choice_pos = 0
        self.alias = {}       # name -> AliasPath: the name is a view into a mutable container

    def fork(self):
        s = State(dict(self.env), list(self.pc))
        s.alias = dict(self.alias)
        return s

    def choose(self, n):
        """Non-deterministic choice inside an expression (contract cases): the enclosing
        statement is re-executed once per alternative (see Engine.exec_stmt)."""
        if self.choice_pos < len(self.choices):
            k = self.choices[self.choice_pos]
            self.choice_pos += 1
            return k
        raise NeedChoice(n)

    def assume(self, b):
        self.pc.append(b)


# =========================================================================== source access
class Source:
    """Extracts a function from the repository on every run and fingerprints it."""

    def __init__(self, repo):
        self.repo = repo
        self.modules = {}

    def module(self, modname):
        if modname not in self.modules:
            path = os.path.join(self.repo, *modname.split('.')) + '.py'
            with open(path, encoding='utf-8') as fh:
                src = fh.read()
            self.modules[modname] = (path, src, ast.parse(src))
        return self.modules[modname]

    def function(self, qualname):
        modname, _, fq = qualname.partition(':')
        path, src, tree = self.module(modname)
        node = tree
        for part in fq.split('.'):
            found = None
            for ch in node.body:
                if isinstance(ch, (ast.FunctionDef, ast.ClassDef)) and ch.name == part:
                    found = ch
            if found is None:
                raise Unsupported('function %s not found in %s' % (fq, path))
            node = found
        seg = ast.get_source_segment(src, node)
        return node, {'file': os.path.relpath(path, self.repo), 'qualname': fq,
                      'lines': [node.lineno, node.end_lineno],
                      'sha256': hashlib.sha256(seg.encode('utf-8')).hexdigest()}, src

    def imports(self, modname):
        """name -> ('module', dotted) | ('func', dotted module, name)"""
        path, src, tree = self.module(modname)
        pkg = modname.rsplit('.', 1)[0] if '.' in modname else ''
        out = {}
        for n in tree.body:
            if isinstance(n, ast.Import):
                for a in n.names:
                    out[a.asname or a.name] = ('module', a.name)
            elif isinstance(n, ast.ImportFrom):
                base = n.module or ''
                if n.level:
                    parts = modname.split('.')[:-n.level]
                    base = '.'.join(parts + ([n.module] if n.module else []))
                for a in n.names:
                    out[a.asname or a.name] = ('func', base, a.name)
            elif isinstance(n, ast.FunctionDef):
                out[n.name] = ('func', modname, n.name)
            elif isinstance(n, ast.ClassDef):
                out[n.name] = ('class', modname, n.name)
        return out


# =========================================================================== engine
class Engine:
    def __init__(self, repo='/repo'):
        self.src = Source(repo)
        self.vcs = []
        self.log = []           # translation log
        self.functions = []     # fingerprints of the functions under contract
        self.builtins = {}
        self.reach = {}         # fn -> list of pcs of normal exits (for vacuity probes)
        self.reach_lines = {}   # fn -> return line of each of those exits
        self.assumed = set()    # trusted contracts used at call sites
        self.builtin_writes = {'print': ['$out'], 'yield': ['$yielded']}
        self.inline_ok = set()   # qualnames of straight-line helpers executed inline   # ghost variables a builtin updates (for loop write sets)
        self.stdout_events = []
        from . import builtins as B
        B.install(self)

    # ------------------------------------------------------------------ driving
    def verify(self, qualname):
        """Generate all VCs for one function under its contract."""
        con = Contract.registry[qualname]
        if con.variants:
            info = None
            for vi, var in enumerate(con.variants):
                info = self._verify(qualname, con, var, '.v%d' % vi)
            return info
        return self._verify(qualname, con, {}, '')

    def _verify(self, qualname, con, variant, vtag):
        node, info, src = self.src.function(qualname.split('#')[0])     # 'q#tag': a second contract for the same function
        decs = [ast.unparse(d) for d in getattr(node, 'decorator_list', []) if ast.unparse(d) not in ('staticmethod', 'classmethod')]
        if decs:
            raise Unsupported('%s is decorated with %s: the verified text would be the undecorated body, not what a call runs'
                              % (qualname, ', '.join('@' + d for d in decs)))
        if getattr(con, 'slice', None) is not None:
            # statement slice: the contiguous top-level statements of the function body from the one whose first line contains
            # slice[0] up to (and including) the one whose first line contains slice[1]; the free variables are the contract's
            # parameters.  Everything before and after the slice is dropped (stated in the evidence file).
            first, last = con.slice
            heads = [ast.get_source_segment(src, st_).split('\n')[0] for st_ in node.body]
            i0 = [i for i, h in enumerate(heads) if first in h]
            # last: header text of the final statement, or an int n = "the n statements starting at `first`"
            i1 = [i0[0] + last - 1] if (isinstance(last, int) and len(i0) == 1) else [i for i, h in enumerate(heads) if not isinstance(last, int) and last in h]
            if len(i0) != 1 or len(i1) != 1 or i1[0] < i0[0] or i1[0] >= len(node.body):
                raise Unsupported('%s: statement slice %r .. %r not found exactly once among the top-level statements' % (qualname, first, last))
            body = node.body[i0[0]:i1[0] + 1]
            params = [p_ for p_ in con.params if not p_.startswith('$')]
            fn2 = ast.FunctionDef(name=node.name, args=ast.arguments(posonlyargs=[], args=[ast.arg(arg=p_) for p_ in params], kwonlyargs=[],
                                                                     kw_defaults=[], defaults=[]), body=body, decorator_list=[])
            fn2.lineno, fn2.end_lineno, fn2.col_offset = body[0].lineno, body[-1].end_lineno, node.col_offset
            info = dict(info)
            info['qualname'] = info['qualname'] + ' [statements at lines %d-%d]' % (body[0].lineno, body[-1].end_lineno)
            info['lines'] = [body[0].lineno, body[-1].end_lineno]
            seg = '\n'.join(src.split('\n')[body[0].lineno - 1:body[-1].end_lineno])
            info['sha256'] = hashlib.sha256(seg.encode('utf-8')).hexdigest()
            self.assumed.add('%s: only the statements at lines %d-%d are verified (mechanically extracted slice); the rest of the function is not under this contract'
                             % (qualname, body[0].lineno, body[-1].end_lineno))
            node = fn2
        if info not in self.functions:
            self.functions.append(info)
        self.cur = FnCtx(self, con, node, qualname, src)
        self.cur.short = self.cur.short + vtag
        fc = self.cur
        st = State()
        args = {}
        for name, shp in con.params.items():
            if name in variant:
                ov = variant[name]
                args[name] = ov if isinstance(ov, Val) else fresh(ov, name)
                continue
            args[name] = fresh(shp, name)
        formal = [a.arg for a in node.args.args]
        if node.args.kwonlyargs or node.args.vararg or node.args.kwarg:
            raise Unsupported('%s: *args/**kwargs/keyword-only parameters' % qualname)
        for name in formal:
            if name not in args:
                # parameter with a default not mentioned in the contract: bind its default
                d = self._default_of(node, name)
                if d is None:
                    raise Unsupported('%s: parameter %s has no shape in the contract' % (qualname, name))
                args[name] = d
        for name in args:
            st.env[name] = args[name]
            for b in wf_vals(args[name]):
                st.assume(b)
        fc.entry = Ctx(dict(args), eng=self)
        nreq = 0
        if con.definitions is not None:
            for b in con.definitions(fc.entry):
                st.assume(b)
        for nm, b in con.requires(fc.entry):
            st.assume(b)
            nreq += 1
        fc.requires_pc = list(st.pc)
        self._param_frame(fc, node, con, args)
        outs = self.exec_block(node.body, st)
        exits = 0
        for kind, s, payload in outs:
            if kind in ('next', 'return'):
                exits += 1
                res = payload if kind == 'return' and payload is not None else PNone()
                self._check_post(fc, s, res)
            elif kind == 'raise':
                if payload in con.raises or '*' in con.raises:
                    continue
                self.emit(VC('%s.noraise.%s' % (fc.short, payload), s.pc, z3.BoolVal(False), 'safe',
                             where='raise %s' % payload, fn=qualname))
            else:
                raise Unsupported('%s: stray %s' % (qualname, kind))
        info['normal_exits'] = exits
        return info

    MUTATORS = ('append', 'extend', 'insert', 'pop', 'remove', 'clear', 'update', 'sort', 'reverse', 'popitem', 'setdefault',
                'add', 'discard', 'set', 'remove_option', 'subtract')

    def _param_frame(self, fc, node, con, args):
        """Frame of the parameters: a parameter holding a mutable value that the contract does not list under `mutates` must not be
        updated in place (callers reason with the contract and assume their argument unchanged).  Decided on the AST of the body:
        item/attribute/slice stores and deletes, augmented stores, mutator method calls and heapq operations whose root is the parameter,
        and passing it to a callee whose contract mutates that argument.  A parameter that is also re-bound by a plain assignment is
        not decided here (recorded as an assumption)."""
        def root_of(t):
            cur = t
            steps = 0
            while isinstance(cur, (ast.Subscript, ast.Attribute, ast.Starred)):
                cur = cur.value
                steps += 1
            return (cur.id, steps) if isinstance(cur, ast.Name) else (None, 0)

        cand = [n for n, v in args.items() if n != 'self' and not n.startswith('$') and n not in con.mutates
                and (is_mutable_val(v) or isinstance(v, PObj))]
        if not cand:
            return
        sites = {n: [] for n in cand}
        rebound = set()

        def store(t, line):
            if isinstance(t, (ast.Tuple, ast.List)):
                for e in t.elts:
                    store(e, line)
                return
            r, steps = root_of(t)
            if r in sites:
                if steps == 0:
                    rebound.add(r)
                else:
                    sites[r].append(line)

        nodes = []
        stack = list(node.body)
        while stack:
            n = stack.pop()
            if isinstance(n, (ast.FunctionDef, ast.AsyncFunctionDef, ast.Lambda, ast.ClassDef)):
                continue
            nodes.append(n)
            stack.extend(ast.iter_child_nodes(n))
        for n in nodes:
            if isinstance(n, ast.Assign):
                for t in n.targets:
                    store(t, n.lineno)
            elif isinstance(n, ast.AugAssign):
                r, steps = root_of(n.target)
                if r in sites:
                    if steps == 0 and not (is_mutable_val(args[r]) or isinstance(args[r], PObj)):
                        rebound.add(r)
                    else:
                        sites[r].append(n.lineno)       # x += [...] on a list updates it in place
            elif isinstance(n, ast.AnnAssign) and n.value is not None:
                store(n.target, n.lineno)
            elif isinstance(n, (ast.For, ast.AsyncFor)):
                store(n.target, n.lineno)
            elif isinstance(n, ast.withitem) and n.optional_vars is not None:
                store(n.optional_vars, getattr(n.optional_vars, 'lineno', 0))
            elif isinstance(n, ast.NamedExpr):
                store(n.target, n.lineno)
            elif isinstance(n, ast.Delete):
                for t in n.targets:
                    r, steps = root_of(t)
                    if r in sites and steps > 0:
                        sites[r].append(n.lineno)
            elif isinstance(n, ast.Call):
                f = n.func
                if isinstance(f, ast.Attribute) and f.attr in self.MUTATORS:
                    r, _ = root_of(f.value)
                    if r in sites:
                        sites[r].append(n.lineno)
                if isinstance(f, ast.Attribute) and ast.unparse(f) in ('heapq.heappush', 'heapq.heappop', 'heapq.heapify', 'random.shuffle') and n.args:
                    r, _ = root_of(n.args[0])
                    if r in sites:
                        sites[r].append(n.lineno)
                q = fc.resolve_call_name(n)
                c2 = Contract.registry.get(q) if q else None
                if c2 is not None and c2.mutates:
                    pn = [p for p in c2.params if p != 'self' and not p.startswith('$')]
                    for pi, a in enumerate(n.args):
                        if pi < len(pn) and pn[pi] in c2.mutates:
                            r, _ = root_of(a)
                            if r in sites:
                                sites[r].append(n.lineno)
                    for k in n.keywords:
                        if k.arg in c2.mutates:
                            r, _ = root_of(k.value)
                            if r in sites:
                                sites[r].append(n.lineno)
        for nme in cand:
            if nme in rebound:
                if sites[nme]:
                    self.assumed.add('%s: parameter %s is re-bound and later updated; that the update does not reach the caller\'s object is not checked'
                                     % (fc.qualname, nme))
                continue
            ok = not sites[nme]
            self.emit(VC('%s.frame.param.%s' % (fc.short, nme), [], z3.BoolVal(ok), 'frame',
                         where='' if ok else 'parameter %s is updated in place at line(s) %s but the contract does not list it under mutates'
                         % (nme, sorted(set(sites[nme]))), fn=fc.qualname))

    def _default_of(self, node, name):
        args = node.args.args
        defaults = node.args.defaults
        off = len(args) - len(defaults)
        for i, a in enumerate(args):
            if a.arg == name and i >= off:
                d = defaults[i - off]
                if isinstance(d, ast.Constant):
                    return self.const(d.value)
        return None

    def _check_post(self, fc, st, res):
        con = fc.con
        after = {}
        for m in con.mutates:
            after[m] = st.env[m]
        for m in con.params:
            if m.startswith('$'):
                after[m] = st.env[m]
        if 'self' in con.params:
            after['self'] = st.env['self']
        c = Ctx(fc.entry.args, result=res, after=after, eng=self)
        rk = fc.qualname + (fc.short[len(fc.qualname.partition(':')[2]):])
        self.reach.setdefault(rk, []).append(list(st.pc))
        self.reach_lines.setdefault(rk, []).append(getattr(st, 'ret_line', 'end'))
        hints = list(con.post_hints(c)) if con.post_hints else []
        if hints:
            st = st.fork()
            for h in hints:
                st.assume(h)
        fits = []
        for case in con.cases:
            try:
                p = case.post(c)
            except ShapeMismatch:
                p = None
            if p is not None:
                fits.append((case, p))
        tag = 'L%s' % getattr(st, 'ret_line', 'end')
        if not fits:
            self.emit(VC('%s.post.%s.shape' % (fc.short, tag), st.pc, z3.BoolVal(False), 'post',
                         where='no contract case fits the returned value %r' % (res,), fn=fc.qualname))
        elif len(fits) == 1:
            for nm, b in fits[0][1]:
                self.emit(VC('%s.post.%s.%s' % (fc.short, nm, tag), st.pc, b, 'post', fn=fc.qualname))
        else:
            disj = z3.Or([z3.And([b for _, b in p] + [z3.BoolVal(True)]) for _, p in fits])
            self.emit(VC('%s.post.cases.%s' % (fc.short, tag), st.pc, disj, 'post', fn=fc.qualname))
        # frame: self fields outside self_modifies are unchanged
        if 'self' in con.params and isinstance(fc.entry.args['self'], PObj):
            mod = set(con.self_modifies or ())
            before = fc.entry.args['self']
            aft = st.env['self']
            for k, v0 in before.fields.items():
                if k in mod:
                    continue
                v1 = aft.fields.get(k)
                if v1 is v0:
                    continue
                eq = self.same(v0, v1)
                if eq is not True:
                    self.emit(VC('%s.frame.self.%s.%s' % (fc.short, k, tag), st.pc, eq, 'frame', fn=fc.qualname))

    def same(self, a, b):
        """structural equality as a z3 Bool (True when syntactically identical)."""
        if a is b:
            return True
        if isinstance(a, ZV) and isinstance(b, ZV):
            if a.term.eq(b.term):
                return True
            if a.shape == b.shape:
                return a.term == b.term
            return z3.BoolVal(False)
        if isinstance(a, PNone) and isinstance(b, PNone):
            return True
        if type(a) is not type(b):
            try:
                sh = shape_of(a) if not isinstance(a, PNone) else shape_of(b)
                return box(a, sh) == box(b, sh)
            except Unsupported:
                return z3.BoolVal(False)
        if isinstance(a, (PTuple, PList)):
            if len(a.items) != len(b.items):
                return z3.BoolVal(False)
            parts = [self.same(x, y) for x, y in zip(a.items, b.items)]
        elif isinstance(a, (PRec, PObj)):
            if sorted(a.fields) != sorted(b.fields):
                return z3.BoolVal(False)
            parts = [self.same(a.fields[k], b.fields[k]) for k in a.fields]
        else:
            return z3.BoolVal(False)
        parts = [p for p in parts if p is not True]
        if not parts:
            return True
        return z3.And(parts)

    def emit(self, vc):
        g = vc.goal
        if g is True:
            return
        if isinstance(g, bool):
            g = z3.BoolVal(g)
        vc.goal = g
        self.vcs.append(vc)

    # ------------------------------------------------------------------ statements
    def exec_block(self, stmts, st):
        live = [st]
        outs = []
        for s in stmts:
            nxt = []
            for cur in live:
                for kind, s2, payload in self.exec_stmt(s, cur):
                    if kind == 'next':
                        nxt.append(s2)
                    else:
                        outs.append((kind, s2, payload))
            live = nxt
            if not live:
                break
        for cur in live:
            outs.append(('next', cur, None))
        return outs

    def exec_stmt(self, s, st):
        fc = self.cur
        m = getattr(self, 'st_' + type(s).__name__, None)
        if m is None:
            raise Unsupported('%s: statement %s at line %d' % (fc.qualname, type(s).__name__, s.lineno))
        results = []
        work = [[]]
        while work:
            choices = work.pop()
            s0 = st.fork()
            s0.choices = list(choices)
            s0.choice_pos = 0
            mark = len(self.vcs)
            smark = fc.safe_n
            try:
                outs = m(s, s0)
            except NeedChoice as nc:
                del self.vcs[mark:]
                fc.safe_n = smark
                for k in reversed(range(nc.n)):
                    work.append(choices + [k])
                continue
            except RaisePath as rp:
                outs = [('raise', rp.state, rp.exc)]
            gh = getattr(fc.con, 'ghost_after', None)
            if gh and not isinstance(s, (ast.If, ast.For, ast.While, ast.Try, ast.With)):
                key = ast.unparse(s).strip()
                if key in gh:
                    for kind, s2, payload in outs:
                        if kind == 'next':
                            gh[key](self, s2)
            for kind, s2, payload in outs:
                s2.last_line = getattr(s, 'end_lineno', s.lineno)
            results.extend(outs)
        return results

    def st_Expr(self, s, st):
        if isinstance(s.value, ast.Constant):
            return [('next', st, None)]  # docstring
        if isinstance(s.value, ast.Yield):
            # generator: the yielded value is appended to the ghost output sequence $yielded
            v = self.eval(s.value.value, st)
            cur = st.env.get('$yielded')
            if cur is None:
                raise Unsupported('%s: yield without a ghost $yielded sequence in the contract' % self.cur.qualname)
            st.env['$yielded'] = self.list_append(cur, v, st)
            return [('next', st, None)]
        self.eval(s.value, st, stmt=True)
        return [('next', st, None)]

    def st_Pass(self, s, st):
        return [('next', st, None)]

    def st_Assign(self, s, st):
        v = self.eval(s.value, st)
        for tgt in s.targets:
            self.assign(tgt, v, st, rebind=True)
        # x = <access path>  of a mutable container: x is a view into it (reference semantics)
        if len(s.targets) == 1 and isinstance(s.targets[0], ast.Name) and is_mutable_val(v) \
                and s.targets[0].id not in self.cur.con.locals:
            ap = self.path_of_expr(s.value, st)
            if ap is not None and ap.steps:
                st.alias[s.targets[0].id] = ap
        # d[k] = x / o.f = x  with x a local holding a mutable container: afterwards x and the slot are the same object, so x becomes a
        # view into the slot (an in-place update through x is then an update of d[k], as in Python)
        if len(s.targets) == 1 and isinstance(s.targets[0], (ast.Subscript, ast.Attribute)) and isinstance(s.value, ast.Name) \
                and is_mutable_val(v) and isinstance(v, ZV) and s.value.id in st.env and s.value.id not in st.alias \
                and s.value.id not in self.cur.con.locals and not s.value.id.startswith('$'):
            ap = self.path_of_expr(s.targets[0], st)
            if ap is not None and ap.steps and ap.root != s.value.id:
                st.alias[s.value.id] = ap
        return [('next', st, None)]

    def path_of_expr(self, e, st):
        """AliasPath for Name / a.b / a[i] chains rooted at a local variable, else None."""
        steps = []
        cur = e
        while isinstance(cur, (ast.Attribute, ast.Subscript)):
            if isinstance(cur, ast.Attribute):
                steps.append(('attr', cur.attr))
            else:
                if isinstance(cur.slice, ast.Slice):
                    return None
                mark = len(self.vcs)
                k = self.eval(cur.slice, st)
                del self.vcs[mark:]
                steps.append(('item', k))
            cur = cur.value
        if not isinstance(cur, ast.Name) or cur.id not in st.env:
            return None
        steps.reverse()
        if cur.id in st.alias:
            base = st.alias[cur.id]
            return AliasPath(base.root, base.steps + steps)
        return AliasPath(cur.id, steps)

    def read_path(self, ap, st, node=None):
        v = st.env[ap.root]
        for kind, k in ap.steps:
            if kind == 'attr':
                v = v.fields[k]
            else:
                v = self.getitem(v, k, st, node, safe=False)
        return v

    def write_path(self, ap, newv, st, node=None):
        def rec(v, steps):
            if not steps:
                return newv
            kind, k = steps[0]
            if kind == 'attr':
                return v.with_field(k, rec(v.fields[k], steps[1:]))
            inner = self.getitem(v, k, st, node, safe=False)
            return self.setitem(v, k, rec(inner, steps[1:]), st, node) if node is not None else \
                self._setitem_nosafe(v, k, rec(inner, steps[1:]), st)
        st.env[ap.root] = rec(st.env[ap.root], ap.steps)

    def _setitem_nosafe(self, c, k, v, st):
        mark = len(self.vcs)
        n0 = self.cur.safe_n
        r = self.setitem(c, k, v, st, None)
        del self.vcs[mark:]
        self.cur.safe_n = n0
        return r

    def st_AugAssign(self, s, st):
        cur = self.eval(s.target, st)
        rhs = self.eval(s.value, st)
        v = self.binop(s.op, cur, rhs, st, s)
        self.assign(s.target, v, st, rebind=not is_mutable_val(cur))
        return [('next', st, None)]

    def st_Return(self, s, st):
        v = self.eval(s.value, st) if s.value is not None else None
        st.ret_line = s.lineno
        return [('return', st, v)]

    def st_Continue(self, s, st):
        return [('continue', st, None)]

    def st_Break(self, s, st):
        return [('break', st, None)]

    def st_Raise(self, s, st):
        name = 'Exception'
        if s.exc is not None:
            e = s.exc
            if isinstance(e, ast.Call):
                e = e.func
            if isinstance(e, ast.Name):
                name = e.id
            elif isinstance(e, ast.Attribute):
                name = ast.unparse(e)
        return [('raise', st, name)]

    def st_Delete(self, s, st):
        for tgt in s.targets:
            if isinstance(tgt, ast.Subscript) and not isinstance(tgt.slice, ast.Slice):
                c = self.eval(tgt.value, st)
                i = self.eval(tgt.slice, st)
                c2 = self.list_delete(c, i, st, tgt)
                self.assign(tgt.value, c2, st)
            else:
                raise Unsupported('del of %s' % ast.dump(tgt))
        return [('next', st, None)]

    def st_If(self, s, st):
        outs = []
        for cond, s2 in self.branch(s.test, st):
            body = s.body if cond else s.orelse
            outs.extend(self.exec_block(body, s2))
        return outs

    def branch(self, test, st):
        """Evaluate a condition and fork; returns [(True, state), (False, state)] minus dead arms."""
        b = self.truthy(self.eval(test, st), st)
        b = simp(b)
        res = []
        if z3.is_true(b):
            return [(True, st)]
        if z3.is_false(b):
            return [(False, st)]
        s_t = st.fork()
        s_t.assume(b)
        s_f = st
        s_f.assume(simp(z3.Not(b)))
        for flag, s2 in ((True, s_t), (False, s_f)):
            if self.feasible(s2):
                res.append((flag, s2))
        return res

    def feasible(self, st):
        sol = z3.Solver()
        sol.set('timeout', 150)
        sol.add(*st.pc)
        return sol.check() != z3.unsat

    def st_With(self, s, st):
        """with EXPR as NAME: body  -- the context manager's __exit__ is not modelled (files)."""
        for item in s.items:
            v = self.eval(item.context_expr, st)
            if item.optional_vars is not None:
                self.assign(item.optional_vars, v, st)
        return self.exec_block(s.body, st)

    def st_Try(self, s, st):
        if s.finalbody:
            raise Unsupported('try/finally')
        outs = []
        catches_key = any(h.type is None or ast.unparse(h.type) in ('KeyError', 'Exception', 'LookupError') for h in s.handlers)
        self.try_key_depth = getattr(self, 'try_key_depth', 0) + (1 if catches_key else 0)
        try:
            body_outs = self.exec_block(s.body, st)
        finally:
            self.try_key_depth -= (1 if catches_key else 0)
        for kind, s2, payload in body_outs:
            if kind != 'raise':
                if kind == 'next' and s.orelse:
                    outs.extend(self.exec_block(s.orelse, s2))
                else:
                    outs.append((kind, s2, payload))
                continue
            handled = False
            for h in s.handlers:
                names = []
                if h.type is None:
                    names = ['*']
                elif isinstance(h.type, ast.Name):
                    names = [h.type.id]
                elif isinstance(h.type, ast.Attribute):
                    names = [ast.unparse(h.type)]
                elif isinstance(h.type, ast.Tuple):
                    names = [ast.unparse(e) for e in h.type.elts]
                alias = {'IOError': 'OSError', 'EnvironmentError': 'OSError'}
                names = [alias.get(x, x) for x in names]
                if '*' in names or alias.get(payload, payload) in names or 'Exception' in names:
                    handled = True
                    if h.name:
                        s2.env[h.name] = PObj('builtins:exception', {'reason': fresh(TStr, 'exc_reason'), 'kind': zstr(str(payload))})
                    outs.extend(self.exec_block(h.body, s2))
                    break
            if not handled:
                outs.append((kind, s2, payload))
        return outs

    # ------------------------------------------------------------------ loops
    def st_For(self, s, st):
        fc = self.cur
        if s.orelse:
            raise Unsupported('for/else')
        spec = fc.loop_spec(s)
        it = s.iter
        mode = 'seq'
        idx_target = None
        val_target = s.target
        seq_expr = it
        rng = None
        if isinstance(it, ast.Call) and isinstance(it.func, ast.Name) and it.func.id == 'enumerate':
            seq_expr = it.args[0]
            if not (isinstance(s.target, ast.Tuple) and len(s.target.elts) == 2):
                raise Unsupported('enumerate target')
            idx_target, val_target = s.target.elts
        elif isinstance(it, ast.Call) and isinstance(it.func, ast.Name) and it.func.id == 'range':
            mode = 'range'
            a = [self.eval(x, st) for x in it.args]
            if len(a) == 1:
                rng = (z3.IntVal(0), self.as_int(a[0]))
            elif len(a) == 2:
                rng = (self.as_int(a[0]), self.as_int(a[1]))
            else:
                raise Unsupported('range with step')
            if spec is not None and spec.unroll:
                lo_s, hi_s = simp(rng[0]), simp(rng[1])
                if not (z3.is_int_value(lo_s) and z3.is_int_value(hi_s)):
                    raise Unsupported('unroll of a range with symbolic bounds')
                return self._for_unrolled(s, st, PList([zint(k) for k in range(lo_s.as_long(), hi_s.as_long())]), None, s.target)
        if mode == 'seq':
            seq = self.eval(seq_expr, st)
            if isinstance(seq, PObj) and seq.cls == 'builtins:file':
                if not isinstance(seq_expr, ast.Name):
                    raise Unsupported('iteration over a file that is not held in a local variable')
                if spec is None:
                    raise Unsupported('%s: loop at line %d has no invariant in the sidecar' % (fc.qualname, s.lineno))
                lines = seq.fields['lines']
                return self._loop_cut(s, st, spec, kind='for', seq=lines, lo=seq.fields['pos'].term,
                                      hi=lines.shape.len(lines.term), idx_target=None, val_target=s.target, mode='seq',
                                      seq_path=None, file_var=seq_expr.id)
            if isinstance(seq, PList) or (spec is not None and spec.unroll):
                return self._for_unrolled(s, st, seq, idx_target, val_target)
            lo = z3.IntVal(0)
            hi = self.length(seq, st)
        else:
            seq = None
            lo, hi = rng
        if spec is None:
            raise Unsupported('%s: loop at line %d has no invariant in the sidecar' % (fc.qualname, s.lineno))
        seq_path = self.path_of_expr(seq_expr, st) if mode == 'seq' else None
        return self._loop_cut(s, st, spec, kind='for', seq=seq, lo=lo, hi=hi, idx_target=idx_target,
                              val_target=val_target, mode=mode, seq_path=seq_path)

    def _for_unrolled(self, s, st, seq, idx_target, val_target):
        if not isinstance(seq, PList):
            raise Unsupported('unroll of a symbolic sequence')
        live = [st]
        outs = []
        for i, item in enumerate(seq.items):
            nxt = []
            for cur in live:
                self.assign(val_target, item, cur, rebind=True)
                if idx_target is not None:
                    self.assign(idx_target, zint(i), cur, rebind=True)
                for kind, s2, payload in self.exec_block(s.body, cur):
                    if kind in ('next', 'continue'):
                        nxt.append(s2)
                    elif kind == 'break':
                        outs.append(('next', s2, None))
                    else:
                        outs.append((kind, s2, payload))
            live = nxt
        for cur in live:
            outs.append(('next', cur, None))
        return outs

    def st_While(self, s, st):
        fc = self.cur
        if s.orelse:
            raise Unsupported('while/else')
        spec = fc.loop_spec(s)
        if spec is None:
            raise Unsupported('%s: loop at line %d has no invariant in the sidecar' % (fc.qualname, s.lineno))
        return self._loop_cut(s, st, spec, kind='while')

    def _written(self, body, st=None):
        """set of access paths (root, field, field, ...) written in body (over-approximation)."""
        res = set()

        def path_of(t):
            attrs = []
            cur = t
            while isinstance(cur, (ast.Subscript, ast.Attribute, ast.Starred)):
                if isinstance(cur, ast.Attribute):
                    attrs.append(cur.attr)
                else:
                    attrs = []          # a[i].x = ...  writes (an element of) a
                cur = cur.value
            if isinstance(cur, ast.Name):
                return (cur.id,) + tuple(reversed(attrs))
            return None

        def note(t):
            if isinstance(t, (ast.Tuple, ast.List)):
                for e in t.elts:
                    note(e)
                return
            p = path_of(t)
            if p is not None:
                res.add(p)

        def receiver_contract(call):
            q = self.cur.resolve_call_name(call)
            if q is not None and q in Contract.registry:
                return Contract.registry[q]
            f = call.func
            if isinstance(f, ast.Attribute) and st is not None:
                try:
                    probe = st.fork()
                    mark = len(self.vcs)
                    obj = self.eval(f.value, probe)
                    del self.vcs[mark:]
                except Exception:
                    return None
                if isinstance(obj, PObj):
                    return Contract.registry.get('%s.%s' % (obj.cls, f.attr))
            return None

        for n in self._nodes_reaching_back_edge(body):
            if isinstance(n, ast.Yield):
                res.add(('$yielded',))
            if isinstance(n, ast.Assign):
                for t in n.targets:
                    note(t)
            elif isinstance(n, (ast.AugAssign, ast.AnnAssign)):
                note(n.target)
            elif isinstance(n, ast.For):
                note(n.target)
            elif isinstance(n, ast.withitem) and n.optional_vars is not None:
                note(n.optional_vars)
            elif isinstance(n, ast.Delete):
                for t in n.targets:
                    note(t)
            elif isinstance(n, ast.Call):
                if isinstance(n.func, ast.Attribute) and n.func.attr in (
                        'append', 'extend', 'insert', 'pop', 'remove', 'clear', 'update', 'sort', 'set'):
                    note(n.func.value)
                if isinstance(n.func, ast.Attribute) and ast.unparse(n.func) in ('heapq.heappush', 'heapq.heappop') and n.args:
                    note(n.args[0])
                for g in self.builtin_writes.get(ast.unparse(n.func), ()):
                    if st is None or g in st.env:
                        res.add((g,))
                con = receiver_contract(n)
                if con is not None:
                    pnames = [p for p in con.params if p != 'self' and not p.startswith('$')]
                    for pi, p in enumerate(pnames):
                        if p in con.mutates and pi < len(n.args):
                            note(n.args[pi])
                    for k in n.keywords:
                        if k.arg in con.mutates:
                            note(k.value)
                    for p in con.params:
                        if p.startswith('$') and p not in ('$quit', '$pw'):
                            res.add((p,))
                    if 'self' in con.params and con.self_modifies and isinstance(n.func, ast.Attribute):
                        for fld in con.self_modifies:
                            note(ast.Attribute(value=n.func.value, attr=fld, ctx=ast.Load()))
                for h in self.cur.con.call_writes.get(getattr(n.func, 'attr', getattr(n.func, 'id', None)), ()):
                    if h.startswith('$'):
                        res.add((h,))
                    else:
                        note(ast.parse(h, mode='eval').body)
        return res

    def _nodes_reaching_back_edge(self, body):
        """AST nodes of a loop body that lie on some path to the loop's back edge (computed backwards: a simple
        statement counts iff control after it can still reach the back edge by falling off the body or a `continue`).
        Writes on paths that always end in return/raise/break need not be havocked at the loop head; the exit states
        of those paths carry their own values."""
        out = []

        def walk(stmts, reach_after, brk=False, cont=True):
            r = reach_after
            for st in reversed(stmts):
                if isinstance(st, (ast.Return, ast.Raise)):
                    r = False
                elif isinstance(st, ast.Break):
                    r = brk
                elif isinstance(st, ast.Continue):
                    r = cont
                elif isinstance(st, ast.If):
                    rb = walk(st.body, r, brk, cont)
                    ro = walk(st.orelse, r, brk, cont) if st.orelse else r
                    if rb or ro:
                        out.extend(ast.walk(st.test))
                    r = rb or ro
                elif isinstance(st, ast.With):
                    rb = walk(st.body, r, brk, cont)
                    if rb:
                        for it in st.items:
                            out.extend(ast.walk(it))
                    r = rb
                elif isinstance(st, (ast.For, ast.While)):
                    # nested loop: its statements reach the outer back edge only through the loop's exit (end of an
                    # iteration when the condition fails, `continue`, or `break`), all of which lead to `r`
                    rb = walk(st.body, r, brk=r, cont=r)
                    if rb or r:
                        out.extend(ast.walk(st.test) if isinstance(st, ast.While) else list(ast.walk(st.iter)) + list(ast.walk(st.target)))
                elif isinstance(st, ast.Try):
                    out.extend(ast.walk(st))      # try: conservative
                    r = True
                else:
                    if r:
                        out.extend(ast.walk(st))
            return r

        walk(body, True)
        return out

    def _havoc(self, st, writes, spec, tag):
        paths = sorted(writes, key=len)
        done = []
        for p in paths:
            if any(p[:len(d)] == d for d in done):
                continue
            done.append(p)
            root = p[0]
            if len(p) > 1 and root in st.env and isinstance(st.env[root], PObj):
                st.env[root] = self._havoc_path(st, st.env[root], p[1:], '%s@%s' % ('.'.join(p), tag))
                continue
            nm = root
            if nm in spec.shapes:
                st.env[nm] = fresh(spec.shapes[nm], nm + '@' + tag)
            elif nm in st.env:
                v = st.env[nm]
                try:
                    st.env[nm] = fresh(shape_of(v), nm + '@' + tag)
                except Unsupported:
                    # value without a shape before the loop (e.g. None/empty list): it must
                    # be declared, otherwise its use inside the loop is rejected
                    st.env[nm] = Undefined(nm)
                    continue
            else:
                continue   # first assigned inside the loop: undefined at the head
            for b in wf_vals(st.env[nm]):
                st.assume(b)

    def _havoc_path(self, st, obj, fields, hint):
        f = fields[0]
        if f not in obj.fields:
            return obj      # attribute created inside the loop
        cur = obj.fields[f]
        if len(fields) > 1 and isinstance(cur, PObj):
            return obj.with_field(f, self._havoc_path(st, cur, fields[1:], hint))
        try:
            nv = fresh(shape_of(cur), hint)
        except Unsupported:
            nv = Undefined(hint)
            return obj.with_field(f, nv)
        for b in wf_vals(nv):
            st.assume(b)
        return obj.with_field(f, nv)

    def _loop_cut(self, s, st, spec, kind, seq=None, lo=None, hi=None, idx_target=None, val_target=None, mode=None,
                  seq_path=None, file_var=None):
        fc = self.cur
        lid = fc.loop_id(s)
        if spec.ghost_entry is not None:
            spec.ghost_entry(self, st)
        pre_env = dict(st.env)
        writes = self._written(s.body, st)
        # a write through a view is a write to the container it views
        writes = {((st.alias[p[0]].root,) if p[0] in st.alias else p) for p in writes}
        if seq_path is not None and isinstance(val_target, ast.Name) and any(p[0] == val_target.id for p in writes):
            writes.add((seq_path.root,))
        if file_var is not None:
            writes.add((file_var, 'pos'))
        for w in spec.extra_writes:
            writes.add((w,))
        gi = None
        outs = []

        def invs(state, i):
            L = LoopCtx(state.env, pre_env, fc.entry, i, seq, self)
            L.alias = state.alias
            return spec.inv(L)

        # 1. invariant holds on entry
        if kind == 'for':
            for nm, b in invs(st, lo):
                self.emit(VC('%s.loop%s.entry.%s' % (fc.short, lid, nm), st.pc, b, 'inv', fn=fc.qualname))
        else:
            for nm, b in invs(st, None):
                self.emit(VC('%s.loop%s.entry.%s' % (fc.short, lid, nm), st.pc, b, 'inv', fn=fc.qualname))
        # 2. arbitrary iteration
        head = st.fork()
        self._havoc(head, writes, spec, 'L%s' % lid)
        if kind == 'for':
            gi = z3.Int(fresh_name('i@L%s' % lid))
            head.assume(z3.And(lo <= gi, gi <= z3.If(hi >= lo, hi, lo)))
        for nm, b in invs(head, gi):
            head.assume(b)
        if spec.hints is not None:
            Lh = LoopCtx(head.env, pre_env, fc.entry, gi, seq, self)
            Lh.alias = head.alias
            for h in spec.hints(Lh):
                head.assume(h)
        # 3a. exit arm
        ex = head.fork()
        if kind == 'for':
            ex.assume(gi >= hi)
            if file_var is not None:
                ex.env[file_var] = ex.env[file_var].with_field('pos', ZV(TInt, hi))
            if self.feasible(ex):
                outs.append(('next', ex, None))
            body_st = head
            body_st.assume(gi < hi)
            body_st.env['$i%d' % lid] = ZV(TInt, gi)      # ghost: the index of this loop, visible to the invariants of nested loops
            if file_var is not None:
                # the line is consumed before the body runs (a seek() in the body then wins)
                body_st.env[file_var] = body_st.env[file_var].with_field('pos', ZV(TInt, gi + 1))
            if mode == 'seq':
                item = self.getitem(seq, ZV(TInt, gi), body_st, s, safe=False)
                self.assign(val_target, item, body_st, rebind=True)
                if idx_target is not None:
                    self.assign(idx_target, ZV(TInt, gi), body_st, rebind=True)
                # the loop variable is a view into the iterated list when its elements are mutable
                if isinstance(val_target, ast.Name) and is_mutable_val(item) and seq_path is not None:
                    body_st.alias[val_target.id] = AliasPath(seq_path.root, seq_path.steps + [('item', ZV(TInt, gi))])
            else:
                self.assign(val_target, ZV(TInt, gi), body_st, rebind=True)
            arms = [body_st] if self.feasible(body_st) else []
        else:
            arms = []
            for cond, s2 in self.branch(s.test, head):
                if cond:
                    arms.append(s2)
                else:
                    outs.append(('next', s2, None))
        # 3b. body arm
        for body_st in arms:
            for k2, s2, payload in self.exec_block(s.body, body_st):
                if k2 in ('next', 'continue'):
                    nxt_i = gi + 1 if gi is not None else None
                    for nm, b in invs(s2, nxt_i):
                        self.emit(VC('%s.loop%s.keep.%s.L%d' % (fc.short, lid, nm, getattr(s2, 'last_line', s.lineno)),
                                     s2.pc, b, 'inv', fn=fc.qualname))
                elif k2 == 'break':
                    outs.append(('next', s2, None))
                else:
                    outs.append((k2, s2, payload))
        return outs

    # ------------------------------------------------------------------ assignment
    def assign(self, tgt, v, st, rebind=False):
        """rebind=True: the statement `name = value`; False: write-back of an updated container
        (goes through the alias when the name is a view)."""
        fc = self.cur
        if isinstance(tgt, ast.Name):
            if tgt.id in st.alias:
                if rebind:
                    del st.alias[tgt.id]
                else:
                    self.write_path(st.alias[tgt.id], v, st)
                    return
            if tgt.id in fc.con.locals:
                shp = fc.con.locals[tgt.id]
                if isinstance(v, ZV) and v.pyval == 'EMPTY_COUNTER' and isinstance(shp, TDict):
                    from .builtins import empty_dict
                    v = ZV(shp, empty_dict(shp))
                try:
                    if not isinstance(shp, ObjShape):
                        v = unbox(box(v, shp), shp)
                except Unsupported:
                    pass    # e.g. a record that has since gained a key: keep the python-level value
            st.env[tgt.id] = v
        elif isinstance(tgt, (ast.Tuple, ast.List)):
            items = self.unpack(v, len(tgt.elts), st)
            for t, x in zip(tgt.elts, items):
                self.assign(t, x, st, rebind)
        elif isinstance(tgt, ast.Attribute):
            obj = self.eval(tgt.value, st)
            if not isinstance(obj, PObj):
                raise Unsupported('attribute store on %r' % (obj,))
            shp = fc.con.params.get('self') if isinstance(tgt.value, ast.Name) and tgt.value.id == 'self' else None
            if isinstance(shp, ObjShape) and tgt.attr in shp.fields:
                v = self.coerce_field(v, shp.fields[tgt.attr])
            self.assign(tgt.value, obj.with_field(tgt.attr, v), st)
        elif isinstance(tgt, ast.Subscript):
            c = self.eval(tgt.value, st)
            if isinstance(tgt.slice, ast.Slice):
                c2 = self.list_splice(c, tgt.slice, v, st, tgt)
            else:
                k = self.eval(tgt.slice, st)
                c2 = self.setitem(c, k, v, st, tgt)
            self.assign(tgt.value, c2, st)
        else:
            raise Unsupported('assignment target %s' % type(tgt).__name__)

    def coerce_field(self, v, fshape):
        if isinstance(fshape, TBag) and isinstance(v, PList) and not v.items:
            return ZV(fshape, z3.K(fshape.elem.sort(), z3.IntVal(0)))
        if isinstance(fshape, (ObjShape, FunShape)) or isinstance(v, (PObj, PFun)):
            return v
        try:
            return unbox(box(v, fshape), fshape)
        except Unsupported:
            return v

    def unpack(self, v, n, st):
        if isinstance(v, (PTuple, PList)):
            if len(v.items) != n:
                raise Unsupported('unpack arity')
            return v.items
        if isinstance(v, ZV) and isinstance(v.shape, TTuple):
            return unbox(v.term, v.shape).items
        raise Unsupported('unpack %r' % (v,))

    # ------------------------------------------------------------------ expressions
    def const(self, c):
        if c is None:
            return PNone()
        if isinstance(c, bool):
            return zbool(c)
        if isinstance(c, int):
            return zint(c)
        if isinstance(c, str):
            return zstr(c)
        if isinstance(c, float):
            if c == 0.0:
                return ZV(TF, T.F_ZERO, c)
            if c == 1.0:
                return ZV(TF, T.F_ONE, c)
            return ZV(TF, T.float_lit(c), c)
        raise Unsupported('constant %r' % (c,))

    def eval(self, e, st, stmt=False):
        m = getattr(self, 'ev_' + type(e).__name__, None)
        if m is None:
            raise Unsupported('%s: expression %s at line %d' % (self.cur.qualname, type(e).__name__, e.lineno))
        if isinstance(e, ast.Call):
            return m(e, st, stmt)
        return m(e, st)

    def ev_Constant(self, e, st):
        return self.const(e.value)

    def ev_Name(self, e, st):
        if e.id in st.alias and isinstance(e.ctx, ast.Load):
            return self.read_path(st.alias[e.id], st, e)
        if e.id in st.env:
            v = st.env[e.id]
            if isinstance(v, Undefined):
                raise Unsupported('%s: variable %s is used after a loop cut without a declared shape (line %d)'
                                  % (self.cur.qualname, e.id, e.lineno))
            return v
        if e.id in ('True', 'False', 'None'):
            return self.const({'True': True, 'False': False, 'None': None}[e.id])
        if e.id == '__file__':
            return ZV(TStr, z3.Const('module_file_path', T.Str))
        imp = self.cur.imports.get(e.id)
        if imp is not None:
            if imp[0] == 'module':
                return PModule(imp[1])
            return PFun('global', imp)
        if e.id in self.builtins:
            return PFun('builtin', e.id)
        if e.id in ('bytes', 'str', 'int', 'float', 'dict', 'list'):
            return PModule(e.id)          # a builtin type used as a namespace (bytes.fromhex)
        raise Unsupported('%s: unknown name %s (line %d)' % (self.cur.qualname, e.id, e.lineno))

    def ev_Tuple(self, e, st):
        return PTuple([self.eval(x, st) for x in e.elts])

    def ev_List(self, e, st):
        return PList([self.eval(x, st) for x in e.elts])

    def ev_Dict(self, e, st):
        f = {}
        for k, v in zip(e.keys, e.values):
            if not (isinstance(k, ast.Constant) and isinstance(k.value, str)):
                raise Unsupported('dict literal with a non-literal key')
            f[k.value] = self.eval(v, st)
        return PRec(f)

    def ev_Attribute(self, e, st):
        obj = self.eval(e.value, st)
        if isinstance(obj, PObj):
            vol = getattr(self.cur.con, 'volatile', None)
            if vol and e.attr in vol and isinstance(e.ctx, ast.Load):
                return vol[e.attr](self, st, obj)
            if e.attr in obj.fields:
                return obj.fields[e.attr]
            return PFun('method', (obj, e.attr, e.value))
        if isinstance(obj, PModule):
            return PFun('modattr', (obj.name, e.attr))
        if isinstance(obj, PFun) and obj.kind == 'modattr':
            return PFun('modattr', ('%s.%s' % obj.payload, e.attr))
        return PFun('valmethod', (obj, e.attr, e.value))

    def ev_Subscript(self, e, st):
        c = self.eval(e.value, st)
        if isinstance(e.slice, ast.Slice):
            return self.getslice(c, e.slice, st, e)
        k = self.eval(e.slice, st)
        return self.getitem(c, k, st, e)

    def ev_UnaryOp(self, e, st):
        v = self.eval(e.operand, st)
        if isinstance(e.op, ast.Not):
            return ZV(TBool, simp(z3.Not(self.truthy(v, st))))
        if isinstance(e.op, ast.USub):
            if isinstance(v, ZV) and v.shape == TInt:
                return ZV(TInt, simp(-v.term), -v.pyval if v.pyval is not None else None)
            if isinstance(v, ZV) and v.shape == TF:
                if v.pyval is not None:
                    return self.const(-v.pyval)
                return ZV(TF, T.fsub(T.F_ZERO, v.term))
        raise Unsupported('unary %s' % type(e.op).__name__)

    def ev_BoolOp(self, e, st):
        # short-circuit: later operands are evaluated under the guard of the earlier ones
        vals = []
        saved = list(st.pc)
        try:
            for x in e.values:
                v = self.eval(x, st)
                b = self.truthy(v, st)
                vals.append(b)
                st.pc.append(b if isinstance(e.op, ast.And) else z3.Not(b))
        finally:
            st.pc[:] = saved
        return ZV(TBool, simp(z3.And(vals) if isinstance(e.op, ast.And) else z3.Or(vals)))

    def ev_IfExp(self, e, st):
        b = self.truthy(self.eval(e.test, st), st)
        saved = list(st.pc)
        st.pc.append(b)
        x = self.eval(e.body, st)
        st.pc[:] = saved + [z3.Not(b)]
        y = self.eval(e.orelse, st)
        st.pc[:] = saved
        if isinstance(x, ZV) and isinstance(y, ZV) and x.shape == y.shape:
            return ZV(x.shape, z3.If(b, x.term, y.term))
        raise Unsupported('conditional expression with non-uniform arms')

    def ev_Compare(self, e, st):
        left = self.eval(e.left, st)
        parts = []
        for op, r in zip(e.ops, e.comparators):
            right = self.eval(r, st)
            parts.append(self.compare(op, left, right, st, e))
            left = right
        return ZV(TBool, simp(z3.And(parts)) if len(parts) > 1 else simp(parts[0]))

    def ev_BinOp(self, e, st):
        return self.binop(e.op, self.eval(e.left, st), self.eval(e.right, st), st, e)

    def ev_JoinedStr(self, e, st):
        # f"lit{x}lit": the concatenation of the literal parts and str(x) for every plain {x} (format(x, '') == str(x) for the str / int /
        # float values the subset has).  A conversion (!r) or a format specification is outside the subset.
        from .builtins import _str as b_str
        out = None
        for part in e.values:
            if isinstance(part, ast.Constant) and isinstance(part.value, str):
                pv = zstr(part.value)
            elif isinstance(part, ast.FormattedValue) and part.conversion == -1 and part.format_spec is None:
                v = self.eval(part.value, st)
                if not (isinstance(v, ZV) and v.shape in (TStr, TInt, TF)):
                    raise Unsupported('%s: f-string field %s of a type other than str / int / float (line %d)'
                                      % (self.cur.qualname, ast.unparse(part.value), e.lineno))
                pv = b_str(self, e, st, [v], {})
            else:
                raise Unsupported('%s: f-string with a conversion or a format specification (line %d)' % (self.cur.qualname, e.lineno))
            out = pv if out is None else self.binop(ast.Add(), out, pv, st, e)
        return out if out is not None else zstr('')

    def ev_Call(self, e, st, stmt=False):
        from . import calls
        return calls.call(self, e, st, stmt)

    # ------------------------------------------------------------------ helpers on values
    def as_int(self, v):
        if isinstance(v, ZV) and v.shape == TInt:
            return v.term
        if isinstance(v, ZV) and v.shape == TBool:
            return z3.If(v.term, 1, 0)
        if isinstance(v, ZV) and isinstance(v.shape, TOpt) and v.shape.elem == TInt:
            return v.shape.val(v.term)
        raise Unsupported('int expected, got %r' % (v,))

    def truthy(self, v, st):
        if isinstance(v, PNone):
            return z3.BoolVal(False)
        if isinstance(v, ZV):
            sh = v.shape
            if sh == TBool:
                return v.term
            if sh == TInt:
                return v.term != 0
            if sh == TStr:
                return T.slen(v.term) != 0
            if isinstance(sh, TList):
                return sh.len(v.term) != 0
            if isinstance(sh, TOpt):
                inner = self.truthy(ZV(sh.elem, sh.val(v.term)), st) if not isinstance(sh.elem, (TTuple, TRec)) else z3.BoolVal(True)
                return z3.And(z3.Not(sh.is_none(v.term)), inner)
            if sh == TF:
                return T.fval(v.term) != 0
            if isinstance(sh, TBag):
                # a container is true exactly when it is not empty (`not self.p_queue` for `len(self.p_queue) == 0`)
                return T.bag_size(sh)(v.term) != 0
        if isinstance(v, (PList, PTuple)):
            return z3.BoolVal(len(v.items) != 0)
        if isinstance(v, (PObj, PRec, PFun)):
            return z3.BoolVal(True)
        raise Unsupported('truthiness of %r' % (v,))

    def length(self, v, st):
        if isinstance(v, (PList, PTuple)):
            return z3.IntVal(len(v.items))
        if isinstance(v, ZV):
            if v.shape == TStr:
                if v.pyval is not None:
                    return z3.IntVal(len(v.pyval))
                return T.slen(v.term)
            if isinstance(v.shape, TList):
                return v.shape.len(v.term)
            if isinstance(v.shape, TBag):
                return T.bag_size(v.shape)(v.term)
            if isinstance(v.shape, TOpt):
                self.safety(st, z3.Not(v.shape.is_none(v.term)), 'notnone')
                return self.length(unbox(v.shape.val(v.term), v.shape.elem), st)
        raise Unsupported('len of %r' % (v,))

    def safety(self, st, cond, kind, node=None):
        fc = self.cur
        c = simp(cond)
        if z3.is_true(c):
            return
        line = node.lineno if node is not None else fc.cur_line
        fc.safe_n += 1
        self.emit(VC('%s.safe.L%s.%s.%d' % (fc.short, line, kind, fc.safe_n), st.pc, c, 'safe', fn=fc.qualname))
        st.assume(c)   # after the check the path continues in the safe region

    def unwrap(self, v, st, node=None):
        """Optional value used as its payload: obligation that it is not None."""
        if isinstance(v, ZV) and isinstance(v.shape, TOpt):
            self.safety(st, z3.Not(v.shape.is_none(v.term)), 'notnone', node)
            return unbox(v.shape.val(v.term), v.shape.elem)
        return v

    def getitem(self, c, k, st, node, safe=True):
        c = self.unwrap(c, st, node)
        if isinstance(c, PObj) and (c.cls + '.__getitem__') in self.builtins:
            return self.builtins[c.cls + '.__getitem__'](self, node, st, c, k)
        if isinstance(c, (PTuple, PList)):
            if isinstance(k, ZV) and k.pyval is not None:
                n = k.pyval
                if not (-len(c.items) <= n < len(c.items)):
                    raise RaisePath(st, 'IndexError')
                return c.items[n]
            if isinstance(c, PList) and c.items:
                shp = TList(shape_of(c.items[0]))
                c = ZV(shp, box(c, shp))
            else:
                raise Unsupported('symbolic index into a python-level tuple')
        if isinstance(c, PRec):
            if isinstance(k, ZV) and k.pyval is not None and k.pyval in c.fields:
                return c.fields[k.pyval]
            if isinstance(k, ZV) and k.pyval is not None:
                raise RaisePath(st, 'KeyError')
            raise Unsupported('symbolic key into a record')
        if isinstance(c, ZV):
            sh = c.shape
            if isinstance(sh, TList):
                i = self.as_int(k)
                n = sh.len(c.term)
                if isinstance(k, ZV) and k.pyval is not None and k.pyval < 0:
                    i = n + k.pyval
                if safe:
                    self.safety(st, z3.And(0 <= i, i < n), 'index', node)
                return unbox(z3.Select(sh.arr(c.term), simp(i)), sh.elem)
            if isinstance(sh, TTuple):
                if isinstance(k, ZV) and k.pyval is not None:
                    return unbox(sh.get(c.term, k.pyval), sh.elems[k.pyval])
            if isinstance(sh, TRec):
                if isinstance(k, ZV) and k.pyval is not None:
                    if k.pyval not in sh.fields:
                        raise RaisePath(st, 'KeyError')
                    return unbox(sh.get(c.term, k.pyval), sh.fields[k.pyval])
            if isinstance(sh, TDict):
                kt = box(k, sh.k)
                if getattr(sh, 'counter', False):
                    return unbox(z3.If(sh.has(c.term, kt), sh.get(c.term, kt), T.F_ZERO if sh.v == TF else z3.IntVal(0)), sh.v)
                if safe and getattr(self, 'try_key_depth', 0) > 0:
                    # inside a try that catches KeyError: both outcomes are explored
                    k2 = st.choose(2)
                    if k2 == 1:
                        st.assume(z3.Not(sh.has(c.term, kt)))
                        raise RaisePath(st, 'KeyError')
                    st.assume(sh.has(c.term, kt))
                elif safe:
                    self.safety(st, sh.has(c.term, kt), 'key', node)
                return unbox(sh.get(c.term, kt), sh.v)
            if sh == TStr:
                i = self.as_int(k)
                n = self.length(c, st)
                if isinstance(k, ZV) and k.pyval is not None and k.pyval < 0:
                    i = n + k.pyval
                if safe:
                    self.safety(st, z3.And(0 <= i, i < n), 'strindex', node)
                if c.pyval is not None and z3.is_int_value(simp(i)):
                    return zstr(c.pyval[simp(i).as_long()])
                return ZV(TStr, T.schar(self.char_at(c.term, simp(i))))
        raise Unsupported('subscript of %r' % (c,))

    def char_at(self, s, i):
        """code point of s at i, looking through slices syntactically."""
        if z3.is_app(s) and s.decl().name() == 'sslice':
            return self.char_at(s.arg(0), simp(s.arg(1) + i))
        if z3.is_app(s) and s.decl().name() == 'schar':
            return s.arg(0)
        lv = T.lit_value(s)
        if lv is not None and z3.is_int_value(i) and 0 <= i.as_long() < len(lv):
            return z3.IntVal(ord(lv[i.as_long()]))
        return T.sch(s, i)

    def norm_index(self, v, n, default, st=None):
        """Python slice bound -> clamped z3 Int (named by a fresh constant when it is a
        conditional term, so that it can occur inside quantifier patterns)."""
        if v is None or isinstance(v, PNone):
            return default
        t = self.as_int(v)
        r = simp(z3.If(t < 0, z3.If(t + n < 0, z3.IntVal(0), t + n), z3.If(t > n, n, t)))
        if st is not None and _has_ite(r):
            k = z3.Int(fresh_name('idx'))
            st.assume(k == r)
            return k
        return r

    def getslice(self, c, sl, st, node):
        if sl.step is not None:
            raise Unsupported('slice with step')
        lo_v = self.eval(sl.lower, st) if sl.lower is not None else None
        hi_v = self.eval(sl.upper, st) if sl.upper is not None else None
        c = self.unwrap(c, st, node)
        if isinstance(c, PList):
            if all(x is None or (isinstance(x, ZV) and x.pyval is not None) for x in (lo_v, hi_v)):
                lo = lo_v.pyval if lo_v is not None else None
                hi = hi_v.pyval if hi_v is not None else None
                return PList(c.items[lo:hi], c.elem_shape)
            shp = shape_of(c)
            c = ZV(shp, box(c, shp))
        if isinstance(c, ZV) and c.shape == TStr:
            if c.pyval is not None and all(x is None or (isinstance(x, ZV) and x.pyval is not None) for x in (lo_v, hi_v)):
                return zstr(c.pyval[(lo_v.pyval if lo_v is not None else None):(hi_v.pyval if hi_v is not None else None)])
            n = self.length(c, st)
            lo = self.norm_index(lo_v, n, z3.IntVal(0), st)
            hi = self.norm_index(hi_v, n, n, st)
            hi2 = simp(z3.If(hi < lo, lo, hi))
            if _has_ite(hi2):
                k = z3.Int(fresh_name('idx'))
                st.assume(k == hi2)
                hi2 = k
            return ZV(TStr, self.mk_slice(c.term, lo, hi2))
        if isinstance(c, ZV) and isinstance(c.shape, TList):
            sh = c.shape
            n = sh.len(c.term)
            lo = self.norm_index(lo_v, n, z3.IntVal(0), st)
            hi = self.norm_index(hi_v, n, n, st)
            hi2 = simp(z3.If(hi < lo, lo, hi))
            if _has_ite(hi2):
                k = z3.Int(fresh_name('idx'))
                st.assume(k == hi2)
                hi2 = k
            hi = hi2
            # a fresh list whose elements are those of the slice (pointwise, quantified)
            res = T.list_fn('lslice', sh, [T.IntS, T.IntS])(c.term, lo, hi)
            j = z3.Int('j!s')
            st.assume(sh.len(res) == hi - lo)
            st.assume(z3.ForAll([j], z3.Implies(z3.And(0 <= j, j < hi - lo),
                                                z3.Select(sh.arr(res), j) == z3.Select(sh.arr(c.term), lo + j)),
                                patterns=[z3.Select(sh.arr(res), j)]))
            return ZV(sh, res)
        raise Unsupported('slice of %r' % (c,))

    def mk_slice(self, s, lo, hi):
        lo = simp(lo)
        hi = simp(hi)
        if z3.is_app(s) and s.decl().name() == 'sslice':
            base, l0 = s.arg(0), s.arg(1)
            return T.sslice(base, simp(l0 + lo), simp(l0 + hi))
        return T.sslice(s, lo, hi)

    def _unwrap_opt_container(self, c, st, node):
        if isinstance(c, ZV) and isinstance(c.shape, TOpt) and isinstance(c.shape.elem, (TDict, TList)):
            self.safety(st, z3.Not(c.shape.is_none(c.term)), 'notnone', node)
            return ZV(c.shape.elem, c.shape.val(c.term))
        return c

    def setitem(self, c, k, v, st, node):
        c = self._unwrap_opt_container(c, st, node)
        if isinstance(c, PRec):
            if isinstance(k, ZV) and k.pyval is not None:
                f = dict(c.fields)
                old = f.get(k.pyval)
                if isinstance(v, PRec) and not v.fields and isinstance(old, ZV) and isinstance(old.shape, TDict):
                    from .builtins import empty_dict      # rec['k'] = {} where the field is declared as a dict: the empty dict of that shape
                    v = ZV(old.shape, empty_dict(old.shape))
                f[k.pyval] = v
                return PRec(f)
            raise Unsupported('symbolic key store into a record')
        if isinstance(c, PList):
            if isinstance(k, ZV) and k.pyval is not None and 0 <= k.pyval < len(c.items):
                items = list(c.items)
                items[k.pyval] = v
                return PList(items, c.elem_shape)
            shp = shape_of(c)
            c = ZV(shp, box(c, shp))
        if isinstance(c, ZV) and isinstance(c.shape, TList):
            sh = c.shape
            i = self.as_int(k)
            n = sh.len(c.term)
            if isinstance(k, ZV) and k.pyval is not None and k.pyval < 0:
                i = n + k.pyval
            self.safety(st, z3.And(0 <= i, i < n), 'index', node)
            return ZV(sh, sh.mk(n, z3.Store(sh.arr(c.term), simp(i), box(v, sh.elem))))
        if isinstance(c, ZV) and isinstance(c.shape, TDict):
            sh = c.shape
            return ZV(sh, sh.put(c.term, box(k, sh.k), box(v, sh.v)))
        raise Unsupported('item store into %r' % (c,))

    def list_append(self, c, v, st):
        if isinstance(c, PList):
            return PList(c.items + [v], c.elem_shape)
        if isinstance(c, ZV) and isinstance(c.shape, TList):
            sh = c.shape
            n = sh.len(c.term)
            return ZV(sh, sh.mk(simp(n + 1), z3.Store(sh.arr(c.term), n, box(v, sh.elem))))
        raise Unsupported('append to %r' % (c,))

    def to_zlist(self, c, shape=None):
        if isinstance(c, ZV) and isinstance(c.shape, TList):
            return c
        if isinstance(c, PList):
            shp = shape or shape_of(c)
            return ZV(shp, box(c, shp))
        raise Unsupported('list expected, got %r' % (c,))

    def list_concat(self, a, b, st):
        if isinstance(a, PList) and isinstance(b, PList):
            return PList(a.items + b.items, a.elem_shape or b.elem_shape)
        if isinstance(a, PList) and not a.items:
            return b
        if isinstance(b, PList) and not b.items:
            return a
        shp = b.shape if isinstance(b, ZV) else a.shape
        a = self.to_zlist(a, shp)
        b = self.to_zlist(b, shp)
        sh = a.shape
        if isinstance(b, ZV) and False:
            pass
        res = T.list_fn('lcat', sh, [sh.sort()])(a.term, b.term)
        j = z3.Int('j!c')
        la, lb = sh.len(a.term), sh.len(b.term)
        st.assume(sh.len(res) == la + lb)
        st.assume(z3.ForAll([j], z3.Implies(z3.And(0 <= j, j < la + lb),
                                            z3.Select(sh.arr(res), j) == z3.If(j < la, z3.Select(sh.arr(a.term), j),
                                                                              z3.Select(sh.arr(b.term), j - la))),
                            patterns=[z3.Select(sh.arr(res), j)]))
        return ZV(sh, res)

    def list_delete(self, c, k, st, node):
        if isinstance(c, PList) and isinstance(k, ZV) and k.pyval is not None:
            items = list(c.items)
            del items[k.pyval]
            return PList(items, c.elem_shape)
        c = self.to_zlist(c)
        sh = c.shape
        i = self.as_int(k)
        n = sh.len(c.term)
        self.safety(st, z3.And(0 <= i, i < n), 'index', node)
        res = T.list_fn('ldel', sh, [T.IntS])(c.term, i)
        j = z3.Int('j!d')
        st.assume(sh.len(res) == n - 1)
        st.assume(z3.ForAll([j], z3.Implies(z3.And(0 <= j, j < n - 1),
                                            z3.Select(sh.arr(res), j) == z3.If(j < i, z3.Select(sh.arr(c.term), j),
                                                                              z3.Select(sh.arr(c.term), j + 1))),
                            patterns=[z3.Select(sh.arr(res), j)]))
        return ZV(sh, res)

    def list_splice(self, c, sl, v, st, node):
        """xs[a:b] = ys  (only the insertion form a == b is supported)."""
        if sl.step is not None or sl.lower is None or sl.upper is None:
            raise Unsupported('slice assignment form')
        if ast.dump(sl.lower) != ast.dump(sl.upper):
            raise Unsupported('slice assignment other than xs[i:i] = ys')
        c = self.to_zlist(c)
        sh = c.shape
        v = self.to_zlist(v, sh)
        if v.shape != sh:
            raise Unsupported('splice of %s into %s' % (v.shape, sh))
        n = sh.len(c.term)
        m = sh.len(v.term)
        i0 = self.as_int(self.eval(sl.lower, st))
        i = simp(z3.If(i0 > n, n, i0))
        if _has_ite(i):
            k = z3.Int(fresh_name('idx'))
            st.assume(k == i)
            i = k
        self.safety(st, i0 >= 0, 'index', node)
        res = T.list_fn('lsplice', sh, [T.IntS, sh.sort()])(c.term, i, v.term)
        j = z3.Int('j!p')
        st.assume(sh.len(res) == n + m)
        st.assume(z3.ForAll([j], z3.Implies(z3.And(0 <= j, j < n + m),
                                            z3.Select(sh.arr(res), j) ==
                                            z3.If(j < i, z3.Select(sh.arr(c.term), j),
                                                  z3.If(j < i + m, z3.Select(sh.arr(v.term), j - i),
                                                        z3.Select(sh.arr(c.term), j - m)))),
                            patterns=[z3.Select(sh.arr(res), j)]))
        return ZV(sh, res)

    # ------------------------------------------------------------------ operators
    def is_f(self, v):
        return isinstance(v, ZV) and v.shape == TF

    def is_i(self, v):
        return isinstance(v, ZV) and v.shape in (TInt, TBool)

    def binop(self, op, a, b, st, node):
        a = self.unwrap(a, st, node)
        b = self.unwrap(b, st, node)
        if self.is_i(a) and self.is_i(b):
            x, y = self.as_int(a), self.as_int(b)
            pv = None
            if a.pyval is not None and b.pyval is not None and not isinstance(op, (ast.Div,)):
                try:
                    pv = {ast.Add: lambda: a.pyval + b.pyval, ast.Sub: lambda: a.pyval - b.pyval,
                          ast.Mult: lambda: a.pyval * b.pyval}.get(type(op), lambda: None)()
                except Exception:
                    pv = None
            if isinstance(op, ast.Add):
                return ZV(TInt, simp(x + y), pv)
            if isinstance(op, ast.Sub):
                return ZV(TInt, simp(x - y), pv)
            if isinstance(op, ast.Mult):
                return ZV(TInt, simp(x * y), pv)
            if isinstance(op, ast.Pow) and a.pyval is not None and b.pyval is not None and b.pyval >= 0:
                return zint(a.pyval ** b.pyval)
            if isinstance(op, ast.FloorDiv):
                self.safety(st, y != 0, 'div0', node)
                return ZV(TInt, x / y)   # z3 int division floors for positive divisors
            if isinstance(op, ast.Mod):
                self.safety(st, y != 0, 'div0', node)
                return ZV(TInt, x % y)
            if isinstance(op, ast.Div):
                self.safety(st, y != 0, 'div0', node)
                return ZV(TF, T.fdiv(int_to_f(x), int_to_f(y)))
        if self.is_f(a) or self.is_f(b):
            if (self.is_f(a) or self.is_i(a)) and (self.is_f(b) or self.is_i(b)):
                x = a.term if self.is_f(a) else int_to_f(self.as_int(a))
                y = b.term if self.is_f(b) else int_to_f(self.as_int(b))
                if isinstance(op, ast.Mult):
                    return ZV(TF, T.fmul(x, y))
                if isinstance(op, ast.Div):
                    self.safety(st, T.fval(y) != 0, 'div0', node)
                    return ZV(TF, T.fdiv(x, y))
                if isinstance(op, ast.Add):
                    return ZV(TF, T.fadd(x, y))
                if isinstance(op, ast.Sub):
                    return ZV(TF, T.fsub(x, y))
        if isinstance(op, ast.Add):
            if isinstance(a, ZV) and a.shape == TStr and isinstance(b, ZV) and b.shape == TStr:
                if a.pyval is not None and b.pyval is not None:
                    return zstr(a.pyval + b.pyval)
                return ZV(TStr, self.mk_cat(a.term, b.term))
            if isinstance(a, (PList,)) or isinstance(b, PList) or (isinstance(a, ZV) and isinstance(a.shape, TList)):
                return self.list_concat(a, b, st)
        if isinstance(op, ast.Mult):
            if isinstance(a, ZV) and a.shape == TStr and a.pyval is not None and len(a.pyval) == 1 and self.is_i(b):
                # 'L' * n : a string of n copies of one character
                r = fresh(TStr, 'rep')
                n = self.as_int(b)
                j = z3.Int('j!r')
                st.assume(T.slen(r.term) == z3.If(n < 0, 0, n))
                st.assume(z3.ForAll([j], z3.Implies(z3.And(0 <= j, j < n), T.sch(r.term, j) == ord(a.pyval)),
                                    patterns=[T.sch(r.term, j)]))
                return r
        raise Unsupported('%s: operator %s on %r, %r (line %d)' % (self.cur.qualname, type(op).__name__, a, b, node.lineno))

    def mk_cat(self, s, t):
        if s.eq(T.S_EMPTY):
            return t
        if t.eq(T.S_EMPTY):
            return s
        # adjacent slices of one base merge
        if (z3.is_app(s) and z3.is_app(t) and s.decl().name() == 'sslice' and t.decl().name() == 'sslice'
                and s.arg(0).eq(t.arg(0)) and simp(s.arg(2)).eq(simp(t.arg(1)))):
            return T.sslice(s.arg(0), s.arg(1), t.arg(2))
        return T.scat(s, t)

    def compare(self, op, a, b, st, node):
        if isinstance(op, (ast.Is, ast.IsNot)):
            r = self.is_none(a) if isinstance(b, PNone) else (self.is_none(b) if isinstance(a, PNone) else None)
            if r is None:
                raise Unsupported('is/is not on non-None operands')
            return r if isinstance(op, ast.Is) else z3.Not(r)
        if isinstance(op, (ast.In, ast.NotIn)):
            from . import builtins as B
            r = B.contains(self, b, a, st, node)
            return r if isinstance(op, ast.In) else z3.Not(r)
        if isinstance(op, (ast.Eq, ast.NotEq)):
            r = self.equal(a, b, st)
            return r if isinstance(op, ast.Eq) else z3.Not(r)
        a = self.unwrap(a, st, node)
        b = self.unwrap(b, st, node)
        if (self.is_f(a) or self.is_i(a)) and (self.is_f(b) or self.is_i(b)):
            if self.is_f(a) or self.is_f(b):
                x = T.fval(a.term) if self.is_f(a) else z3.ToReal(self.as_int(a))
                y = T.fval(b.term) if self.is_f(b) else z3.ToReal(self.as_int(b))
                if not self.is_f(a):
                    x = self._int_as_real(a)
                if not self.is_f(b):
                    y = self._int_as_real(b)
            else:
                x, y = self.as_int(a), self.as_int(b)
            if isinstance(op, ast.Lt):
                return x < y
            if isinstance(op, ast.LtE):
                return x <= y
            if isinstance(op, ast.Gt):
                return x > y
            if isinstance(op, ast.GtE):
                return x >= y
        raise Unsupported('comparison %s on %r, %r' % (type(op).__name__, a, b))

    def _int_as_real(self, v):
        # an int compared with a float: exact for the small constants used (0, 1)
        return z3.ToReal(self.as_int(v))

    def is_none(self, v):
        if isinstance(v, PNone):
            return z3.BoolVal(True)
        if isinstance(v, ZV) and isinstance(v.shape, TOpt):
            return v.shape.is_none(v.term)
        return z3.BoolVal(False)

    def equal(self, a, b, st):
        if isinstance(a, PNone) or isinstance(b, PNone):
            return z3.And(self.is_none(a), self.is_none(b))
        if isinstance(a, ZV) and isinstance(a.shape, TOpt) and not (isinstance(b, ZV) and isinstance(b.shape, TOpt)):
            return z3.And(z3.Not(a.shape.is_none(a.term)), self.equal(unbox(a.shape.val(a.term), a.shape.elem), b, st))
        if isinstance(b, ZV) and isinstance(b.shape, TOpt) and not (isinstance(a, ZV) and isinstance(a.shape, TOpt)):
            return self.equal(b, a, st)
        if self.is_f(a) or self.is_f(b):
            if (self.is_f(a) or self.is_i(a)) and (self.is_f(b) or self.is_i(b)):
                x = T.fval(a.term) if self.is_f(a) else z3.ToReal(self.as_int(a))
                y = T.fval(b.term) if self.is_f(b) else z3.ToReal(self.as_int(b))
                return x == y
        if self.is_i(a) and self.is_i(b):
            return self.as_int(a) == self.as_int(b)
        if isinstance(a, ZV) and isinstance(b, ZV) and a.shape == TStr and b.shape == TStr:
            return self.str_eq(a, b)
        r = self.same(a, b)
        if r is True:
            return z3.BoolVal(True)
        return r

    def str_eq(self, a, b):
        if a.pyval is not None and b.pyval is not None:
            return z3.BoolVal(a.pyval == b.pyval)
        # a literal on one side: equality is length + code points (exact, both polarities)
        for x, y in ((a, b), (b, a)):
            if y.pyval is not None:
                lit = y.pyval
                if len(lit) == 0:
                    return T.slen(x.term) == 0
                conj = [T.slen(x.term) == len(lit)]
                for i, ch in enumerate(lit):
                    conj.append(self.char_at(x.term, z3.IntVal(i)) == ord(ch))
                return z3.And(conj)
        return a.term == b.term


def _has_ite(t):
    stack = [t]
    seen = set()
    while stack:
        t = stack.pop()
        if t.get_id() in seen:
            continue
        seen.add(t.get_id())
        if z3.is_app(t):
            if t.decl().kind() == z3.Z3_OP_ITE:
                return True
            for i in range(t.num_args()):
                stack.append(t.arg(i))
    return False


class Undefined(Val):
    def __init__(self, name):
        self.name = name


class ShapeMismatch(Exception):
    pass


class RaisePath(Exception):
    def __init__(self, state, exc):
        self.state = state
        self.exc = exc


class LoopCtx:
    """What a loop invariant sees."""

    def __init__(self, env, pre, entry, i, seq, eng):
        self.env = env
        self.pre = pre
        self.entry = entry
        self.i = i
        self.seq = seq
        self.eng = eng
        self.alias = {}

    def __getattr__(self, k):
        env = self.__dict__.get('env', {})
        if k in env:
            return env[k]
        raise AttributeError(k)


class FnCtx:
    def __init__(self, eng, con, node, qualname, src):
        self.eng = eng
        self.con = con
        self.node = node
        self.qualname = qualname
        self.src = src
        self.modname = qualname.partition(':')[0]
        self.short = qualname.partition(':')[2]
        self.imports = eng.src.imports(self.modname)
        self.safe_n = 0
        self.cur_line = node.lineno
        self.cls = self.short.rsplit('.', 1)[0] if '.' in self.short else None
        self._loops = [n for n in ast.walk(node) if isinstance(n, (ast.For, ast.While))]
        self._loops.sort(key=lambda n: (n.lineno, n.col_offset))

    def loop_id(self, s):
        return self._loops.index(s)

    def loop_spec(self, s):
        lid = self.loop_id(s)
        spec = self.con.loops.get(lid)
        if spec is None:
            return None
        if spec.fingerprint is not None:
            head = ast.get_source_segment(self.src, s).split('\n')[0]
            if spec.fingerprint not in head:
                raise Unsupported('%s: loop %d header %r no longer matches the sidecar fingerprint %r'
                                  % (self.qualname, lid, head.strip(), spec.fingerprint))
        return spec

    def resolve_call_name(self, call):
        f = call.func
        if isinstance(f, ast.Attribute) and isinstance(f.value, ast.Name) and f.value.id == 'self' and self.cls:
            return '%s:%s.%s' % (self.modname, self.cls, f.attr)
        if isinstance(f, ast.Name):
            imp = self.imports.get(f.id)
            if imp is not None and imp[0] in ('func', 'class'):
                return '%s:%s' % (imp[1], imp[2])
        return None
