"""
pyvc.runner -- per-property orchestration: generate VCs from /repo's current source,
discharge them, run vacuity probes, replay refutations on the real code, apply the
known-findings file, write the evidence file and print the verdict lines.

Exit codes (DESIGN.md section 2): 0 held, 1 violation, 2 undecided, 3 checker error.
"""
import json
import os
import re
import subprocess
import sys
import time
import traceback

import z3

from . import theory as T
from . import solve
from .engine import Engine, Contract, VC, Unsupported

VERIF = os.path.dirname(os.path.dirname(os.path.abspath(__file__)))
VENV_PY = '/venv/bin/python'


def base_name(name):
    """obligation name without line numbers / ordinals: the key used in the lock file."""
    n = re.sub(r'\.L\d+', '', name)
    n = re.sub(r'\.\d+$', '', n)
    return n


class Lemma:
    def __init__(self, name, hyps, goal, doc='', probes=None):
        self.name = name
        self.hyps = hyps
        self.goal = goal
        self.doc = doc
        self.probes = probes

    def vc(self):
        v = VC(self.name, self.hyps, self.goal, 'lemma', where=self.doc)
        v.probes = self.probes
        return v


class Bounded:
    """A bounded stand-in: a script run under /venv/bin/python on the real code.
    It prints one JSON object: {cases, distinct, failures:[...], bound, samples}."""

    def __init__(self, name, script, args=(), bound='', clause='', quick_args=None, thorough_args=None):
        self.name = name
        self.script = script
        self.args = list(args)
        self.bound = bound
        self.clause = clause
        self.quick_args = quick_args or []
        self.thorough_args = thorough_args or []


class Prop:
    def __init__(self, pid, title, functions=(), lemmas=(), bounded=(), assumptions=(), level='proof',
                 replay=None, effects=None, extra_axioms=None, notes='', explanation='', setup=None):
        self.pid = pid
        self.title = title
        self.functions = list(functions)
        self.lemmas = lemmas if callable(lemmas) else list(lemmas)
        self.bounded = list(bounded)
        self.assumptions = list(assumptions)
        self.level = level
        self.replay = replay                 # (obligation, probes, repo, seed) -> dict or None
        self.effects = effects               # (repo) -> list of (name, ok, detail, replay_hint)
        self.extra_axioms = extra_axioms
        self.notes = notes
        self.explanation = explanation
        self.setup = setup


def load_known():
    p = os.path.join(VERIF, 'known_findings.json')
    if not os.path.exists(p):
        return []
    with open(p) as fh:
        return json.load(fh).get('findings', [])


def load_lock():
    p = os.path.join(VERIF, 'obligations.lock.json')
    if not os.path.exists(p):
        return {}
    with open(p) as fh:
        return json.load(fh)


def run_bounded(b, repo, tier, seed):
    cmd = [VENV_PY, os.path.join(VERIF, b.script), '--repo', repo, '--seed', str(seed), '--tier', tier] + b.args
    cmd += (b.thorough_args if tier == 'thorough' else b.quick_args)
    env = dict(os.environ)
    env['PYTHONPATH'] = repo + os.pathsep + VERIF
    env['PYTHONHASHSEED'] = '0'
    t0 = time.time()
    try:
        p = subprocess.run(cmd, capture_output=True, text=True, env=env, timeout=1200)
    except subprocess.TimeoutExpired:
        return {'name': b.name, 'error': 'timeout', 'wall_s': time.time() - t0}
    out = p.stdout.strip().split('\n')[-1] if p.stdout.strip() else ''
    try:
        d = json.loads(out)
    except ValueError:
        return {'name': b.name, 'error': 'no JSON (exit %d): %s' % (p.returncode, (p.stderr or p.stdout)[-600:]),
                'wall_s': time.time() - t0}
    if 'failures' not in d:      # adapters written for replay report a single failing input
        d['failures'] = [d['failing_input']] if d.get('failing_input') else []
    # a time-out of the harness itself (a child process that did not finish in its budget, e.g. on an overloaded machine) or a lack of
    # resources is an error of the run (exit 3), never a failing input
    infra = [f for f in d['failures'] if isinstance(f, dict) and any(t in str(f.get('exception', '')) for t in
                                                                      ('TimeoutExpired', 'MemoryError', 'No space left', 'Resource temporarily unavailable'))]
    if infra:
        d['failures'] = [f for f in d['failures'] if f not in infra]
        if d.get('failing_input') in infra:
            d['failing_input'] = d['failures'][0] if d['failures'] else None
        d['error'] = 'harness resource problem: %s' % str(infra[0].get('exception'))[:200]
    d['name'] = b.name
    d['bound'] = b.bound
    d['clause'] = b.clause
    d['wall_s'] = round(time.time() - t0, 2)
    return d


def run(prop, tier='quick', seed=0, repo='/repo', update_lock=False, verbose=False):
    t0 = time.time()
    pid = prop.pid
    # runs against a scratch copy (self-tests, seeded changes) must not overwrite the evidence of /repo
    scratch = os.path.realpath(repo) != '/repo'
    ev_dir = os.path.join(VERIF, 'evidence') if not scratch else os.path.join(repo, '.pyvc_evidence')
    rp_dir = os.path.join(VERIF, 'replays') if not scratch else os.path.join(repo, '.pyvc_replays')
    os.makedirs(ev_dir, exist_ok=True)
    os.makedirs(rp_dir, exist_ok=True)
    eng = Engine(repo)
    pristine = (dict(eng.builtins), {k: list(v) for k, v in eng.builtin_writes.items()}, set(eng.inline_ok))
    last_setup = None
    undecided = []
    crashed = []
    fn_infos = []
    for q in prop.functions:
        # an entry may be (qualname, setup): functions of another component keep the engine set-up (builtin models) of their own contracts
        q, fsetup = q if isinstance(q, tuple) else (q, prop.setup)
        if fsetup is not last_setup:
            eng.builtins.clear()
            eng.builtins.update(pristine[0])
            eng.builtin_writes.clear()
            eng.builtin_writes.update({k: list(v) for k, v in pristine[1].items()})
            eng.inline_ok.clear()
            eng.inline_ok.update(pristine[2])
            if fsetup is not None:
                fsetup(eng)
            last_setup = fsetup
        try:
            fn_infos.append(eng.verify(q))
        except Unsupported as ex:
            undecided.append({'obligation': base_name(q.partition(':')[2]) + '.supported', 'reason': str(ex)})
        except (AttributeError, KeyError, NameError) as ex:
            # the sidecar refers to a local variable / field the function no longer has (e.g. after a renaming): the function cannot be
            # checked against its contract as it stands -- undecided, not an error of the code and not a violation
            undecided.append({'obligation': base_name(q.partition(':')[2]) + '.supported',
                              'reason': 'the sidecar contract refers to a name the function no longer provides (%s: %s)' % (type(ex).__name__, ex)})
        except Exception:
            crashed.append(traceback.format_exc())
    lemmas = prop.lemmas() if callable(prop.lemmas) else prop.lemmas
    for lm in lemmas:
        eng.vcs.append(lm.vc())
    extra = prop.extra_axioms() if prop.extra_axioms else []
    # ---- discharge
    tasks = []
    for vc in eng.vcs:
        txt, _ = solve.vc_to_smt2(vc, extra)
        tasks.append((vc.name, txt, 'both'))
    t_gen = time.time() - t0
    results = solve.solve_all(tasks) if tasks else []
    # second chance (full budgets, machine otherwise idle) for whatever the first pass left open: a proof that only ran out of
    # time must not be reported as a failing obligation
    known_obls = set()
    for k in load_known():
        if k.get('property') == pid and k.get('status') == 'known':
            known_obls.update(_known_obligations(k))
    open_idx = [i for i, (n_, r, _i) in enumerate(results) if r != 'unsat' and base_name(n_) not in known_obls]
    n_retried = len(open_idx)
    if open_idx and len(open_idx) <= 48:
        again = solve.solve_all([(tasks[i][0], tasks[i][1], 'retry') for i in open_idx])
        for i, (nm, r, info) in zip(open_idx, again):
            if r == 'unsat':
                info['time'] = info.get('time', 0) + results[i][2].get('time', 0)
                results[i] = (nm, r, info)
    t_solve = time.time() - t0 - t_gen
    # ---- vacuity probes: every function has a reachable normal exit; every lemma's hypotheses are satisfiable
    vac_tasks = []
    for q, pcs in eng.reach.items():
        # one probe per distinct return statement (at most 10 per function): a function is vacuous iff none is reachable
        chosen = {}
        for i, pc in enumerate(pcs):
            line = eng.reach_lines.get(q, [None] * len(pcs))[i] if hasattr(eng, 'reach_lines') else i
            chosen.setdefault(line, (i, pc))
        for i, pc in list(chosen.values())[:10]:
            v = VC('%s.reach.%d' % (q.partition(':')[2], i), pc, z3.BoolVal(False), 'vacuity')
            txt, _ = solve.vc_to_smt2(v, extra)
            vac_tasks.append((v.name, txt, 'reach'))
    for lm in lemmas:
        v = VC(lm.name + '.hyps_sat', lm.hyps, z3.BoolVal(False), 'vacuity')
        txt, _ = solve.vc_to_smt2(v, extra)
        vac_tasks.append((v.name, txt, 'reach'))
    vac_results = solve.solve_all(vac_tasks) if vac_tasks else []
    t_vac = time.time() - t0 - t_gen - t_solve
    vac_fail = []
    reach_ok = {}
    for name, r, info in vac_results:
        key = name.rsplit('.reach.', 1)[0] if '.reach.' in name else name
        if r != 'unsat':
            reach_ok[key] = True
        else:
            reach_ok.setdefault(key, False)
    for key, ok in reach_ok.items():
        if not ok:
            vac_fail.append(key)
    # ---- classify
    lock = set(load_lock().get(pid, []))
    known = [k for k in load_known() if k.get('property') == pid and k.get('status') == 'known']
    discharged = []
    failed = []
    for (name, r, info), vc in zip(results, eng.vcs):
        rec = {'name': name, 'result': r, 'backend': info.get('backend'), 'time_s': round(info.get('time', 0), 3),
               'kind': vc.kind}
        if r == 'unsat':
            discharged.append(rec)
        else:
            rec['detail'] = {k: info.get(k) for k in ('reason', 'cvc5', 'probes', 'model', 'ground') if info.get(k)}
            rec['fn'] = vc.fn
            failed.append(rec)
    violations = []
    known_hits = []
    # effect/frame obligations checked syntactically on the AST (a decision procedure of their own)
    eff_records = []
    if prop.effects is not None:
        try:
            for rec in prop.effects(repo):
                eff_records.append(rec)
        except Exception:
            crashed.append(traceback.format_exc())
    for rec in eff_records:
        if rec.get('undecided') and not rec['ok']:
            # the frame obligation cannot be located in the tree (file or function moved / renamed): undecided, not a violation
            undecided.append({'obligation': rec['name'], 'reason': rec.get('detail', '')})
            continue
        if rec['ok']:
            discharged.append({'name': rec['name'], 'result': 'ok', 'backend': 'ast-effects', 'time_s': 0.0, 'kind': 'frame'})
        else:
            failed.append({'name': rec['name'], 'result': 'refuted', 'backend': 'ast-effects', 'kind': 'frame',
                           'detail': {'reason': rec.get('detail')}, 'fn': rec.get('fn', ''), 'site': rec.get('site')})
    # bounded stand-ins
    bounded_out = []
    for b in prop.bounded:
        d = run_bounded(b, repo, tier, seed)
        bounded_out.append(d)
        if d.get('error'):
            crashed.append('bounded %s: %s' % (b.name, d['error']))
        for f in d.get('failures', []):
            failed.append({'name': '%s.bounded.%s' % (pid, b.name), 'result': 'failing-input', 'backend': 'bounded',
                           'kind': 'bounded', 'detail': {'input': f}, 'fn': '', 'witness': f})
    # ---- replay / known findings / lock
    for rec in failed:
        bn = base_name(rec['name'])
        witness = rec.get('witness')
        if witness is None and prop.replay is not None and rec['backend'] != 'bounded':
            try:
                witness = prop.replay(rec, repo, seed)
            except Exception:
                rec['replay_error'] = traceback.format_exc()[-800:]
                witness = None
        rec['witness'] = witness
        # a witness that belongs to a listed finding (its witness class) testifies only for that finding's obligations
        for k in known:
            if witness is not None and k.get('witness_class') and _in_class(k['witness_class'], witness) \
                    and bn not in _known_obligations(k):
                witness = None
                rec['witness'] = None
                rec['witness_note'] = 'the replay only reproduced listed finding %s, which is not about this obligation' % k.get('id')
        # known finding?
        hit = None
        for k in known:
            obls = _known_obligations(k)
            if obls and bn not in obls:
                continue
            if k.get('site') and k['site'] != rec.get('site'):
                continue
            if k.get('witness_class') and rec.get('backend') == 'bounded' and not _in_class(k['witness_class'], witness):
                continue
            if k.get('witness_class') and witness is not None and not _in_class(k['witness_class'], witness):
                continue
            hit = k
            break
        if hit is not None:
            known_hits.append((hit, rec))
            continue
        if witness is not None:
            violations.append((rec, witness, ''))
        elif rec['result'] in ('refuted',):
            violations.append((rec, None, ''))
        elif bn in lock:
            violations.append((rec, None, ' no-failing-input-found'))
        else:
            undecided.append({'obligation': rec['name'], 'reason': 'not discharged (%s) and never discharged on the '
                              'unchanged tree (not in obligations.lock.json)' % rec['result']})
    # lock coverage: an obligation that used to exist and is gone (e.g. the function no longer has
    # the loop) is undecided unless its function failed to translate (already undecided)
    present = {base_name(r['name']) for r in discharged} | {base_name(r['name']) for r in failed}
    if update_lock:
        lk = load_lock()
        lk[pid] = sorted({base_name(r['name']) for r in discharged})
        with open(os.path.join(VERIF, 'obligations.lock.json'), 'w') as fh:
            json.dump(lk, fh, indent=1, sort_keys=True)
    elif lock and not undecided:
        missing = sorted(lock - present)
        for m in missing:
            undecided.append({'obligation': m, 'reason': 'obligation recorded in the lock file was not generated by this run'})
    # ---- output
    exit_code = 0
    lines = []
    seen_known = set()
    for hit, rec in known_hits:
        key = hit.get('id') or hit.get('what')
        if key in seen_known:
            continue
        seen_known.add(key)
        lines.append('KNOWN-FINDING: property=%s %s' % (pid, hit.get('what', '')))
    replay_paths = []
    for n, (rec, witness, suffix) in enumerate(violations):
        path = os.path.join(rp_dir, '%s_%d.json' % (pid, n))
        with open(path, 'w') as fh:
            json.dump({'property': pid, 'obligation': rec['name'], 'function': rec.get('fn'), 'result': rec['result'],
                       'backend': rec.get('backend'), 'solver_output': rec.get('detail'), 'failing_input': witness,
                       'replay_cmd': './check %s --replay %s' % (pid, path)}, fh, indent=1, default=str)
        replay_paths.append(path)
        lines.append('VIOLATION property=%s replay=%s%s' % (pid, path, suffix))
        exit_code = 1
    if exit_code == 0 and undecided:
        exit_code = 2
        for u in undecided:
            lines.append('UNDECIDED property=%s obligation=%s reason=%s' % (pid, u['obligation'], u['reason'][:300]))
    if vac_fail or crashed:
        if exit_code == 0:
            exit_code = 3
        for v in vac_fail:
            lines.append('VACUOUS property=%s: no satisfiable normal path / hypotheses in %s' % (pid, v), )
        for c in crashed:
            sys.stderr.write(c + '\n')
    n_obl = len(discharged) + len([f for f in failed if f['backend'] != 'bounded'])
    n_dis = len(discharged)
    backends = {}
    for r in discharged:
        backends[r['backend']] = backends.get(r['backend'], 0) + 1
    solver_s = sum(r.get('time_s', 0) for r in discharged) + sum(r.get('time_s', 0) for r in failed)
    assumptions = list(prop.assumptions) + sorted(eng.assumed)
    samples = []
    for vc, (name, r, info) in list(zip(eng.vcs, results))[:3]:
        samples.append({'obligation': name, 'kind': vc.kind, 'hypotheses': len(vc.hyps),
                        'goal': str(vc.goal)[:400], 'result': r})
    for rec in eff_records[:2]:
        samples.append({'obligation': rec['name'], 'kind': 'frame', 'result': 'ok' if rec['ok'] else 'refuted',
                        'detail': rec.get('detail', '')[:200] if rec.get('detail') else ''})
    coverage = {
        'obligations': n_obl,
        'discharged': n_dis,
        'checker_cmd': './check %s --tier %s' % (pid, tier),
        'trusted_base': ['pyvc VC generator (this repository of contracts + engine)', 'z3 5.1.0', 'cvc5 1.0.3']
                        + sorted(a for a in eng.assumed),
        'backends': backends,
        'solver_seconds': round(solver_s, 2),
        'slowest_obligations': sorted([(r['name'], r['backend'], r['time_s']) for r in discharged if r.get('time_s', 0) > 3], key=lambda x: -x[2])[:12],
        'phase_seconds': {'vc_generation': round(t_gen, 1), 'discharge_wall': round(t_solve, 1), 'vacuity_wall': round(t_vac, 1)},
        'functions_under_contract': fn_infos,
        'lemmas': [lm.name for lm in lemmas],
        'vacuity_probes': {'reachable_exits_checked': len(vac_tasks), 'vacuous': vac_fail},
        'undischarged': [{'name': f['name'], 'result': f['result']} for f in failed],
        'undecided': undecided,
        'known_findings_matched': [h.get('id') for h, _ in known_hits],
        'bounded_standins': bounded_out,
        'translation_log': eng.log[:50],
        'stdout_events': eng.stdout_events[:50],
        'samples': samples,
        'explanation': prop.explanation or prop.notes,
        'exit_code': exit_code,
    }
    if bounded_out:
        coverage['evaluations'] = sum(int(b.get('cases', 0)) for b in bounded_out)
        coverage['distinct_nontrivial'] = sum(int(b.get('distinct', 0)) for b in bounded_out)
        coverage['rule'] = '; '.join('%s: %s' % (b['name'], b.get('rule', b.get('bound', ''))) for b in bounded_out)
    ev = {'property_id': pid, 'tier': tier, 'seed': int(seed), 'level': prop.level, 'coverage': coverage,
          'assumptions': assumptions, 'wall_s': round(time.time() - t0, 2), 'violations': len(violations)}
    with open(os.path.join(ev_dir, '%s.json' % pid), 'w') as fh:
        json.dump(ev, fh, indent=1, default=str)
    for ln in lines:
        print(ln)
    print('%s: %d/%d obligations discharged (%s), %d bounded stand-in(s), exit %d, %.1fs'
          % (pid, n_dis, n_obl, ', '.join('%s:%d' % kv for kv in sorted(backends.items())), len(bounded_out),
             exit_code, time.time() - t0))
    if verbose:
        for f in failed:
            print('  undischarged:', f['name'], f['result'], json.dumps(f.get('detail'), default=str)[:500])
    return exit_code


def _known_obligations(k):
    out = list(k.get('obligations', []))
    if k.get('obligation'):
        out.append(k['obligation'])
    return out


def _in_class(cls, witness):
    """witness_class: {'key': ..., 'in': [...]} or {'key':..., 'equals': ...} on the witness dict."""
    if witness is None:
        return False
    v = witness
    for part in cls.get('key', '').split('.'):
        if part == '':
            continue
        if isinstance(v, dict):
            v = v.get(part)
        else:
            return False
    if 'in' in cls:
        return v in cls['in']
    if 'equals' in cls:
        return v == cls['equals']
    if 'all_in' in cls:
        return isinstance(v, (list, str)) and all(x in cls['all_in'] for x in v)
    if 'any_in' in cls:
        return isinstance(v, (list, str)) and any(x in cls['any_in'] for x in v)
    return False


def script_replay(script, default_fn='RUN', extra=()):
    """replay hook: run a differential adapter under /venv/bin/python on the tree the VCs came from."""
    def rp(rec, repo, seed):
        fn = (rec.get('fn') or '').partition(':')[2] or default_fn
        cmd = [VENV_PY, os.path.join(VERIF, script), '--repo', repo, '--fn', fn, '--seed', str(seed)] + list(extra)
        env = dict(os.environ)
        env['PYTHONPATH'] = repo + os.pathsep + VERIF
        try:
            p = subprocess.run(cmd, capture_output=True, text=True, env=env, timeout=400)
        except subprocess.TimeoutExpired:
            rec['replay_error'] = 'replay timed out'
            return None
        out = p.stdout.strip().split('\n')[-1] if p.stdout.strip() else ''
        try:
            d = json.loads(out)
        except ValueError:
            rec['replay_error'] = (p.stderr or p.stdout)[-600:]
            return None
        rec['replay_cases'] = d.get('cases')
        return d.get('failing_input')
    return rp
