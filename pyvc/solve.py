"""pyvc.solve -- discharge VCs: z3 first, cvc5 on z3's unknowns; 16-process pool.

A VC is discharged when (axioms, hyps, not goal) is unsat.  'sat' is a refutation (with a
model of the probe constants), 'unknown'/timeout is undecided and is never reported as a
violation.
"""
import multiprocessing as mp
import os
import re
import subprocess
import tempfile
import time

import z3

from . import theory as T

Z3_TIMEOUT_MS = int(os.environ.get('PYVC_Z3_MS', '15000'))
CVC5_TIMEOUT_MS = int(os.environ.get('PYVC_CVC5_MS', '45000'))


_conj_cache = {}


def vc_to_smt2(vc, extra_axioms=(), negate=True):
    s = z3.Solver()
    forms = list(vc.hyps) + [vc.goal]
    ax = T.base_axioms()
    key = id(ax)
    if _conj_cache.get('key') != key:
        _conj_cache['key'] = key
        _conj_cache['conj'] = z3.And(ax)
    s.add(_conj_cache['conj'])      # one assertion: adding ~300 axioms one by one dominated the run time
    for a in extra_axioms:
        s.add(a)
    inst = T.instantiate(forms + list(extra_axioms))
    for a in inst:
        s.add(a)
    for h in vc.hyps:
        s.add(h)
    s.add(z3.Not(vc.goal) if negate else vc.goal)
    probes = getattr(vc, 'probes', None) or {}
    for k, t in probes.items():
        s.add(z3.Const('probe!' + k, t.sort()) == t)
    return s.to_smt2(), len(inst)


def _run_z3(text, timeout_ms):
    """the quantified query on the z3 5.1 command line binary: an external process, so its time limit is
    enforced by killing it (z3 does not always honour its own timeout during quantifier instantiation)."""
    with tempfile.NamedTemporaryFile('w', suffix='.smt2', delete=False) as fh:
        fh.write(text)
        if '(check-sat)' not in text:
            fh.write('\n(check-sat)\n')
        path = fh.name
    t0 = time.time()
    secs = max(1, int(round(timeout_ms / 1000.0)))
    try:
        p = subprocess.run(['z3-new', '-T:%d' % secs, '-smt2', path], capture_output=True, text=True, timeout=secs + 5)
        out = (p.stdout.strip().split('\n') or [''])[0]
    except subprocess.TimeoutExpired:
        out = 'timeout'
    finally:
        os.unlink(path)
    dt = time.time() - t0
    if out == 'unsat':
        return 'unsat', {'time': dt}
    if out == 'sat':
        return 'sat', {'time': dt}
    return 'unknown', {'time': dt, 'reason': out[:200] or 'no answer'}


def _check_with_interrupt(s, ctx, timeout_ms):
    """z3's own timeout is not always honoured (quantifier instantiation); a timer interrupts the context."""
    import threading
    timer = threading.Timer(timeout_ms / 1000.0 + 1.0, ctx.interrupt)
    timer.daemon = True
    timer.start()
    try:
        return s.check()
    except z3.Z3Exception:
        return z3.unknown
    finally:
        timer.cancel()


def _run_cvc5(text, timeout_ms):
    # cvc5 1.0.3 CLI; z3's (declare-datatypes) output is SMT-LIB 2.6 compatible
    txt = text
    if '(set-logic' not in txt:
        txt = '(set-logic ALL)\n' + txt
    with tempfile.NamedTemporaryFile('w', suffix='.smt2', delete=False) as fh:
        fh.write(txt)
        path = fh.name
    t0 = time.time()
    try:
        p = subprocess.run(['/usr/bin/cvc5', '--tlimit=%d' % timeout_ms, '--strings-exp', '--full-saturate-quant', path],
                           capture_output=True, text=True, timeout=timeout_ms / 1000.0 + 5)
        out = p.stdout.strip().split('\n')[0] if p.stdout.strip() else ''
        err = p.stderr.strip()[:300]
    except subprocess.TimeoutExpired:
        out, err = 'timeout', ''
    finally:
        os.unlink(path)
    dt = time.time() - t0
    if out == 'unsat':
        return 'unsat', {'time': dt}
    if out == 'sat':
        return 'sat', {'time': dt}
    return 'unknown', {'time': dt, 'reason': (out + ' ' + err).strip()}


GROUND_TIMEOUT_MS = int(os.environ.get('PYVC_GROUND_MS', '5000'))
CAND_CVC5_MS = int(os.environ.get('PYVC_CAND_CVC5_MS', '20000'))
CAND_Z3_MS = int(os.environ.get('PYVC_CAND_Z3_MS', '6000'))
QUICK_Z3_MS = int(os.environ.get('PYVC_QUICK_Z3_MS', '2000'))


def _run_ground(text, timeout_ms):
    """quantifier-free relaxation (pyvc.ground): unsat is a proof, sat a candidate model."""
    from . import ground as G
    t0 = time.time()
    try:
        forms = list(z3.parse_smt2_string(text))
        qf, stats = G.ground(forms)
    except z3.Z3Exception as ex:
        return 'error', {'msg': str(ex)[:300], 'time': time.time() - t0}
    s = z3.Solver()
    s.set('timeout', timeout_ms)
    for f in qf:
        s.add(f)
    r = _check_with_interrupt(s, z3.main_ctx(), timeout_ms)
    out = {'time': time.time() - t0, 'instances': stats['instances']}
    if r == z3.unsat:
        return 'unsat', out
    if r == z3.sat:
        m = s.model()
        pv = {}
        for d in m.decls():
            if d.name().startswith('probe!'):
                pv[d.name()[6:]] = str(m[d])
        out['probes'] = pv
        out['model'] = str(m)[:3000]
        return 'sat', out
    try:
        out['reason'] = s.reason_unknown()
    except z3.Z3Exception:
        out['reason'] = 'interrupted'
    return 'unknown', out


RETRY_CVC5_MS = int(os.environ.get('PYVC_RETRY_CVC5_MS', '60000'))
RETRY_Z3_MS = int(os.environ.get('PYVC_RETRY_Z3_MS', '30000'))


def solve_retry(task):
    """second chance for an obligation the first pass left open: full budgets, no candidate shortcut.  Only 'unsat' changes anything:
    it guards against a proof that merely ran out of time on a loaded machine being reported as a failing obligation."""
    name, text, want = task
    r2, i2 = _run_cvc5(text, RETRY_CVC5_MS)
    if r2 == 'unsat':
        return name, 'unsat', {'backend': 'cvc5', 'time': i2.get('time', 0), 'retry': True}
    res, info = _run_z3(text, RETRY_Z3_MS)
    if res == 'unsat':
        return name, 'unsat', {'backend': 'z3', 'time': i2.get('time', 0) + info.get('time', 0), 'retry': True}
    return name, 'unknown', {'backend': 'z3+cvc5', 'time': i2.get('time', 0) + info.get('time', 0)}


def solve_one(task):
    name, text, want = task
    if want == 'retry':
        return solve_retry(task)
    total = 0.0
    if want != 'reach':
        # a short attempt with z3's own E-matching first: most obligations fall here in milliseconds
        res0, info0 = _run_z3(text, QUICK_Z3_MS)
        total += info0.get('time', 0)
        if res0 == 'unsat':
            return name, 'unsat', {'backend': 'z3', 'time': total}
    gres, ginfo = _run_ground(text, GROUND_TIMEOUT_MS)
    total += ginfo.get('time', 0)
    if gres == 'unsat':
        return name, 'unsat', {'backend': 'z3-ground', 'time': total, 'instances': ginfo.get('instances')}
    if want == 'reach':
        return name, gres, {'backend': 'z3-ground', 'time': total}
    # cvc5 first (it decides the sequence-heavy obligations z3 leaves open in a few seconds), then a longer z3 attempt
    # (shorter budgets when the relaxation already has a counter-model candidate: a refuted obligation must not cost a minute)
    cvc5_ms = CVC5_TIMEOUT_MS if gres != 'sat' else min(CVC5_TIMEOUT_MS, CAND_CVC5_MS)
    z3_ms = Z3_TIMEOUT_MS if gres != 'sat' else min(Z3_TIMEOUT_MS, CAND_Z3_MS)
    r2, i2 = _run_cvc5(text, cvc5_ms)
    total += i2.get('time', 0)
    if r2 == 'unsat':
        return name, 'unsat', {'backend': 'cvc5', 'time': total}
    res, info = _run_z3(text, z3_ms)
    total += info.get('time', 0)
    if res == 'unsat':
        return name, 'unsat', {'backend': 'z3', 'time': total}
    out = {'backend': 'z3+cvc5', 'time': total, 'reason': 'z3: %s; cvc5: %s' % (
        info.get('reason', info.get('msg', res)), i2.get('reason', r2))}
    if gres == 'sat':
        out['ground'] = 'candidate counter-model from the quantifier-free relaxation'
        out['probes'] = ginfo.get('probes')
        out['model'] = ginfo.get('model')
        return name, 'sat', out
    return name, 'unknown', out


HARD_LIMIT_S = float(os.environ.get('PYVC_HARD_S', '170'))


def _worker(task, conn):
    try:
        conn.send(solve_one(task))
    except Exception as ex:      # a crash of a back end is 'unknown', never a verdict
        conn.send((task[0], 'unknown', {'backend': 'none', 'time': 0, 'reason': 'worker error: %r' % (ex,)}))
    finally:
        conn.close()


def solve_all(tasks, procs=None):
    """one process per obligation, at most `procs` at a time, each killed after a hard limit."""
    procs = procs or min(16, os.cpu_count() or 4)
    if not tasks:
        return []
    ctx = mp.get_context('fork')
    results = [None] * len(tasks)
    pending = list(range(len(tasks)))
    running = {}
    while pending or running:
        while pending and len(running) < procs:
            i = pending.pop(0)
            parent, child = ctx.Pipe(duplex=False)
            p = ctx.Process(target=_worker, args=(tasks[i], child))
            p.start()
            child.close()
            running[i] = (p, parent, time.time())
        done = []
        for i, (p, conn, t0) in running.items():
            if conn.poll(0):
                try:
                    results[i] = conn.recv()
                except EOFError:
                    results[i] = (tasks[i][0], 'unknown', {'backend': 'none', 'time': time.time() - t0, 'reason': 'worker died'})
                p.join(1)
                done.append(i)
            elif not p.is_alive():
                results[i] = (tasks[i][0], 'unknown', {'backend': 'none', 'time': time.time() - t0, 'reason': 'worker died'})
                done.append(i)
            elif time.time() - t0 > HARD_LIMIT_S:
                p.kill()
                p.join(1)
                results[i] = (tasks[i][0], 'unknown', {'backend': 'none', 'time': time.time() - t0,
                                                       'reason': 'hard time limit (%ds) reached' % HARD_LIMIT_S})
                done.append(i)
        for i in done:
            running.pop(i)
        if not done:
            time.sleep(0.02)
    return results


# ------------------------------------------------------------------ refutation by grounding
def vc_ground_smt2(vc, extra_axioms=()):
    from . import ground as G
    forms = list(vc.hyps) + [vc.goal]
    inst = T.instantiate(forms + list(extra_axioms))
    allf = list(T.base_axioms()) + list(extra_axioms) + inst + list(vc.hyps) + [z3.Not(vc.goal)]
    qf, stats = G.ground(allf)
    s = z3.Solver()
    for f in qf:
        s.add(f)
    probes = getattr(vc, 'probes', None) or {}
    for k, t in probes.items():
        s.add(z3.Const('probe!' + k, t.sort()) == t)
    return s.to_smt2(), stats
