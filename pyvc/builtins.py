"""pyvc.builtins -- assumed contracts of Python builtins / stdlib used by the verified code.

Each entry is part of the trusted base (DESIGN.md 3.3) and is recorded in
Engine.assumed when used, so the evidence lists exactly which ones a proof relied on.
"""
import ast

import z3

from . import theory as T
from .engine import (ZV, PNone, PTuple, PList, PRec, PObj, PFun, Unsupported, fresh, zint, zbool, zstr, simp,
                     RaisePath, box, unbox, shape_of, fresh_name)
from .theory import TInt, TBool, TF, TStr, TList, TTuple, TRec, TOpt, TDict, TBag


def install(eng):
    b = eng.builtins
    b['len'] = _len
    b['chr'] = _chr
    b['str'] = _str
    b['int'] = _int
    b['copy.copy'] = _copy
    b['list'] = _copy_list
    b['method.append'] = _append
    b['method.extend'] = _extend
    b['method.isdigit'] = _charpred(T.c_isdigit, 'isdigit')
    b['method.isalpha'] = _charpred(T.c_isalpha, 'isalpha')
    b['method.isupper'] = _isupper
    b['method.islower'] = _charpred(T.c_islower, 'islower')
    b['method.isspace'] = _charpred(T.c_isspace, 'isspace')
    b['method.isalnum'] = _charpred(T.c_isalnum, 'isalnum')
    b['method.lower'] = _lower
    b['method.upper'] = _upper
    b['method.find'] = _find
    b['method.rfind'] = _rfind
    b['method.join'] = _join
    b['method.copy'] = lambda eng, e, st, val, valexpr, args, kw: val
    b['collections:Counter'] = _counter_new
    b['method.clear'] = _dict_clear
    b['method.get'] = _rec_get
    install_config(eng)
    b['heapq.heappush'] = _heappush
    b['sys.setrecursionlimit'] = lambda eng, e, st, args, kw: PNone()
    b['traceback.print_exc'] = _print_exc
    install_os(eng)
    install_argparse(eng)
    b['heapq.heappop'] = _heappop


def _use(eng, name):
    eng.assumed.add('builtin:' + name)


def _chr(eng, e, st, args, kw):
    v = args[0]
    if isinstance(v, ZV) and v.pyval is not None:
        return zstr(chr(v.pyval))
    return ZV(TStr, T.schar(eng.as_int(v)))


def _len(eng, e, st, args, kw):
    return ZV(TInt, simp(eng.length(args[0], st)))


def _str(eng, e, st, args, kw):
    v = args[0]
    if isinstance(v, ZV) and v.shape == TStr:
        return v
    if isinstance(v, ZV) and v.shape == TInt:
        if v.pyval is not None:
            return zstr(str(v.pyval))
        _use(eng, 'str(int) is injective')
        return ZV(TStr, T.sofint(v.term))
    if isinstance(v, ZV) and v.shape == TF:
        _use(eng, 'str(float) is repr(float)')
        return ZV(TStr, s_offloat(v.term))
    if isinstance(v, (ZV, PList, PTuple, PRec)):
        _use(eng, 'str(x) of a container is some string (only used in messages)')
        return fresh(TStr, 'str_of')
    raise Unsupported('str() of %r' % (v,))


s_isint = z3.Function('s_isint', T.Str, T.BoolS)     # int(s) succeeds
s_toint = z3.Function('s_toint', T.Str, T.IntS)      # its value


def _int(eng, e, st, args, kw):
    if len(args) != 1 or kw:
        raise Unsupported('%s: int() with a base argument (line %d)' % (eng.cur.qualname, e.lineno))
    v = args[0]
    if isinstance(v, ZV) and v.shape == TInt:
        return v
    if isinstance(v, ZV) and v.shape == TStr:
        if v.pyval is not None:
            try:
                return zint(int(v.pyval))
            except ValueError:
                raise RaisePath(st, 'ValueError')
        _use(eng, 'int(str): ValueError iff not s_isint(s)')
        ok = s_isint(v.term)
        k = st.choose(2)
        if k == 0:
            st.assume(ok)
            return ZV(TInt, s_toint(v.term))
        st.assume(z3.Not(ok))
        raise RaisePath(st, 'ValueError')
    raise Unsupported('int() of %r' % (v,))


def _copy(eng, e, st, args, kw):
    _use(eng, 'copy.copy(list) is a shallow copy (value semantics for lists of immutable items)')
    return args[0]


def _copy_list(eng, e, st, args, kw):
    if not args:
        return PList([])
    return args[0]


def _append(eng, e, st, val, valexpr, args, kw):
    new = eng.list_append(val, args[0], st)
    eng.assign(valexpr, new, st)
    return PNone()


def _extend(eng, e, st, val, valexpr, args, kw):
    new = eng.list_concat(val, args[0], st)
    eng.assign(valexpr, new, st)
    return PNone()


def _one_char(eng, v, st):
    """code point of a one-character string value, or None."""
    if isinstance(v, ZV) and v.shape == TStr:
        t = v.term
        if z3.is_app(t) and t.decl().name() == 'schar':
            return t.arg(0)
        if v.pyval is not None and len(v.pyval) == 1:
            return z3.IntVal(ord(v.pyval))
    return None


def all_chars(pred, s):
    j = z3.Int('j!a')
    return z3.ForAll([j], z3.Implies(z3.And(0 <= j, j < T.slen(s)), pred(T.sch(s, j))),
                     patterns=[T.sch(s, j)])


def _charpred(pred, name):
    def h(eng, e, st, val, valexpr, args, kw):
        c = _one_char(eng, val, st)
        if c is not None:
            return ZV(TBool, pred(c))
        if isinstance(val, ZV) and val.shape == TStr:
            # str.isX(): non-empty and every character satisfies the predicate
            return ZV(TBool, z3.And(T.slen(val.term) > 0, all_chars(pred, val.term)))
        raise Unsupported('.%s() on %r' % (name, val))
    return h


def _isupper(eng, e, st, val, valexpr, args, kw):
    c = _one_char(eng, val, st)
    if c is not None:
        return ZV(TBool, T.c_isupper(c))
    raise Unsupported('.isupper() on a multi-character string')


def _lower(eng, e, st, val, valexpr, args, kw):
    if isinstance(val, ZV) and val.shape == TStr:
        if val.pyval is not None:
            return zstr(val.pyval.lower())
        return ZV(TStr, T.slower(val.term))
    raise Unsupported('.lower() on %r' % (val,))


def _upper(eng, e, st, val, valexpr, args, kw):
    if isinstance(val, ZV) and val.shape == TStr:
        if val.pyval is not None:
            return zstr(val.pyval.upper())
        c = _one_char(eng, val, st)
        if c is not None:
            return ZV(TStr, T.c_upper1(c))
        return ZV(TStr, T.supper(val.term))
    raise Unsupported('.upper() on %r' % (val,))


def _base_of(s):
    """(base string, lo, hi) when s is syntactically a slice, else (s, 0, len)"""
    if z3.is_app(s) and s.decl().name() == 'sslice':
        return s.arg(0), s.arg(1), s.arg(2)
    return s, z3.IntVal(0), T.slen(s)


def occurs_abs(base, lo, hi, lit, p):
    """the literal occurs in base at absolute position p, inside the window [lo, hi)"""
    conj = [lo <= p, p + len(lit) <= hi]
    for k, ch in enumerate(lit):
        conj.append(T.sch(base, simp(p + k)) == ord(ch))
    return z3.And(conj)


def occurs_sym(base, lo, hi, pat, p):
    """the (symbolic) string pat occurs in base at absolute position p inside [lo, hi)"""
    k = z3.Int('k!os')
    return z3.And(lo <= p, p + T.slen(pat) <= hi,
                  z3.ForAll([k], z3.Implies(z3.And(0 <= k, k < T.slen(pat)), T.sch(base, p + k) == T.sch(pat, k)),
                            patterns=[T.sch(pat, k)]))


def _find_symbolic(eng, e, st, val, pat):
    _use(eng, 'str.find(s) returns the least occurrence index or -1')
    base, lo, hi = _base_of(val.term)
    r = z3.Int(fresh_name('find'))
    p = z3.Int('p!fs')
    none_before = z3.ForAll([p], z3.Implies(z3.And(lo <= p, p < lo + r), z3.Not(occurs_sym(base, lo, hi, pat.term, p))),
                            patterns=[T.sch(base, p)])
    nowhere = z3.ForAll([p], z3.Not(occurs_sym(base, lo, hi, pat.term, p)), patterns=[T.sch(base, p)])
    st.assume(z3.Or(z3.And(r == -1, nowhere), z3.And(r >= 0, occurs_sym(base, lo, hi, pat.term, simp(lo + r)), none_before)))
    return ZV(TInt, r)


def _rfind(eng, e, st, val, valexpr, args, kw):
    """s.rfind(literal): -1 when it does not occur, else the greatest index of an occurrence."""
    pat = args[0]
    if not (len(args) == 1 and isinstance(val, ZV) and val.shape == TStr and isinstance(pat, ZV) and pat.pyval is not None):
        raise Unsupported('rfind form')
    _use(eng, 'str.rfind(literal) returns the greatest occurrence index or -1')
    lit = pat.pyval
    base, lo, hi = _base_of(val.term)
    r = z3.Int(fresh_name('rfind'))
    p = z3.Int('p!rf')
    none_after = z3.ForAll([p], z3.Implies(p > lo + r, z3.Not(occurs_abs(base, lo, hi, lit, p))), patterns=[T.sch(base, p)])
    nowhere = z3.ForAll([p], z3.Not(occurs_abs(base, lo, hi, lit, p)), patterns=[T.sch(base, p)])
    st.assume(z3.Or(z3.And(r == -1, nowhere), z3.And(r >= 0, occurs_abs(base, lo, hi, lit, simp(lo + r)), none_after)))
    return ZV(TInt, r)


def occurs_at(eng, s, lit, i):
    """the literal occurs in s at position i (z3 Bool)."""
    base, lo, hi = _base_of(s)
    return occurs_abs(base, lo, hi, lit, simp(lo + i))


def _find(eng, e, st, val, valexpr, args, kw):
    """s.find(literal): -1 when it does not occur, else the least index of an occurrence.
    Stated over absolute positions of the underlying string so that the quantified parts have the
    pattern sch(base, p)."""
    if len(args) != 1:
        raise Unsupported('find with start/end')
    pat = args[0]
    if not (isinstance(val, ZV) and val.shape == TStr and isinstance(pat, ZV) and pat.shape == TStr):
        raise Unsupported('find on non-strings')
    if pat.pyval is None:
        return _find_symbolic(eng, e, st, val, pat)
    _use(eng, 'str.find(literal) returns the least occurrence index or -1')
    lit = pat.pyval
    base, lo, hi = _base_of(val.term)
    r = z3.Int(fresh_name('find'))
    p = z3.Int('p!f')
    none_before = z3.ForAll([p], z3.Implies(z3.And(lo <= p, p < lo + r), z3.Not(occurs_abs(base, lo, hi, lit, p))),
                            patterns=[T.sch(base, p)])
    nowhere = z3.ForAll([p], z3.Not(occurs_abs(base, lo, hi, lit, p)), patterns=[T.sch(base, p)])
    st.assume(z3.Or(z3.And(r == -1, nowhere), z3.And(r >= 0, occurs_abs(base, lo, hi, lit, simp(lo + r)), none_before)))
    return ZV(TInt, r)


def contains(eng, container, item, st, node):
    """item in container"""
    if isinstance(container, ZV) and container.shape == TStr and isinstance(item, ZV) and item.pyval is not None:
        if container.pyval is not None:
            return z3.BoolVal(item.pyval in container.pyval)
        _use(eng, "literal in str: some index where the literal occurs")
        j = z3.Int('j!in')
        # existential as a fresh witness in positive position is not sound under negation,
        # so use an uninterpreted 'first occurrence' function and the find contract instead
        r = z3.Int(fresh_name('in'))
        lit = item.pyval
        s = container.term
        jj = z3.Int('j!g')
        base, lo, hi = _base_of(s)
        st.assume(z3.Or(z3.And(r == -1, z3.ForAll([jj], z3.Not(occurs_abs(base, lo, hi, lit, jj)), patterns=[T.sch(base, jj)])),
                        z3.And(r >= 0, occurs_at(eng, s, lit, r))))
        return r != -1
    if isinstance(container, (PList, PTuple)):
        # x in (a, b, c): equal to one of the listed elements
        return z3.Or([eng.equal(item, x, st) for x in container.items] + [z3.BoolVal(False)])
    if isinstance(container, ZV) and isinstance(container.shape, TDict):
        return container.shape.has(container.term, box(item, container.shape.k))
    if isinstance(container, ZV) and isinstance(container.shape, TList):
        sh = container.shape
        x = box(item, sh.elem)
        return T.list_contains(sh)(container.term, x)
    raise Unsupported('in on %r' % (container,))


def _join(eng, e, st, val, valexpr, args, kw):
    """sep.join(xs) for sep == '' only."""
    if isinstance(val, ZV) and val.pyval not in (None, '') and isinstance(args[0], ZV) and isinstance(args[0].shape, TList):
        key = ''.join('%02x' % ord(c) for c in val.pyval)
        f = z3.Function('s_join_' + key, TList(TStr).sort(), T.Str)
        return ZV(TStr, f(args[0].term))
    if not (isinstance(val, ZV) and val.pyval == ''):
        raise Unsupported('join with a non-empty separator')
    xs = args[0]
    if isinstance(xs, ZV) and xs.shape == TStr:
        return xs      # ''.join(str) is the string itself
    if isinstance(xs, PList):
        out = zstr('')
        for x in xs.items:
            out = eng.binop(ast.Add(), out, x, st, e)
        return out
    h = eng.builtins.get('join.list')
    if h is not None:
        return h(eng, e, st, xs)
    raise Unsupported("''.join of a symbolic list needs a spec hook")


# ------------------------------------------------------------------ heapq on a bag view
_method_fun = {}


def method_relation(eng, cls, name, shape):
    """An uninterpreted relation standing for a comparison method, axiomatised by the
    *contract* of that method (modular: the body of __lt__ is verified separately)."""
    from .engine import Contract, Ctx
    key = (cls, name)
    if key in _method_fun:
        return _method_fun[key]
    q = '%s.%s' % (cls, name)
    if q not in Contract.registry:
        raise Unsupported('heapq needs a contract for %s' % q)
    con = Contract.registry[q]
    f = z3.Function('rel_' + T._san(q), shape.sort(), shape.sort(), T.BoolS)
    a = z3.Const('a!rel', shape.sort())
    bb = z3.Const('b!rel', shape.sort())
    c = Ctx({'self': unbox(a, shape), 'other': unbox(bb, shape)}, result=ZV(TBool, f(a, bb)), eng=eng)
    posts = con.cases[0].post(c)
    ax = z3.ForAll([a, bb], z3.And([p for _, p in posts]), patterns=[f(a, bb)])
    _method_fun[key] = (f, ax)
    return _method_fun[key]


def _heappush(eng, e, st, args, kw):
    heap, item = args
    if not (isinstance(heap, ZV) and isinstance(heap.shape, TBag)):
        raise Unsupported('heappush on a non-bag value')
    _use(eng, 'heapq.heappush adds one occurrence of the item to the heap multiset')
    sh = heap.shape
    x = box(item, sh.elem)
    new = ZV(sh, z3.Store(heap.term, x, z3.Select(heap.term, x) + 1))
    st.assume(T.bag_size(sh)(new.term) == T.bag_size(sh)(heap.term) + 1)
    eng.assign(e.args[0], new, st)
    return PNone()


def _heappop(eng, e, st, args, kw):
    heap = args[0]
    if not (isinstance(heap, ZV) and isinstance(heap.shape, TBag)):
        raise Unsupported('heappop on a non-bag value')
    _use(eng, 'heapq.heappop removes and returns an element x of the heap such that no element y has y < x '
              '(uses only __lt__); IndexError on an empty heap')
    sh = heap.shape
    size = T.bag_size(sh)
    eng.safety(st, size(heap.term) > 0, 'heappop_nonempty', e)
    lt, ax = method_relation(eng, sh.elem.cls, '__lt__', sh.elem)
    r = z3.Const(fresh_name('pop'), sh.elem.sort())
    y = z3.Const('y!pop', sh.elem.sort())
    st.assume(ax)
    st.assume(z3.Select(heap.term, r) > 0)
    st.assume(z3.ForAll([y], z3.Implies(z3.Select(heap.term, y) > 0, z3.Not(lt(y, r))),
                        patterns=[z3.Select(heap.term, y)]))
    new = ZV(sh, z3.Store(heap.term, r, z3.Select(heap.term, r) - 1))
    st.assume(size(new.term) == size(heap.term) - 1)
    eng.assign(e.args[0], new, st)
    return unbox(r, sh.elem)


# ------------------------------------------------------------------ configparser.ConfigParser (assumed contract)
CONFIG_KEY = TTuple([TStr, TStr])
CONFIG_OPTS = TDict(CONFIG_KEY, TStr)
CONFIG_CLS = 'configparser:ConfigParser'
s_offloat = z3.Function('s_offloat', T.F, T.Str)      # str(float) == repr(float)
s_tofloat = z3.Function('s_tofloat', T.Str, T.F)      # float(str)
s_tobool = z3.Function('s_tobool', T.Str, T.BoolS)


def config_shape():
    from .engine import ObjShape
    return ObjShape(CONFIG_CLS, {'opts': CONFIG_OPTS})


def float_roundtrip_axiom():
    x = z3.Const('x!fr', T.F)
    return z3.ForAll([x], s_tofloat(s_offloat(x)) == x, patterns=[s_offloat(x)])


def _cfg_key(eng, args):
    return CONFIG_KEY.mk(box(args[0], TStr), box(args[1], TStr))


def _cfg_set(eng, e, st, args, kw):
    obj = args[0]
    _use(eng, 'ConfigParser.set/get/getfloat/getint/has_option behave as a map (section, option) -> str')
    opts = obj.fields['opts']
    new = ZV(CONFIG_OPTS, CONFIG_OPTS.put(opts.term, _cfg_key(eng, args[1:]), box(args[3], TStr)))
    eng.assign(e.func.value, obj.with_field('opts', new), st)
    return PNone()


def _cfg_get_raw(eng, e, st, args, kw=None):
    if kw or len(args) > 3:
        # fallback= / raw= / vars= change what a missing option does: not modelled (a model that ignored them would report a missing option as unsafe)
        raise Unsupported('ConfigParser.get*() with fallback / raw / vars')
    obj = args[0]
    _use(eng, 'ConfigParser.set/get/getfloat/getint/has_option behave as a map (section, option) -> str')
    opts = obj.fields['opts']
    k = _cfg_key(eng, args[1:])
    eng.safety(st, CONFIG_OPTS.has(opts.term, k), 'config_option_present', e)
    return CONFIG_OPTS.get(opts.term, k)


def _cfg_get(eng, e, st, args, kw):
    return ZV(TStr, _cfg_get_raw(eng, e, st, args, kw))


def _cfg_getfloat(eng, e, st, args, kw):
    _use(eng, 'float(repr(x)) == x for every finite float x (shortest round-trip repr)')
    st.assume(float_roundtrip_axiom())
    return ZV(TF, s_tofloat(_cfg_get_raw(eng, e, st, args, kw)))


def _cfg_getint(eng, e, st, args, kw):
    return ZV(TInt, s_toint(_cfg_get_raw(eng, e, st, args, kw)))


def _cfg_getboolean(eng, e, st, args, kw):
    return ZV(TBool, s_tobool(_cfg_get_raw(eng, e, st, args, kw)))


def _cfg_remove(eng, e, st, args, kw):
    """remove_option(section, option): the option is absent afterwards, every other option is untouched; returns whether it existed"""
    obj = args[0]
    _use(eng, 'ConfigParser.set/get/getfloat/getint/has_option/remove_option behave as a map (section, option) -> str')
    opts = obj.fields['opts']
    k = _cfg_key(eng, args[1:])
    existed = CONFIG_OPTS.has(opts.term, k)
    new = ZV(CONFIG_OPTS, CONFIG_OPTS.mk(z3.Store(CONFIG_OPTS.has_map(opts.term), k, z3.BoolVal(False)), CONFIG_OPTS.get_map(opts.term)))
    eng.assign(e.func.value, obj.with_field('opts', new), st)
    return ZV(TBool, existed)


def _cfg_has(eng, e, st, args, kw):
    obj = args[0]
    return ZV(TBool, CONFIG_OPTS.has(obj.fields['opts'].term, _cfg_key(eng, args[1:])))


SECTION_CLS = 'configparser:SectionProxy'
fs_config = z3.Function('fs_config', T.Str, CONFIG_OPTS.sort())     # options stored in the INI file at a path


def _cfg_new(eng, e, st, args, kw):
    empty = CONFIG_OPTS.mk(z3.K(CONFIG_KEY.sort(), z3.BoolVal(False)), z3.Const('cfg_empty_values', z3.ArraySort(CONFIG_KEY.sort(), T.Str)))
    return PObj(CONFIG_CLS, {'opts': ZV(CONFIG_OPTS, empty)})


def _cfg_read_file(eng, e, st, args, kw):
    """read_file(file): the parser now holds the options of that file, or configparser.Error"""
    obj, f = args[0], args[1]
    _use(eng, 'ConfigParser.read_file(f) loads fs_config(path of f) or raises configparser.Error')
    k = st.choose(2)
    if k == 1:
        raise RaisePath(st, 'configparser.Error')
    new = ZV(CONFIG_OPTS, fs_config(box(f.fields['name'], TStr)))
    eng.assign(e.func.value, obj.with_field('opts', new), st)
    return PNone()


def _cfg_getitem(eng, node, st, obj, key):
    return PObj(SECTION_CLS, {'cfg': obj, 'section': key})


def _section_getitem(eng, node, st, obj, key):
    opts = obj.fields['cfg'].fields['opts']
    k = CONFIG_KEY.mk(box(obj.fields['section'], TStr), box(key, TStr))
    eng.safety(st, CONFIG_OPTS.has(opts.term, k), 'config_option_present', node)
    return ZV(TStr, CONFIG_OPTS.get(opts.term, k))


def install_config(eng):
    b = eng.builtins
    b['configparser.ConfigParser'] = _cfg_new
    b[CONFIG_CLS + '.read_file'] = _cfg_read_file
    b[CONFIG_CLS + '.add_section'] = lambda eng, e, st, args, kw: PNone()
    b[CONFIG_CLS + '.__getitem__'] = _cfg_getitem
    b[SECTION_CLS + '.__getitem__'] = _section_getitem
    b[CONFIG_CLS + '.set'] = _cfg_set
    b[CONFIG_CLS + '.remove_option'] = _cfg_remove
    b[CONFIG_CLS + '.get'] = _cfg_get
    b[CONFIG_CLS + '.getfloat'] = _cfg_getfloat
    b[CONFIG_CLS + '.getint'] = _cfg_getint
    b[CONFIG_CLS + '.getboolean'] = _cfg_getboolean
    b[CONFIG_CLS + '.has_option'] = _cfg_has


# ------------------------------------------------------------------ files, threads, time, input
FILE_CLS = 'builtins:file'
THREAD_CLS = 'threading:Thread'


def _open(eng, e, st, args, kw):
    """open(name, mode): a file object, or IOError/OSError (both outcomes are explored)."""
    _use(eng, 'open() returns a file object or raises IOError')
    k = st.choose(2)
    if k == 1:
        raise RaisePath(st, 'IOError')
    mode = args[1] if len(args) > 1 else kw.get('mode', zstr('r'))
    name = args[0]
    lines = ZV(TList(TStr), fs_lines(box(name, TStr)))
    st.assume(TList(TStr).len(lines.term) >= 0)
    return PObj(FILE_CLS, {'name': name, 'mode': mode, 'lines': lines, 'pos': zint(0)})


fs_lines = z3.Function('fs_lines', T.Str, TList(TStr).sort())   # text lines of the file at a path (stable during a call)
p_dirname = z3.Function('p_dirname', T.Str, T.Str)
p_realpath = z3.Function('p_realpath', T.Str, T.Str)
pjoin = z3.Function('pjoin', T.Str, T.Str, T.Str)              # os.path.join of two components
s_rstrip = z3.Function('s_rstrip', T.Str, T.Str)               # str.rstrip()
s_split_tab = z3.Function('s_split_tab', T.Str, TList(TStr).sort())   # str.split('\t')
s_isfloat = z3.Function('s_isfloat', T.Str, T.BoolS)


def _encode(eng, e, st, val, valexpr, args, kw):
    """s.encode(enc): assumed not to raise (A-CODEC: the text was decoded with / is encodable in the ruleset's encoding)"""
    _use(eng, 'A-CODEC: str.encode(encoding) of text read with that encoding does not raise')
    return PNone()


def _print_exc(eng, e, st, args, kw):
    """traceback.print_exc(file=...): recorded as a stdout event when the file is not sys.stderr"""
    import ast as _ast
    tgt = [k for k in e.keywords if k.arg == 'file']
    if tgt and _ast.unparse(tgt[0].value) != 'sys.stderr':
        eng.stdout_events.append({'fn': eng.cur.qualname, 'line': e.lineno, 'what': 'traceback.print_exc(file=%s)' % _ast.unparse(tgt[0].value)})
    return PNone()


def _path_join(eng, e, st, args, kw):
    _use(eng, 'os.path.join is a function of its components')
    t = box(args[0], TStr)
    for a in args[1:]:
        t = pjoin(t, box(a, TStr))
    return ZV(TStr, t)


def _seek(eng, e, st, args, kw):
    obj = args[0]
    if not (isinstance(args[1], ZV) and args[1].pyval == 0):
        raise Unsupported('file.seek to a position other than 0')
    eng.assign(e.func.value, obj.with_field('pos', zint(0)), st)
    return PNone()


def _startswith(eng, e, st, val, valexpr, args, kw):
    pat = args[0]
    if isinstance(val, ZV) and val.shape == TStr and isinstance(pat, ZV) and pat.pyval is not None:
        s = val.term
        return ZV(TBool, z3.And([T.slen(s) >= len(pat.pyval)] + [eng.char_at(s, z3.IntVal(i)) == ord(ch) for i, ch in enumerate(pat.pyval)]))
    raise Unsupported('startswith form')


def _endswith(eng, e, st, val, valexpr, args, kw):
    pat = args[0]
    if isinstance(val, ZV) and val.shape == TStr and isinstance(pat, ZV) and pat.pyval is not None:
        s = val.term
        n = T.slen(s)
        L = len(pat.pyval)
        return ZV(TBool, z3.And([n >= L] + [T.sch(s, n - L + i) == ord(ch) for i, ch in enumerate(pat.pyval)]))
    raise Unsupported('endswith form')


BYTES = T._Prim('bytes', z3.DeclareSort('Bytes'))
hex_bytes = z3.Function('hex_bytes', T.Str, BYTES.sort())
hex_ok = z3.Function('hex_ok', T.Str, T.BoolS)
bytes_decode = z3.Function('bytes_decode', BYTES.sort(), T.Str, T.Str)
decode_ok = z3.Function('decode_ok', BYTES.sort(), T.Str, T.BoolS)


def _fromhex(eng, e, st, args, kw):
    """bytes.fromhex(s): ValueError when s is not hex"""
    s = box(args[0], TStr)
    k = st.choose(2)
    if k == 1:
        st.assume(z3.Not(hex_ok(s)))
        raise RaisePath(st, 'ValueError')
    st.assume(hex_ok(s))
    return ZV(BYTES, hex_bytes(s))


def _decode(eng, e, st, val, valexpr, args, kw):
    if isinstance(val, ZV) and val.shape == BYTES:
        enc = box(args[0], TStr)
        k = st.choose(2)
        if k == 1:
            st.assume(z3.Not(decode_ok(val.term, enc)))
            raise RaisePath(st, 'UnicodeDecodeError')
        st.assume(decode_ok(val.term, enc))
        return ZV(TStr, bytes_decode(val.term, enc))
    raise Unsupported('.decode() on %r' % (val,))


def _readline(eng, e, st, args, kw):
    """file.readline(): the next line, '' at end of file; UnicodeError is possible for undecodable bytes"""
    if len(args) > 1 or kw:
        # readline(size) may return part of a line: a different function of the file, outside the model
        raise Unsupported('%s: readline() with a size argument (line %d)' % (eng.cur.qualname, e.lineno))
    f = args[0]
    lines, pos = f.fields['lines'], f.fields['pos']
    k = st.choose(3)
    if k == 2:
        # an undecodable line is consumed
        st.assume(pos.term < TList(TStr).len(lines.term))
        eng.assign(e.func.value, f.with_field('pos', ZV(TInt, pos.term + 1)), st)
        raise RaisePath(st, 'UnicodeError')
    if k == 1:
        st.assume(pos.term >= TList(TStr).len(lines.term))
        return zstr('')
    st.assume(pos.term < TList(TStr).len(lines.term))
    line = z3.Select(TList(TStr).arr(lines.term), pos.term)
    st.assume(T.slen(line) >= 1)
    eng.assign(e.func.value, f.with_field('pos', ZV(TInt, pos.term + 1)), st)
    return ZV(TStr, line)


def _rstrip(eng, e, st, val, valexpr, args, kw):
    if args:
        return _strip_fn('rstrip')(eng, e, st, val, valexpr, args, kw)
    if isinstance(val, ZV) and val.shape == TStr:
        if val.pyval is not None:
            return zstr(val.pyval.rstrip())
        return ZV(TStr, s_rstrip(val.term))
    raise Unsupported('.rstrip() on %r' % (val,))


_strip_fns = {}


def _strip_fn(name):
    def h(eng, e, st, val, valexpr, args, kw):
        if not (isinstance(val, ZV) and val.shape == TStr):
            raise Unsupported('.%s() on %r' % (name, val))
        if val.pyval is not None and all(isinstance(a, ZV) and a.pyval is not None for a in args):
            return zstr(getattr(val.pyval, name)(*[a.pyval for a in args]))
        # the argument of strip/rstrip/lstrip is a SET of characters: its order and repetitions do not matter
        key = name + ''.join('_%s' % ''.join('%02x' % ord(c) for c in sorted(set(a.pyval))) for a in args if isinstance(a, ZV) and a.pyval is not None)
        if key not in _strip_fns:
            _strip_fns[key] = z3.Function('s_' + key, T.Str, T.Str)
        return ZV(TStr, _strip_fns[key](val.term))
    return h


_split_fns = {}


def _split(eng, e, st, val, valexpr, args, kw):
    if kw or not (len(args) == 1 and isinstance(args[0], ZV) and args[0].pyval is not None):
        raise Unsupported("split without a literal separator or with maxsplit")
    if args[0].pyval != '\t':
        sep = args[0].pyval
        key = ''.join('%02x' % ord(c) for c in sep)
        if key not in _split_fns:
            _split_fns[key] = z3.Function('s_split_' + key, T.Str, TList(TStr).sort())
        r = _split_fns[key](val.term)
        st.assume(TList(TStr).len(r) >= 1)
        return ZV(TList(TStr), r)
    if isinstance(val, ZV) and val.shape == TStr:
        _use(eng, "str.split('\\t') returns at least one field")
        r = s_split_tab(val.term)
        st.assume(TList(TStr).len(r) >= 1)
        return ZV(TList(TStr), r)
    raise Unsupported('.split() on %r' % (val,))


def _float(eng, e, st, args, kw):
    v = args[0]
    if isinstance(v, ZV) and v.shape == TF:
        return v
    if isinstance(v, ZV) and v.shape == TInt:
        from .engine import int_to_f
        return ZV(TF, int_to_f(v.term))
    if isinstance(v, ZV) and v.shape == TStr:
        _use(eng, 'float(str): ValueError iff not s_isfloat(s)')
        k = st.choose(2)
        if k == 0:
            st.assume(s_isfloat(v.term))
            return ZV(TF, s_tofloat(v.term))
        st.assume(z3.Not(s_isfloat(v.term)))
        raise RaisePath(st, 'ValueError')
    raise Unsupported('float() of %r' % (v,))


def _insert(eng, e, st, val, valexpr, args, kw):
    """xs.insert(i, x) for 0 <= i <= len(xs)"""
    lst = eng.to_zlist(val)
    sh = lst.shape
    i = eng.as_int(args[0])
    n = sh.len(lst.term)
    eng.safety(st, z3.And(0 <= i, i <= n), 'insert_index', e)
    f = T.list_fn('linsert', sh, [T.IntS, sh.elem.sort()])
    new = ZV(sh, f(lst.term, i, box(args[1], sh.elem)))
    eng.assign(valexpr, new, st)
    return PNone()


def _cfg_write(eng, e, st, args, kw):
    """ConfigParser.write(file): the file now holds exactly the parser's options (ghost $disk)."""
    obj = args[0]
    if '$disk' in st.env:
        st.env['$disk'] = obj.fields['opts']
    return PNone()


def _thread(eng, e, st, args, kw):
    return PObj(THREAD_CLS, {'daemon': zbool(False)})


def _input(eng, e, st, args, kw):
    """input(): a line, or EOFError (stdin at EOF / closed pipe / /dev/null), or ValueError/OSError
    (closed descriptor).  All outcomes are explored."""
    _use(eng, 'input() returns a line or raises EOFError / ValueError / OSError')
    k = st.choose(4)
    if k == 1:
        raise RaisePath(st, 'EOFError')
    if k == 2:
        raise RaisePath(st, 'ValueError')
    if k == 3:
        raise RaisePath(st, 'OSError')
    return fresh(TStr, 'input_line')


def install_os(eng):
    b = eng.builtins
    b['open'] = _open
    b['codecs.open'] = _open
    b['method.encode'] = _encode
    b['os.path.join'] = _path_join
    b['os.path.dirname'] = lambda eng, e, st, args, kw: ZV(TStr, p_dirname(box(args[0], TStr)))
    b['os.path.realpath'] = lambda eng, e, st, args, kw: ZV(TStr, p_realpath(box(args[0], TStr)))
    b['time.perf_counter'] = lambda eng, e, st, args, kw: fresh(TF, 'clock')
    b[FILE_CLS + '.seek'] = _seek
    b['method.rstrip'] = _rstrip
    b['method.startswith'] = _startswith
    b['method.endswith'] = _endswith
    b['bytes.fromhex'] = _fromhex
    b['method.decode'] = _decode
    b[FILE_CLS + '.readline'] = _readline
    b[FILE_CLS + '.close'] = lambda eng, e, st, args, kw: PNone()
    b['method.strip'] = _strip_fn('strip')
    b['method.lstrip'] = _strip_fn('lstrip')
    b['method.split'] = _split
    b['float'] = _float
    b['method.insert'] = _insert
    b[CONFIG_CLS + '.write'] = _cfg_write
    b['threading.Thread'] = _thread
    b[THREAD_CLS + '.start'] = lambda eng, e, st, args, kw: PNone()
    b[THREAD_CLS + '.is_alive'] = lambda eng, e, st, args, kw: fresh(TBool, 'is_alive')
    b['threading.main_thread'] = _thread
    b['time.sleep'] = lambda eng, e, st, args, kw: PNone()
    b['input'] = _input


# ------------------------------------------------------------------ argparse (assumed): parse_args returns a namespace of the declared shape
def _argparser(eng, e, st, args, kw):
    return PObj('argparse:ArgumentParser', {})


def _parse_args(eng, e, st, args, kw):
    from .engine import ObjShape
    shp = eng.cur.con.locals.get('args')
    if not isinstance(shp, ObjShape):
        raise Unsupported('parse_args(): declare the namespace shape as local "args" in the contract')
    _use(eng, 'argparse: parse_args() returns a namespace whose attributes have the declared types (type=int gives an int or None)')
    return fresh(shp, 'args')


def install_argparse(eng):
    b = eng.builtins
    b['argparse.ArgumentParser'] = _argparser
    b['argparse:ArgumentParser.add_argument'] = lambda eng, e, st, args, kw: PNone()
    b['argparse:ArgumentParser.parse_args'] = _parse_args


COUNTER_STR = TDict(TStr, TInt, counter=True)


def _counter_new(eng, e, st, args, kw):
    """Counter(): the empty counter"""
    if args:
        raise Unsupported('Counter(iterable)')
    empty = COUNTER_STR.mk(z3.K(T.Str, z3.BoolVal(False)), z3.K(T.Str, z3.IntVal(0)))
    return ZV(COUNTER_STR, empty, pyval='EMPTY_COUNTER')


def empty_dict(shape):
    return shape.mk(z3.K(shape.k.sort(), z3.BoolVal(False)), z3.K(shape.k.sort(), z3.IntVal(0) if shape.v == TInt else T.F_ZERO)
                    if shape.v in (TInt, TF) else z3.Const('dict_empty_values_' + T._san(shape.key()), z3.ArraySort(shape.k.sort(), shape.v.sort())))


def _rec_get(eng, e, st, val, valexpr, args, kw):
    """d.get('literal') on a record (a dict with a fixed set of literal keys): the field, or None for a key the record does not have.
    A default argument or a computed key is outside the subset."""
    if isinstance(val, PRec) and len(args) == 1 and not kw and isinstance(args[0], ZV) and isinstance(args[0].pyval, str):
        k = args[0].pyval
        return val.fields[k] if k in val.fields else PNone()
    raise Unsupported('.get() other than record.get(<string literal>)')


def _dict_clear(eng, e, st, val, valexpr, args, kw):
    if isinstance(val, ZV) and isinstance(val.shape, TDict):
        eng.assign(valexpr, ZV(val.shape, empty_dict(val.shape)), st)
        return PNone()
    raise Unsupported('.clear() on %r' % (val,))
