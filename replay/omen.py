#!/venv/bin/python
"""
OMEN bounded stand-ins / replay searches on the real classes (C10, C11, C15, C18).

 ENUM    random small OMEN models (n-gram 2-3, alphabets of 2-3 letters, lengths up to 5, levels from {0,1,2,3,10}, sparse and
         dense, dead-end prefixes): for every level the real MarkovCracker (one shared Optimizer, levels visited in shuffled order,
         some twice) must emit exactly the strings whose length + initial + transition costs sum to the level -- as a multiset --
         and then report exhaustion.                                                         (C10.bounded.enum)
 CUTS    every cut position j of every level: save_session after guess j, load_session into a fresh cracker, continue: the resumed
         sequence is exactly the rest.                                                       (C15.bounded.cuts, generator level)
 TRIPLE  train small lists in-process with the real OMEN trainer, write the rule files with the real writer, load them with the
         guesser and scorer loaders: trainer level == scorer level == level at which the guesser emits the string (or all three
         say "cannot be generated").                                                        (C11.bounded.triple)
 KEYSPACE the keyspace the trainer computes for a level == number of distinct strings the guesser emits at that level.
                                                                                            (C18.bounded.keyspace)
Prints one JSON object.
"""
import argparse
import collections
import io
import itertools
import json
import os
import random
import shutil
import sys
import tempfile
import contextlib


def load(repo):
    sys.path.insert(0, repo)
    from lib_guesser.omen.markov_cracker import MarkovCracker
    from lib_guesser.omen.optimizer import Optimizer
    return MarkovCracker, Optimizer


LEVELS = [0, 1, 2, 3, 10]


def rand_model(rng, ngram, alphabet, max_len):
    n1 = ngram - 1
    g = {'ngram': ngram, 'max_level': 10, 'alphabet': list(alphabet)}
    g['ip'] = {l: [] for l in range(11)}
    g['cp'] = {}
    g['ln'] = {l: [] for l in range(11)}
    prefixes = [''.join(t) for t in itertools.product(alphabet, repeat=n1)]
    dense = rng.random() < 0.5
    for p in prefixes:
        if dense or rng.random() < 0.7:
            g['ip'][rng.choice(LEVELS)].append(p)
        for ch in alphabet:
            if dense or rng.random() < 0.6:
                g['cp'].setdefault(p, {}).setdefault(rng.choice(LEVELS), []).append(ch)
    for length in range(ngram, max_len + 1):
        if dense or rng.random() < 0.8:
            g['ln'][rng.choice(LEVELS)].append(length - n1)
    # dead-end prefixes (no transition at all), also ones that are listed before a completable letter on the same level
    if not dense and rng.random() < 0.5:
        for p in rng.sample(prefixes, max(1, len(prefixes) // 4)):
            g['cp'].pop(p, None)
    # a trained model always has at least one initial n-gram and one length (the constructor refuses a model without)
    if not any(g['ip'].values()):
        g['ip'][rng.choice(LEVELS)].append(rng.choice(prefixes))
    if not any(g['ln'].values()):
        g['ln'][rng.choice(LEVELS)].append(rng.randint(ngram, max_len) - n1)
    return g


def spec_level_sets(g):
    """level -> Counter of strings, by brute force over all strings of the model"""
    n1 = g['ngram'] - 1
    ip_level = {p: l for l, ps in g['ip'].items() for p in ps}
    ln_level = {n: l for l, ns in g['ln'].items() for n in ns}
    cp_level = {(p, ch): l for p, d in g['cp'].items() for l, chs in d.items() for ch in chs}
    out = collections.defaultdict(collections.Counter)
    for ntrans, lnl in ln_level.items():
        for p, ipl in ip_level.items():
            for tail in itertools.product(g['alphabet'], repeat=ntrans):
                s = p
                tot = lnl + ipl
                ok = True
                for ch in tail:
                    key = (s[len(s) - n1:] if n1 else '', ch)
                    if key not in cp_level:
                        ok = False
                        break
                    tot += cp_level[key]
                    s += ch
                if ok:
                    out[tot][s] += 1
    return out


def run_level(MarkovCracker, g, level, opt, limit=200000):
    mc = MarkovCracker(g, level, opt)
    out = []
    while True:
        s = mc.next_guess()
        if s is None:
            break
        out.append(s)
        if len(out) > limit:
            raise RuntimeError('generator does not stop')
    # exhaustion must be stable
    return out


def chk_enum(MarkovCracker, Optimizer, rng, tier):
    for mi in range(250 if tier == 'quick' else 1500):
        ngram = rng.choice([2, 3]) if tier == 'quick' else rng.choice([2, 3, 3, 4])
        alphabet = rng.choice(['ab', 'abc']) if tier == 'quick' or ngram == 4 else rng.choice(['ab', 'abc', 'abcd'])
        g = rand_model(rng, ngram, alphabet, rng.choice([3, 4, 5]) if ngram < 4 else rng.choice([4, 5, 6]))
        spec = spec_level_sets(g)
        opt = Optimizer(max_length=4)
        order = list(range(0, 25))
        rng.shuffle(order)
        order += order[:5]
        for level in order:
            got = collections.Counter(run_level(MarkovCracker, g, level, opt))
            exp = spec.get(level, collections.Counter())
            ok = got == exp
            yield ({'model': g, 'level': level, 'order_so_far': order[:order.index(level) + 1]}, ok,
                   {'missing': sorted((exp - got).elements())[:8], 'extra_or_repeated': sorted((got - exp).elements())[:8]}, len(exp) > 0)


def chk_cuts(MarkovCracker, Optimizer, rng, tier, tmp):
    for mi in range(20 if tier == 'quick' else 400):
        g = rand_model(rng, rng.choice([2, 3]), rng.choice(['ab', 'abc']), 4)
        for level in range(0, 8):
            full = run_level(MarkovCracker, g, level, Optimizer(max_length=4))
            for j in range(1, len(full) + 1):
                mc = MarkovCracker(g, level, Optimizer(max_length=4))
                first = [mc.next_guess() for _ in range(j)]
                path = os.path.join(tmp, 's.omn')
                mc.save_session(path)
                mc2 = MarkovCracker(g, 1, Optimizer(max_length=4))
                mc2.load_session(path, {'pt': [['M', 1, 1]]})
                rest = []
                while True:
                    s = mc2.next_guess()
                    if s is None:
                        break
                    rest.append(s)
                    if len(rest) > len(full) + 5:
                        break
                yield ({'model': g, 'level': level, 'cut_after_guess': j}, first + rest == full,
                       {'resumed': rest[:10], 'expected_rest': full[j:][:10]}, len(full) > 1)


def train_omen(repo, words, ngram, alphabet_size, tmp, max_keyspace=None):
    from lib_trainer.omen.alphabet_generator import AlphabetGenerator
    from lib_trainer.omen.alphabet_lookup import AlphabetLookup
    from lib_trainer.omen.evaluate_password import find_omen_level, calc_omen_keyspace
    from lib_trainer.omen.omen_file_output import save_omen_rules_to_disk
    ag = AlphabetGenerator(alphabet_size, ngram)
    for w in words:
        ag.process_password(w)
    alphabet = ag.get_alphabet()
    tr = AlphabetLookup(alphabet=alphabet, ngram=ngram, max_length=21)
    for w in words:
        tr.parse(w)
    tr.apply_smoothing()
    with contextlib.redirect_stdout(io.StringIO()):
        keyspace = calc_omen_keyspace(tr) if max_keyspace is None else calc_omen_keyspace(tr, max_keyspace=max_keyspace)
    counts = collections.Counter(find_omen_level(tr, w) for w in words)
    base = os.path.join(tmp, 'rs')
    shutil.rmtree(base, ignore_errors=True)
    os.makedirs(os.path.join(base, 'Omen'))
    info = {'ngram': ngram, 'encoding': 'utf-8', 'alphabet': alphabet, 'max_len': 21}
    with contextlib.redirect_stdout(io.StringIO()):
        ok = save_omen_rules_to_disk(tr, keyspace, counts, len(words), base, info)
    return tr, keyspace, counts, base, find_omen_level, ok


WORDS = ['password', 'password', 'pass', 'pass', 'passw0rd', 'abcd', 'abcd', 'abce', 'hello1', 'hello1', 'hello1', 'love', 'love12',
         'qwerty', 'qwerty', 'letmein', 'aaaa', 'aaaa', 'abab', 'xyzdef', 'abcdef', 'abcdef', 'abcdef', 'monkey', 'dragon1',
         'my dog', 'my dog', 'pass word', 'monkey ', 'i love u']


def guesser_levels(repo, base, upto):
    from lib_guesser.omen.input_file_io import load_rules
    MarkovCracker, Optimizer = load(repo)
    g = {}
    with contextlib.redirect_stderr(io.StringIO()):
        if not load_rules(os.path.join(base, 'Omen'), g):
            raise RuntimeError('guesser cannot load the OMEN rules')
    opt = Optimizer(max_length=4)
    emitted = {}
    per_level = {}
    for level in range(0, upto + 1):
        out = []
        mc = MarkovCracker(g, level, opt)
        while True:
            s = mc.next_guess()
            if s is None:
                break
            out.append(s)
            if len(out) > 300000:
                out = None
                break
        per_level[level] = out
        if out:
            for s in out:
                emitted.setdefault(s, level)
    return emitted, per_level


def chk_triple(repo, rng, tier, tmp, want_keyspace):
    from lib_scorer.omen_scorer import OmenScorer
    configs = [(4, 100), (3, 20), (2, 10), (5, 100)] if tier != 'quick' else [(4, 100), (2, 10)]
    special = [None]
    if want_keyspace:
        # lists dominated by passwords whose length equals the n-gram size, or by a single length (length cost 0)
        special = [['abcd'] * 5 + ['abce'] + ['hello1'] * 5, ['abcdef'] * 700 + ['xyzdef'], None, None, None, None,
                   # a small alphabet: the levels from 10 on (where strings start with an n-gram that never starts a training password,
                   # initial level 10 after smoothing) are small enough to be enumerated
                   ['abab'] * 6 + ['abba'] * 3 + ['abcab'] * 2 + ['baab'] + ['abab1'] * 2 + ['bcb', 'b1ab'],
                   # one length only (length level 0), half of the list starts with the same letter (initial level 0), two transitions that cost 9
                   # levels each: the remaining level reaches the maximum (18) inside the recursion of _rec_calc_keyspace, and every level 1..18
                   # is small enough to be enumerated (seed C18/8: a cache key that collides only when the remaining level equals max_level)
                   ['aaa'] * 8500 + ['bbb'] * 8500 + ['aby', 'bbx', 'bbz']]
        configs = [(4, 100)] * 6 + [(3, 100), (2, 100)] + configs[1:]
    for ci, (ngram, asize) in enumerate(configs):
        words = [rng.choice(WORDS) for _ in range(30)] + ['abcd'] * 5 + ['abce'] + ['hello1'] * 5 + [('abcd' * 6)[:21]] * 2
        if want_keyspace and ci >= 2:
            words = words + ['a', 'hi', 'lo1', 'x' * 25]      # valid passwords the Markov model cannot use (too short / too long): they count in N
        if want_keyspace and ci < len(special) and special[ci] is not None:
            words = special[ci]
        # configurations 3..5 exercise the max_keyspace cut-off (a level is listed only with its complete count)
        mk = {3: 1, 4: 2, 5: 4}.get(ci) if want_keyspace else None
        tr, keyspace, counts, base, find_level, ok = train_omen(repo, words, ngram, asize, tmp, mk)
        if not ok:
            yield {'words': words, 'ngram': ngram}, False, {'why': 'save_omen_rules_to_disk failed'}, True
            continue
        upto = 6 if ngram >= 4 else 4
        if want_keyspace and ci == 6:
            upto = 11
        if want_keyspace and ci == 7:
            upto = 18
        emitted, per_level = guesser_levels(repo, base, upto)
        if want_keyspace:
            listed, probs = {}, {}
            for line in open(os.path.join(base, 'Omen', 'omen_keyspace.txt'), encoding='utf-8'):
                a, b = line.split('\t')
                listed[int(a)] = int(b)
            for line in open(os.path.join(base, 'Omen', 'pcfg_omen_prob.txt'), encoding='utf-8'):
                a, b = line.split('\t')
                probs[int(a)] = float(b)
            for level in range(1, upto + 1):
                if per_level[level] is None:
                    continue
                n = len(set(per_level[level]))
                inp = {'words': words[:12] + ['...'], 'ngram': ngram, 'level': level, 'max_keyspace': mk}
                if level in listed:
                    yield (inp, listed[level] == n, {'listed_keyspace': listed[level], 'guesser_distinct_strings': n,
                                                     'sample': per_level[level][:5]}, n > 0)
                elif mk is None:
                    yield inp, n == 0, {'listed_keyspace': None, 'guesser_distinct_strings': n}, False
                if level in probs:
                    want = (counts[level] / len(words)) / n if n else None
                    yield (dict(inp, file='pcfg_omen_prob.txt'), want is not None and abs(probs[level] - want) <= 1e-12 * want + 1e-300,
                           {'saved_probability': probs[level], 'expected': want, 'passwords_at_level': counts[level], 'total': len(words)}, True)
            continue
        sc = OmenScorer(base, 'utf-8', 10)
        cands = set(words) | set(list(emitted)[:400]) | {'zz', 'a', 'abcd' * 6, 'abcé', 'passwor', 'x' * ngram, 'y' * (ngram - 1)}
        # strings that start with an n-gram seen only in the middle or at the end of training passwords
        cands |= {w[i:] for w in set(words) for i in range(1, max(1, len(w) - ngram + 1))}
        # strings of exactly the maximum trained length (21), of one character more, and of the n-gram size
        cands |= {('abcd' * 6)[:21], ('abcd' * 6)[:22], ('abcd' * 6)[:20], 'hello1hello1hello1hel', 'abcd'[:ngram]}
        for s in sorted(cands):
            t = find_level(tr, s)
            k = sc.parse(s)
            gl = emitted.get(s, None)
            if t > upto and gl is None:
                gl_cmp = t          # beyond the levels we generated
            else:
                gl_cmp = -1 if gl is None else gl
            ok = (t == k) and (gl_cmp == t)
            yield {'words': words[:12] + ['...'], 'ngram': ngram, 'string': s}, ok, {'trainer': t, 'scorer': k, 'guesser': gl}, t >= 0


def loaddet_child(repo, base):
    """child of LOADDET: prints the loaded OMEN tables in their native order"""
    sys.path.insert(0, repo)
    from lib_guesser.omen.input_file_io import load_rules
    g = {}
    with contextlib.redirect_stderr(io.StringIO()):
        ok = load_rules(os.path.join(base, 'Omen'), g)
    print(json.dumps({'ok': ok, 'ip': {str(k): v for k, v in g.get('ip', {}).items()}, 'ln': {str(k): v for k, v in g.get('ln', {}).items()},
                      'cp': [[p, [[str(l), ch] for l, ch in d.items()]] for p, d in g.get('cp', {}).items()]}))


def chk_loaddet(repo, rng, tier, tmp):
    """the tables the guesser loads (and the order inside every list, which the pickled cursor of an interrupted level indexes) are the same in
    processes with different string-hash seeds"""
    import subprocess
    for ngram, asize in [(3, 20), (4, 100)]:
        words = [rng.choice(WORDS) for _ in range(40)]
        tr, keyspace, counts, base, find_level, ok = train_omen(repo, words, ngram, asize, tmp)
        outs = []
        for hs in ('1', '2', '77'):
            p = subprocess.run([sys.executable, '-W', 'ignore', os.path.abspath(__file__), '--repo', repo, '--fn', 'LOADDETCHILD', '--base', base],
                               capture_output=True, text=True, env=dict(os.environ, PYTHONHASHSEED=hs), timeout=300)
            outs.append(p.stdout.strip().split('\n')[-1])
        same = outs[0] == outs[1] == outs[2] and json.loads(outs[0])['ok']
        diff = None
        if not same:
            a_, b_ = json.loads(outs[0]), json.loads(outs[1] if outs[1] != outs[0] else outs[2])
            diff = next(({'table': t, 'seed1': str(a_[t])[:200], 'other': str(b_[t])[:200]} for t in ('ip', 'ln', 'cp') if a_[t] != b_[t]), None)
        yield {'ngram': ngram, 'words': words[:10] + ['...'], 'hash_seeds': [1, 2, 77]}, same, {'difference': diff}, True


def main():
    ap = argparse.ArgumentParser()
    ap.add_argument('--base', default=None)
    ap.add_argument('--repo', default='/repo')
    ap.add_argument('--fn', default='ENUM')
    ap.add_argument('--seed', type=int, default=0)
    ap.add_argument('--tier', default='quick')
    a = ap.parse_args()
    if a.fn == 'LOADDETCHILD':
        return loaddet_child(a.repo, a.base)
    MarkovCracker, Optimizer = load(a.repo)
    rng = random.Random(a.seed)
    tmp = tempfile.mkdtemp(prefix='pcfg_omen_')
    cases = nontrivial = 0
    fail = None
    samples = []
    try:
        fn = a.fn
        if fn not in ('ENUM', 'CUTS', 'TRIPLE', 'KEYSPACE', 'LOADDET'):
            fn = 'ENUM'
        it = {'ENUM': lambda: chk_enum(MarkovCracker, Optimizer, rng, a.tier),
              'CUTS': lambda: chk_cuts(MarkovCracker, Optimizer, rng, a.tier, tmp),
              'TRIPLE': lambda: chk_triple(a.repo, rng, a.tier, tmp, False),
              'KEYSPACE': lambda: chk_triple(a.repo, rng, a.tier, tmp, True),
              'LOADDET': lambda: chk_loaddet(a.repo, rng, a.tier, tmp)}[fn]()
        for inp, ok, extra, nt in it:
            cases += 1
            nontrivial += 1 if nt else 0
            if len(samples) < 2 and nt and cases % 13 == 1:
                samples.append({k: v for k, v in inp.items() if k != 'order_so_far'})
            if not ok:
                fail = {'function': a.fn, 'input': inp, **extra}
                break
    except Exception as ex:
        import traceback
        fail = {'function': a.fn, 'exception': repr(ex), 'traceback': traceback.format_exc()[-1500:]}
    finally:
        shutil.rmtree(tmp, ignore_errors=True)
    print(json.dumps({'failing_input': fail, 'failures': [fail] if fail else [], 'cases': cases, 'distinct': nontrivial,
                      'rule': 'random small OMEN models / small trained lists; distinct = cases with a non-empty level, a real cut or a generable string',
                      'samples': samples}, default=str))


if __name__ == '__main__':
    main()
