#!/venv/bin/python
"""
Replay / differential adapter for lib_guesser/grammar_io.py:_load_base_structures (C14, C03):
writes small grammar.txt files (with an 'M' line first / in the middle / last / absent / alone),
calls the real loader with skip_brute on and off and compares with the declarative spec:
  * skip_brute off: every line, in order, probability as written;
  * skip_brute on : exactly the lines without an M token, probability / (1 - P(M)), P(M) = 0 if absent;
  * a C<n> is inserted after every A<n> and nothing else changes (C03.bounded.cins).
Prints one JSON object.
"""
import argparse
import itertools
import json
import os
import random
import shutil
import sys
import tempfile


def tokens(s):
    out = []
    for ch in s:
        if ch.isalpha():
            out.append(ch)
        else:
            out[-1] += ch
    return out


def with_c(toks):
    out = []
    for t in toks:
        out.append(t)
        if t[0] == 'A':
            out.append('C' + t[1:])
    return out


def spec(lines, skip):
    pm = 0.0
    for s, p in lines:
        if s == 'M':
            pm = p
            break
    tot = 1.0 - pm if skip else 1.0
    out = []
    for s, p in lines:
        toks = tokens(s)
        if skip and 'M' in toks:
            continue
        out.append({'prob': p / tot, 'replacements': with_c(toks)})
    return out


STRUCTS = ['A3', 'A4D2', 'D1A10O1', 'K4', 'A1A2', 'Y1X1', 'O2A3D4', 'A12', 'D3']


def main():
    ap = argparse.ArgumentParser()
    ap.add_argument('--repo', default='/repo')
    ap.add_argument('--fn', default='_load_base_structures')
    ap.add_argument('--seed', type=int, default=0)
    ap.add_argument('--tier', default='quick')
    a = ap.parse_args()
    sys.path.insert(0, a.repo)
    from lib_guesser import grammar_io
    rng = random.Random(a.seed)
    d = tempfile.mkdtemp(prefix='pcfg_loader_')
    cases = 0
    distinct = set()
    fail = None
    samples = []
    try:
        os.makedirs(os.path.join(d, 'Grammar'))
        for trial in range(120 if a.tier == 'quick' else 1200):
            n = rng.randint(1, 5)
            structs = rng.sample(STRUCTS, n)
            probs = sorted([rng.choice([0.5, 0.25, 0.125, 0.0625, 0.3, 0.1]) for _ in range(n)], reverse=True)
            lines = list(zip(structs, probs))
            mpos = rng.choice([None, 0, len(lines) // 2, len(lines)])
            if mpos is not None:
                lines.insert(mpos, ('M', rng.choice([0.5, 0.2, 0.0078125])))
            if trial % 17 == 0:
                lines = [('M', 0.25)] + lines[:1]
            with open(os.path.join(d, 'Grammar', 'grammar.txt'), 'w') as fh:
                for s, p in lines:
                    fh.write('%s\t%r\n' % (s, p))
            for skip in (False, True):
                got = []
                ok_flag = grammar_io._load_base_structures(got, d, skip, 'Grammar')
                exp = spec(lines, skip)
                cases += 1
                distinct.add(json.dumps([lines, skip]))
                if len(samples) < 2:
                    samples.append({'grammar.txt': lines, 'skip_brute': skip, 'loaded': len(got)})
                if ok_flag is not True or got != exp:
                    fail = {'function': '_load_base_structures', 'grammar.txt': lines, 'skip_brute': skip,
                            'returned': ok_flag, 'loaded': got, 'expected': exp}
                    break
            if fail:
                break
    except Exception as ex:
        import traceback
        fail = {'exception': repr(ex), 'traceback': traceback.format_exc()[-1200:]}
    finally:
        shutil.rmtree(d, ignore_errors=True)
    print(json.dumps({'failing_input': fail, 'failures': [fail] if fail else [], 'cases': cases, 'distinct': len(distinct),
                      'rule': 'random grammar.txt files of 1-6 lines with the M line at every position or absent, both flag values; '
                              'distinct = distinct (file, flag) pairs', 'samples': samples}))


if __name__ == '__main__':
    main()
