#!/venv/bin/python
"""
Replay / differential adapter for lib_guesser/grammar_io.py:_load_base_structures (C14, C03):
writes small grammar.txt files (with an 'M' line first / in the middle / last / absent / alone),
calls the real loader with skip_brute on and off and compares with the declarative spec:
  * skip_brute off: every line, in order, probability as written;
  * skip_brute on : exactly the lines without an M token, probability / (1 - P(M)), P(M) = 0 if absent;
  * a C<n> is inserted after every A<n> and nothing else changes (C03.bounded.cins).
Prints one JSON object.
"""
import argparse
import itertools
import json
import os
import random
import shutil
import sys
import tempfile


def tokens(s):
    out = []
    for ch in s:
        if ch.isalpha():
            out.append(ch)
        else:
            out[-1] += ch
    return out


def with_c(toks):
    out = []
    for t in toks:
        out.append(t)
        if t[0] == 'A':
            out.append('C' + t[1:])
    return out


def spec(lines, skip):
    pm = 0.0
    for s, p in lines:
        if s == 'M':
            pm = p
            break
    tot = 1.0 - pm if skip else 1.0
    out = []
    for s, p in lines:
        toks = tokens(s)
        if skip and 'M' in toks:
            continue
        out.append({'prob': p / tot, 'replacements': with_c(toks)})
    return out


STRUCTS = ['A3', 'A4D2', 'D1A10O1', 'K4', 'A1A2', 'Y1X1', 'O2A3D4', 'A12', 'D3']


def skip_case(a, grammar_io):
    """C14.skip_case.post on the rulesets shipped with the repository: with skip_case every C<n> list is
    [{'values': ['L'*n], 'prob': 1.0}] and every other key of the grammar, the base structures and the
    ruleset info are identical to the default load."""
    fail = None
    cases = 0
    samples = []
    rules_dir = os.path.join(a.repo, 'Rules')
    for rule in sorted(os.listdir(rules_dir)):
        base = os.path.join(rules_dir, rule)
        if not os.path.isfile(os.path.join(base, 'config.ini')):
            continue
        for skip_brute in (False, True):
            try:
                g0, b0, i0 = grammar_io.load_grammar(rule, base, '4.7', skip_brute, False, 'Grammar')
                g1, b1, i1 = grammar_io.load_grammar(rule, base, '4.7', skip_brute, True, 'Grammar')
            except Exception as ex:
                continue     # a shipped ruleset this version cannot load at all is not a C14 matter
            cases += 1
            why = None
            if sorted(g0) != sorted(g1):
                why = 'key sets differ: %r' % sorted(set(g0) ^ set(g1))[:5]
            elif b0 != b1 or i0 != i1:
                why = 'base structures or ruleset info differ'
            else:
                for k in g0:
                    if k[0] == 'C' and k[1:].isdigit():
                        n = int(k[1:])
                        if g1[k] != [{'values': ['L' * n], 'prob': 1.0}]:
                            why = 'mask list %s is %r' % (k, g1[k][:2])
                    elif g0[k] != g1[k]:
                        why = 'terminal list %s changed' % k
            samples.append({'ruleset': rule, 'skip_brute': skip_brute, 'keys': len(g0)})
            if why:
                fail = {'function': '_load_terminals', 'ruleset': rule, 'skip_brute': skip_brute, 'why': why}
                break
        if fail:
            break
    print(json.dumps({'failing_input': fail, 'failures': [fail] if fail else [], 'cases': cases, 'distinct': cases,
                      'rule': 'every ruleset under Rules/ x skip_brute in {off,on}: load with and without skip_case and compare',
                      'samples': samples[:3]}))


def load_from_file(a, grammar_io, rng):
    """terminal files with runs of equal, nearly equal (1 ulp, 1e-12, 1e-10 apart) and clearly different probabilities: the loader
    returns the maximal runs of exactly equal probabilities, values in file order, each group carrying that probability"""
    import math
    d = tempfile.mkdtemp(prefix='pcfg_loadfile_')
    cases = 0
    fail = None
    samples = []
    try:
        for trial in range(150 if a.tier == 'quick' else 1500):
            n = rng.randint(1, 9)
            p = rng.choice([0.5, 0.3, 0.1 + 0.2, 1e-9, 1.2e-9, 8e-10, 0.0625])
            rows = []
            for i in range(n):
                rows.append(('v%d' % i + rng.choice(['', ' ', 'é', ' x']), p))
                step = rng.choice(['same', 'same', 'ulp', 'tiny', 'small', 'big'])
                if step == 'ulp':
                    p = math.nextafter(p, 0.0)
                elif step == 'tiny':
                    p = p * (1 - 1e-12)
                elif step == 'small':
                    p = p - min(p / 2, 4e-10)
                elif step == 'big':
                    p = p / 2
            path = os.path.join(d, 't.txt')
            with open(path, 'w', encoding='utf-8') as fh:
                for v, q in rows:
                    fh.write('%s\t%r\n' % (v, q))
            exp = []
            for v, q in rows:
                if exp and exp[-1]['prob'] == q:
                    exp[-1]['values'].append(v)
                else:
                    exp.append({'values': [v], 'prob': q})
            got = []
            ok_flag = grammar_io._load_from_file(got, path, 'utf-8')
            cases += 1
            if len(samples) < 2 and len(exp) > 1:
                samples.append({'rows': rows})
            norm = [{'values': list(g['values']), 'prob': g['prob']} for g in got]
            if ok_flag is not True or norm != exp:
                fail = {'function': '_load_from_file', 'file_rows': rows, 'returned': ok_flag, 'loaded': norm, 'expected': exp}
                break
    except Exception as ex:
        import traceback
        fail = {'exception': repr(ex), 'traceback': traceback.format_exc()[-1200:]}
    finally:
        shutil.rmtree(d, ignore_errors=True)
    print(json.dumps({'failing_input': fail, 'failures': [fail] if fail else [], 'cases': cases, 'distinct': cases,
                      'rule': 'random terminal files of 1-9 rows whose consecutive probabilities are equal, 1 ulp apart, 1e-12 relative apart, '
                              '<= 4e-10 apart or halved', 'samples': samples}))


def main():
    ap = argparse.ArgumentParser()
    ap.add_argument('--repo', default='/repo')
    ap.add_argument('--fn', default='_load_base_structures')
    ap.add_argument('--seed', type=int, default=0)
    ap.add_argument('--tier', default='quick')
    a = ap.parse_args()
    sys.path.insert(0, a.repo)
    from lib_guesser import grammar_io
    rng = random.Random(a.seed)
    if a.fn == 'skip_case':
        return skip_case(a, grammar_io)
    if a.fn == '_load_from_file':
        return load_from_file(a, grammar_io, rng)
    d = tempfile.mkdtemp(prefix='pcfg_loader_')
    cases = 0
    distinct = set()
    fail = None
    samples = []
    try:
        os.makedirs(os.path.join(d, 'Grammar'))
        for trial in range(120 if a.tier == 'quick' else 1200):
            n = rng.randint(1, 5)
            structs = rng.sample(STRUCTS, n)
            if trial % 5 == 0 and n >= 2:
                structs[-1] = structs[0]        # the same base structure listed twice (two derivations, both kept)
            probs = sorted([rng.choice([0.5, 0.25, 0.125, 0.0625, 0.3, 0.1]) for _ in range(n)], reverse=True)
            lines = list(zip(structs, probs))
            mpos = rng.choice([None, 0, len(lines) // 2, len(lines)])
            if mpos is not None:
                lines.insert(mpos, ('M', rng.choice([0.5, 0.2, 0.0078125])))
            if trial % 17 == 0:
                lines = [('M', 0.25)] + lines[:1]
            with open(os.path.join(d, 'Grammar', 'grammar.txt'), 'w') as fh:
                for s, p in lines:
                    fh.write('%s\t%r\n' % (s, p))
            for skip in (False, True):
                got = []
                ok_flag = grammar_io._load_base_structures(got, d, skip, 'Grammar')
                exp = spec(lines, skip)
                cases += 1
                distinct.add(json.dumps([lines, skip]))
                if len(samples) < 2:
                    samples.append({'grammar.txt': lines, 'skip_brute': skip, 'loaded': len(got)})
                if ok_flag is not True or got != exp:
                    fail = {'function': '_load_base_structures', 'grammar.txt': lines, 'skip_brute': skip,
                            'returned': ok_flag, 'loaded': got, 'expected': exp}
                    break
            if fail:
                break
    except Exception as ex:
        import traceback
        fail = {'exception': repr(ex), 'traceback': traceback.format_exc()[-1200:]}
    finally:
        shutil.rmtree(d, ignore_errors=True)
    print(json.dumps({'failing_input': fail, 'failures': [fail] if fail else [], 'cases': cases, 'distinct': len(distinct),
                      'rule': 'random grammar.txt files of 1-6 lines with the M line at every position or absent, both flag values; '
                              'distinct = distinct (file, flag) pairs', 'samples': samples}))


if __name__ == '__main__':
    main()
