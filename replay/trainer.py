#!/venv/bin/python
"""
C05 replay adapter and bounded stand-ins (real trainer code).

 PIPELINE   every string over a trigger-rich alphabet up to a length bound, plus curated passwords, is pushed through
            the real detector pipeline (same order as PCFGPasswordParser.parse) with a trained multi-word detector:
            lossless tiling (website sections lower-cased), no empty / unlabelled section, true lengths in labels,
            label soundness, counters == tallies of the segments.                      (C05.bounded.pipeline)
 KEYBOARD   detect_keyboard_walk alone: tiling, K sections are >= 4 long walks of adjacent keys on one layout mixing
            character classes.                                                          (C05.bounded.keyboard)
 MULTIWORD  MultiWordDetector.parse / _identify_multi / _get_count against their contract on a trained detector.
 LOWER      lower_keep_length over all 0x110000 code points (character-table lemma).
 <function> differential check of one detect_* function against the executable form of its contract.
Prints one JSON object.
"""
import argparse
import itertools
import json
import random
import sys
from collections import Counter

CONTEXT_LIST = [';p', ':p', '*0*', '#1', 'No.1', 'no.1', 'No.', 'i<3', 'I<3', '<3', 'Mr.', 'mr.', 'MR.', 'MS.', 'Ms.', 'ms.',
                'Mz.', 'mz.', 'MZ.', 'St.', 'st.', 'Dr.', 'dr.']


def load(repo):
    sys.path.insert(0, repo)
    import importlib
    m = {}
    for name in ['keyboard_walk', 'email_detection', 'website_detection', 'year_detection', 'context_sensitive_detection',
                 'alpha_detection', 'digit_detection', 'other_detection', 'multiword_detector']:
        m[name] = importlib.import_module('lib_trainer.detection_rules.' + name)
    m['parser'] = importlib.import_module('lib_trainer.pcfg_password_parser')
    m['base'] = importlib.import_module('lib_trainer.base_structure')
    return m


def trained_detector(m):
    d = m['multiword_detector'].MultiWordDetector(threshold=2, min_len=2, max_len=12)
    for w in ['ab', 'ab', 'ba', 'ba', 'abba', 'bab', 'bab', 'qw', 'qw', 'we', 'we', 'aB', 'pass', 'pass', 'word', 'word']:
        d.train(w)
    return d


def segment(m, det, pw):
    sl, walks, _ = m['keyboard_walk'].detect_keyboard_walk(pw)
    found = {'K': list(walks)}
    e, p = m['email_detection'].email_detection(sl)
    u, h, pf = m['website_detection'].website_detection(sl)
    found['Y'] = m['year_detection'].year_detection(sl)
    found['X'] = m['context_sensitive_detection'].context_sensitive_detection(sl)
    found['A'], found['C'] = m['alpha_detection'].alpha_detection(sl, det)
    found['D'] = m['digit_detection'].digit_detection(sl)
    found['O'] = m['other_detection'].other_detection(sl)
    return sl, found


def lower_keep(s):
    return ''.join(c.lower() if len(c.lower()) == 1 else c for c in s)


def judge(m, pw, sl, found, walks_ok=True):
    """returns None or a description of what is wrong"""
    rebuilt = ''
    pos = 0
    for idx, (text, label) in enumerate(sl):
        if text == '':
            return 'empty segment %r' % ((text, label),)
        if label is None:
            return 'unlabelled segment %r' % (text,)
        src = pw[pos:pos + len(text)]
        if label == 'W':
            if text != lower_keep(src):
                return 'website segment %r is not the lower-cased interval %r' % (text, src)
        elif text != src:
            return 'segment %r is not the interval %r of the password (position %d)' % (text, src, pos)
        pos += len(text)
        cat = label[0]
        if cat in 'ADOK' and label[1:] != str(len(text)):
            return 'label %s does not state the length of %r' % (label, text)
        if cat == 'D' and not all(ch.isdigit() for ch in text):
            return 'digit segment %r has a non-digit' % text
        if cat == 'D' and idx + 1 < len(sl) and sl[idx + 1][1][0] == 'D':
            return 'two adjacent digit segments (not maximal): %r %r' % (text, sl[idx + 1][0])
        if cat == 'A' and not all(ch.isalpha() or ch.lower().isalpha() for ch in text):
            return 'alpha segment %r has a non-letter' % text
        if cat == 'Y' and not (len(text) == 4 and text.isdigit() and text[:2] in ('19', '20')):
            return 'year segment %r' % text
        if cat == 'X' and text not in CONTEXT_LIST:
            return 'context segment %r not in the fixed list' % text
        if cat == 'O' and any(ch.isalpha() or ch.isdigit() for ch in text):
            return 'other segment %r has a letter or digit' % text
        if cat == 'K':
            if len(text) < 4:
                return 'keyboard segment %r shorter than 4' % text
            classes = {('a' if ch.isalpha() else 'd' if ch.isdigit() else 'o') for ch in text}
            if len(classes) < 2:
                return 'keyboard segment %r has one character class' % text
            if not is_walk(text):
                return 'keyboard segment %r is not a walk of adjacent keys on one layout' % text
    if pos != len(pw):
        return 'segments cover %d of %d characters' % (pos, len(pw))
    # counters == tallies
    for cat in 'DO':
        segs = sorted(t for t, l in sl if l[0] == cat)
        if sorted(found[cat]) != segs:
            return 'found list for %s %r differs from the segments %r' % (cat, found[cat], segs)
    alphas = sorted(t.lower() for t, l in sl if l[0] == 'A')
    one_to_one = all(len(ch.lower()) == 1 for ch in pw)      # C03/C05 domain: letters whose lower-casing is one character
    if one_to_one and sorted(found['A']) != alphas:
        return 'alpha tally %r differs from segments %r' % (found['A'], alphas)
    return None


ALPHABET = ['a', 'B', '1', '9', '2', '0', '!', '.', '@', 'q', 'w', 'e', '<', '3', '#', 'c', 'o', 'm', ' ', 'İ']
CURATED = ['password123', 'Password2019!', 'bob@hotmail.com123', 'www.google.com', 'http://www.a.com/x1', '1qaz2wsx', 'qwerty12',
           'i<3u', '#1mom', 'No.1fan', 'abba1999abba', 'password', 'PASSword', 'İ@a.comX', 'İx.com1', 'aİb12', '2019', '19201',
           '12019', 'a.b@c.com.au!', 'x#12', '  lead', 'trail  ', 'ǅword', 'пароль123', 'γειά2020', '😀ab😀', 'mr.smith', 'Dr.who1999',
           '1q2w3e4r', 'zaq12wsx', 'asdfgh1', '!@#$%^', 'q1w2e3', '*0*', 'tom.com', 'a@b.c', 'info@x.org/', 'ftp.site.net:80']
# a keyboard walk with text on both sides, only before, only after; two walks; a walk next to a year
WALKS = ['1qaz', '2wsx', 'qwe1', '1q2w', 'zaq1', '!QAZ', '3edc', 'qaz1', 'asd1', '1qa2ws']
CURATED += [pre + w + post for w in WALKS for pre in ('', 'test', 'Pm', 'b') for post in ('', 'test', '!!', 'm', '2019') if pre or post]
CURATED += ['test1qaztest', 'abc1qaz!!', 'love2wsx2019', 'm1qazp2wsxm', '1qazm2wsx']


def chk_pipeline(m, det, rng, tier):
    n = 4 if tier == 'quick' else 5
    for pw in CURATED:
        yield pw
    for L in range(1, n + 1):
        alpha = ALPHABET if L <= 3 else ALPHABET[:12]
        for tup in itertools.product(alpha, repeat=L):
            yield ''.join(tup)


def main():
    ap = argparse.ArgumentParser()
    ap.add_argument('--repo', default='/repo')
    ap.add_argument('--fn', default='PIPELINE')
    ap.add_argument('--seed', type=int, default=0)
    ap.add_argument('--tier', default='quick')
    a = ap.parse_args()
    m = load(a.repo)
    rng = random.Random(a.seed)
    cases = 0
    nontrivial = 0
    fail = None
    samples = []
    fn = a.fn
    try:
        if fn == 'LOWER' or fn.endswith('lower_keep_length'):
            f = m['email_detection'].lower_keep_length
            for cp in range(0x110000):
                if 0xD800 <= cp <= 0xDFFF:
                    continue
                ch = chr(cp)
                r = f('x' + ch + 'y')
                cases += 1
                exp = ch.lower() if len(ch.lower()) == 1 else ch
                if len(r) != 3 or r[1] != exp:
                    fail = {'function': 'lower_keep_length', 'code_point': hex(cp), 'result': r}
                    break
            nontrivial = cases
            samples = [{'code_point': '0x130', 'result': f('İ')}]
        elif fn == 'MULTIWORD' or 'MultiWordDetector' in fn:
            # the detector's counts against an independent tally: every maximal letter run (lower-cased) of a training password whose
            # length lies within [min_len, max_len] of the password counts once for that run if the run has at least min_len letters
            import re as _re
            for min_len, hist in ((4, ['my1love'] * 5 + ['ab12cdef'] * 5 + ['password'] * 5 + ['dragon7', 'x9dragon', 'Dragon', 'a1b2c3dd', 'love', 'LOVE!', 'lo-ve']
                                       + ['i<3love', 'mylove', 'abcdef', 'toolongpasswordtoolongpasswordx', 'abc']),
                                  (2, ['a1bc', 'a1bc', 'ab', 'b-a', 'qw1we', 'qw1we', 'Q1W', 'é2éa', 'ab3'])):
                dm = m['multiword_detector'].MultiWordDetector(threshold=5, min_len=min_len, max_len=21)
                tally = {}
                for pw in hist:
                    dm.train(pw)
                    if min_len <= len(pw) <= 21:
                        for run in _re.findall(r'[^\W\d_]+', pw.lower()):
                            if len(run) >= min_len and run.isalpha():
                                tally[run] = tally.get(run, 0) + 1
                probes = set(tally) | {'mylove', 'love', 'abcdef', 'cdef', 'dragon', 'xdragon', 'abcdd', 'bcdd', 'dd', 'abc', 'qwwe', 'we', 'qw', 'bc', 'abc', 'éa', 'éé'}
                for w in sorted(probes):
                    cases += 1
                    got = dm._get_count(w)
                    if got != tally.get(w, 0):
                        fail = {'function': 'MultiWordDetector.train', 'training_passwords': sorted(set(hist)), 'word': w, 'count_in_detector': got,
                                'independent_count': tally.get(w, 0), 'why': 'the detector counts a word the training passwords do not contain that often'}
                        break
                if fail:
                    break
                nontrivial += len(tally)
                # and what parse() does with those counts: a split only into parts seen at least threshold times
                for s in ['mylovepassword', 'lovepassword', 'passwordlove', 'abcdefdragon', 'cdefpassword', 'passwordpassword']:
                    cases += 1
                    ok_multi, words = dm.parse(s)
                    if ''.join(words) != s or (len(words) > 1 and any(tally.get(w, 0) < 5 for w in words)):
                        fail = {'function': 'MultiWordDetector.parse', 'training_passwords': sorted(set(hist)), 'input': s, 'result': [ok_multi, words],
                                'why': 'a part was seen fewer than threshold times in the training passwords',
                                'independent_counts': {w: tally.get(w, 0) for w in words}}
                        break
                if fail:
                    break
            det = trained_detector(m)
            for L in range(1, 9):
                for tup in itertools.product('abw', repeat=L):
                    s = ''.join(tup)
                    ok_multi, words = det.parse(s)
                    cases += 1
                    why = None
                    if ''.join(words) != s or any(w == '' for w in words):
                        why = 'parts %r do not concatenate to %r' % (words, s)
                    elif len(words) > 1:
                        nontrivial += 1
                        if det._get_count(s) >= det.threshold:
                            why = 'split although the whole word is known'
                        elif any(det._get_count(w) < det.threshold for w in words):
                            why = 'a part is below the threshold: %r' % (words,)
                    if why:
                        fail = {'function': 'MultiWordDetector.parse', 'input': s, 'result': [ok_multi, words], 'why': why}
                        break
                if fail:
                    break
            samples = [{'input': 'abba', 'result': det.parse('abba')}, {'input': 'babab', 'result': det.parse('babab')}]
        else:
            det = trained_detector(m)
            seen = 0
            kb = fn == 'KEYBOARD' or 'keyboard' in fn
            gen = chk_pipeline(m, det, rng, a.tier)
            if kb:
                keys = ['q', 'w', 'e', 'a', 's', '1', '2', '3', '!', '@', 'Q', 'z']
                gen = itertools.chain(CURATED, (''.join(t) for L in range(1, (6 if a.tier == 'quick' else 7)) for t in itertools.product(keys[:(12 if L <= 4 else 8)], repeat=L)))
            import signal

            def _alarm(signum, frame):
                raise TimeoutError('segmentation of one password did not finish within 5 s')
            signal.signal(signal.SIGALRM, _alarm)
            for pw in gen:
                signal.alarm(5)
                if kb:
                    sl, walks, _ = m['keyboard_walk'].detect_keyboard_walk(pw)
                    m['other_detection'].other_detection(sl)      # label the rest so that judge() can run
                    found = None
                    why = judge_keyboard(pw, sl)
                else:
                    sl, found = segment(m, det, pw)
                    why = judge(m, pw, sl, found)
                signal.alarm(0)
                cases += 1
                if len(sl) > 1 or (kb and any(l[0] == 'K' for _, l in sl)):
                    nontrivial += 1
                if len(samples) < 3 and (len(sl) > 2 or (kb and any(l[0] == 'K' for _, l in sl) and len(sl) > 1)):
                    samples.append({'password': pw, 'segments': sl})
                if why:
                    fail = {'function': fn, 'password': pw, 'segments': sl, 'why': why}
                    break
    except Exception as ex:
        import traceback
        fail = {'function': fn, 'exception': repr(ex), 'traceback': traceback.format_exc()[-1500:],
                'password': locals().get('pw')}
    print(json.dumps({'failing_input': fail, 'failures': [fail] if fail else [], 'cases': cases, 'distinct': nontrivial,
                      'rule': 'every string over a %d-symbol trigger alphabet up to length 4 (5 thorough; lengths > 3 over 12 symbols) plus %d curated '
                              'passwords; distinct = strings segmented into more than one part' % (len(ALPHABET), len(CURATED)),
                      'samples': samples}, default=str, ensure_ascii=False))


LAYOUTS = {
    'qwerty': [('1234567890-=', '!@#$%^&*()_+'), ('qwertyuiop[]\\', 'QWERTYUIOP{}|'), ("asdfghjkl;'", 'ASDFGHJKL:"'), ('zxcvbnm,./', 'ZXCVBNM<>?')],
    'jcuken': [('1234567890-=', '!"№;%:?*()_+'), ('йцукенгшщзхъ\\', 'ЙЦУКЕНГШЩЗХЪ/'), ('фывапролджэ', 'ФЫВАПРОЛДЖЭ'), ('ячсмитьбю', 'ЯЧСМИТЬБЮ,')],
}


def positions(ch):
    """independent copy of the two layouts: layout -> (row, pos); the first row that lists the key wins"""
    out = {}
    for name, rows in LAYOUTS.items():
        for r, (plain, shifted) in enumerate(rows):
            hit = None
            if ch in plain:
                hit = (r, plain.index(ch))
            if ch in shifted:
                hit = (r, shifted.index(ch))
            if hit is not None:
                out[name] = hit
    return out


def adjacent_on(layout, c1, c2):
    p1, p2 = positions(c1).get(layout), positions(c2).get(layout)
    if p1 is None or p2 is None or p1 == p2:
        return False
    (r1, k1), (r2, k2) = p1, p2
    return (r1 == r2 and abs(k1 - k2) == 1) or (r2 == r1 + 1 and k2 in (k1, k1 - 1)) or (r2 == r1 - 1 and k2 in (k1, k1 + 1))


def is_walk(text):
    return any(all(adjacent_on(lay, a, b) for a, b in zip(text, text[1:])) for lay in LAYOUTS)


def judge_keyboard(pw, sl):
    pos = 0
    for text, label in sl:
        if text == '' or label is None:
            return 'empty or unlabelled segment %r' % ((text, label),)
        if pw[pos:pos + len(text)] != text:
            return 'segment %r is not at position %d' % (text, pos)
        pos += len(text)
        if label[0] == 'K':
            if label[1:] != str(len(text)) or len(text) < 4:
                return 'keyboard label %s for %r' % (label, text)
            classes = {('a' if ch.isalpha() else 'd' if ch.isdigit() else 'o') for ch in text}
            if len(classes) < 2:
                return 'keyboard segment %r has one character class' % text
            if not is_walk(text):
                return 'keyboard segment %r is not a walk of adjacent keys on one layout' % text
    return None if pos == len(pw) else 'segments cover %d of %d characters' % (pos, len(pw))


if __name__ == '__main__':
    main()
