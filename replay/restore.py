#!/venv/bin/python
"""
C08 replay adapter and bounded stand-in (runs the real classes under /venv/bin/python).

 --fn PcfgGrammar.is_parent_around    differential check against the contract
 --fn CUTS (default)                  C08.bounded.cuts: for every ruleset of the generated scope,
        every cut point k (and a second cut after j more pops) the interrupted+resumed run is
        compared with the uninterrupted one:
          * everything the uninterrupted run emits from the cut on is emitted by the resumed run,
          * the only repeats are pre-terminals whose probability equals the saved probability,
          * nothing more probable than the saved probability, order non-increasing.
Prints one JSON object.
"""
import argparse
import collections
import json
import random
import sys

sys.path.insert(0, __file__.rsplit('/', 2)[0])
from replay.guesser import load, mk_grammar, fold, dec, all_nodes, describe, norm_item  # noqa: E402


class FakeConfig:
    """the two floats the restore path reads, stored as the strings update_save_config writes."""

    def __init__(self):
        self.d = {}

    def set(self, sec, opt, val):
        assert isinstance(val, str)
        self.d[(sec, opt)] = val

    def getfloat(self, sec, opt):
        return float(self.d[(sec, opt)])

    def has_option(self, sec, opt):
        return (sec, opt) in self.d


def key(it):
    return json.dumps([it['base_prob'], [list(x) for x in it['pt']]])


def spec_parent_around(G, pt, b, M):
    return any(i > 0 and fold(G, dec(pt, j), b) <= M for j, (t, i) in enumerate(pt))


def chk_is_parent_around(g, rng):
    probs = set()
    for bi in range(len(g.base)):
        for pt in all_nodes(g, bi):
            probs.add(fold(g.grammar, pt, g.base[bi]['prob']))
    for bi in range(len(g.base)):
        b = g.base[bi]['prob']
        for pt in all_nodes(g, bi):
            item = {'pt': list(pt), 'base_prob': b, 'prob': fold(g.grammar, pt, b)}
            for M in sorted(probs):
                got = bool(g.is_parent_around(item, M))
                exp = spec_parent_around(g.grammar, pt, b, M)
                yield {'pt_item': norm_item(item), 'max_prob': M}, got == exp, {'got': got, 'expected': exp}


def full_run(g, pq):
    q = pq.PcfgQueue(g)
    out = []
    while True:
        it = q.next()
        if it is None:
            return out
        out.append(it)


def resume(g, pq, saved_queue):
    cfg = FakeConfig()
    saved_queue.update_save_config(cfg)
    return pq.PcfgQueue(g, cfg), cfg.getfloat('guessing_info', 'max_probability')


def cuts(g, pq, two=True):
    base = full_run(g, pq)
    n = len(base)
    for k in range(1, n + 1):
        # first session: pop k items; the k-th is popped but NOT guessed (quit noticed after the pop)
        q1 = pq.PcfgQueue(g)
        for _ in range(k):
            last = q1.next()
        q2, M = resume(g, pq, q1)
        ok, why, emitted = judge(g, base, k, q2, M)
        yield {'cut_after_pop': k, 'saved_probability': M, 'uninterrupted': [key(x) for x in base]}, ok, \
            {'why': why, 'resumed': emitted}
        if two and ok and k < n:
            # second cycle: resume, pop j items, quit again, resume again
            for j in (1, 2):
                q2, M = resume(g, pq, q1)
                got = []
                for _ in range(j):
                    it = q2.next()
                    if it is None:
                        break
                    got.append(it)
                if not got:
                    continue
                guessed_in_2 = got[:-1]
                q3, M2 = resume(g, pq, q2)
                # the reference continuation: everything not yet guessed before the second quit
                done = collections.Counter(key(x) for x in base[:k - 1]) + collections.Counter(key(x) for x in guessed_in_2)
                ok, why, emitted = judge_counter(g, base, done, q3, M2)
                yield {'cut_after_pop': k, 'second_cut_after': j, 'saved_probability': M2}, ok, {'why': why, 'resumed': emitted}


def judge(g, base, k, q2, M):
    done = collections.Counter(key(x) for x in base[:k - 1])
    return judge_counter(g, base, done, q2, M)


def judge_counter(g, base, done, q2, M):
    """done: what was really guessed before the quit. Everything else must come out of q2."""
    need = collections.Counter(key(x) for x in base) - done
    emitted = []
    prev = None
    why = None
    steps = 0
    while True:
        it = q2.next()
        if it is None:
            break
        steps += 1
        if steps > 20000:
            why = 'resumed run does not terminate'
            break
        emitted.append(it)
        if it['prob'] > M:
            why = 'resumed run emits %s with probability %r above the saved %r' % (key(it), it['prob'], M)
        if prev is not None and it['prob'] > prev:
            why = 'resumed run is not in non-increasing order at %s' % key(it)
        prev = it['prob']
    got = collections.Counter(key(x) for x in emitted)
    missing = need - got
    if missing and why is None:
        why = 'lost: %s' % sorted(missing.elements())[:5]
    extra = got - need
    probs = {key(x): x['prob'] for x in emitted}
    for kx in extra:
        if probs[kx] != M and why is None:
            why = 'repeated %s with probability %r which is not the saved probability %r' % (kx, probs[kx], M)
    return why is None, why, [key(x) for x in emitted][:40]


def main():
    ap = argparse.ArgumentParser()
    ap.add_argument('--repo', default='/repo')
    ap.add_argument('--fn', default='CUTS')
    ap.add_argument('--seed', type=int, default=0)
    ap.add_argument('--tier', default='quick')
    ap.add_argument('--grammars', type=int, default=None)
    a = ap.parse_args()
    PcfgGrammar, pq = load(a.repo)
    rng = random.Random(a.seed)
    n = a.grammars or (300 if a.tier == 'thorough' else 60)
    cases = 0
    distinct = set()
    fail = None
    samples = []
    g = None
    try:
        for gi in range(n):
            g = mk_grammar(PcfgGrammar, rng, rng.randint(1, 3), tie_rich=(gi % 4 != 3))
            if gi % 5 == 4 and len(g.base) > 1:
                g.base[1] = dict(g.base[0])          # duplicate base structure
            it = chk_is_parent_around(g, rng) if a.fn.endswith('is_parent_around') else cuts(g, pq)
            for inp, ok, extra in it:
                cases += 1
                distinct.add(json.dumps([describe(g), inp.get('cut_after_pop'), inp.get('second_cut_after'),
                                         inp.get('max_prob'), str(inp.get('pt_item'))], sort_keys=True, default=str))
                if len(samples) < 2 and cases % 7 == 1:
                    samples.append({'ruleset': describe(g), 'case': {k: v for k, v in inp.items() if k != 'uninterrupted'}})
                if not ok:
                    fail = {'function': a.fn, 'ruleset': describe(g), 'input': inp, **extra}
                    break
            if fail:
                break
        if fail is None and not a.fn.endswith('is_parent_around'):
            # a deep restore: one variable with 1500 strictly decreasing groups, cut after 1400 pops (the restore walk is 1400 levels deep,
            # beyond Python's default recursion limit of 1000)
            g = PcfgGrammar.__new__(PcfgGrammar)
            g.debug = False
            g.grammar = {'D1': [{'values': ['d%d' % i], 'prob': 0.999 ** i} for i in range(1500)]}
            g.base = [{'prob': 1.0, 'replacements': ['D1']}]
            base = full_run(g, pq)
            deep_cuts = [(g, base, 1400, 'D1 with 1500 groups of probability 0.999**i, base D1 1.0')]
            # ... and two long variables (the depth of the walk is the SUM of the indices, here up to about 1050)
            g2 = PcfgGrammar.__new__(PcfgGrammar)
            g2.debug = False
            g2.grammar = {'D1': [{'values': ['d%d' % i], 'prob': 0.999 ** i} for i in range(900)],
                          'O1': [{'values': ['o%d' % i], 'prob': 1.0 - i * 1e-7} for i in range(150)]}
            g2.base = [{'prob': 1.0, 'replacements': ['D1', 'O1']}]
            base2 = full_run(g2, pq)
            # (first, while the process still has Python's default recursion limit)
            deep_cuts.insert(0, (g2, base2, len(base2) - 3, 'D1 with 900 groups 0.999**i, O1 with 150 groups 1 - i*1e-7, base D1O1 1.0'))
            for g, base, k, what in deep_cuts:
                q1 = pq.PcfgQueue(g)
                for _ in range(k):
                    q1.next()
                q2, M = resume(g, pq, q1)
                ok, why, emitted = judge(g, base, k, q2, M)
                cases += 1
                distinct.add('deep-%d' % k)
                if not ok:
                    fail = {'function': a.fn, 'ruleset': what, 'input': {'cut_after_pop': k, 'saved_probability': M},
                            'why': why, 'resumed_head': emitted[:5]}
    except Exception as ex:
        import traceback
        fail = {'function': a.fn, 'exception': repr(ex), 'traceback': traceback.format_exc()[-1500:],
                'ruleset': describe(g) if g is not None else None}
    print(json.dumps({'failing_input': fail, 'failures': [fail] if fail else [], 'cases': cases, 'distinct': len(distinct),
                      'rule': 'random tie-rich rulesets (1-3 variables x 1-3 groups, 1-3 base structures, duplicates), '
                              'every cut point, second cuts after 1 and 2 pops; distinct = distinct (ruleset, cut) pairs',
                      'samples': samples}, default=str))


if __name__ == '__main__':
    main()
