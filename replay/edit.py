#!/venv/bin/python
"""
C20 bounded stand-in / replay adapter: the real edit_rules.py CLI on scratch rulesets.

For a hand-written grammar.txt (multi-digit labels, years, context-sensitive and keyboard segments, the Markov structure) and for a small
trained ruleset, and for a grid of --min_length / --max_length / --terminal_set / --regex / --copy combinations:
  * grammar.txt afterwards == the original lines minus those that fail a requested filter (executable spec below), order and text of the
    survivors unchanged;
  * no other file of the ruleset changes; with --copy the source ruleset is byte-identical and the copy is the edited one;
  * (trained ruleset) every guess generated without Markov from the edited ruleset has a length within the requested bounds.
Prints one JSON object; failures carry a 'class' so that listed findings can be told apart from new violations.
"""
import argparse
import hashlib
import itertools
import json
import os
import re
import shutil
import subprocess
import sys
import tempfile

PY = '/venv/bin/python'
HAND = [('A4D2', 0.2), ('M', 0.15), ('D6', 0.1), ('A6X1', 0.09), ('A12D10O1', 0.08), ('Y1A3', 0.07), ('K4D1', 0.06), ('O1A1O1', 0.05),
        ('A3', 0.04), ('D1', 0.03), ('A5Y1', 0.025), ('X1', 0.02), ('A2D2O2K4', 0.015), ('A1000', 1e-05), ('D100A1', 9e-06)]
WORDS = ['password1', 'password1', 'love#1', 'love#1', 'abc<3', 'summer2019', 'summer2019', 'qwerty', '1qaz2wsx', 'hello!!', 'hello!!', 'a1', 'a1',
         '12345', '12345', '12345', 'No.1fan', 'iloveyou', 'iloveyou', 'Tiger7', 'x', '2020vision', 'abcdefghijkl99']


def tokens(structure):
    return re.findall(r'[A-Z][0-9]*', structure)


def seg_len(tok, ctx):
    """(min, max) number of characters a segment generates"""
    k = tok[0]
    if k in 'ADOK':
        n = int(tok[1:])
        return n, n
    if k == 'Y':
        return 4, 4
    if k == 'X':
        return ctx
    return 0, 0          # M, E, W: not generated as fixed-length text / not counted


def keep(structure, opts, ctx):
    toks = tokens(structure)
    mn, mx = opts.get('min', 0), opts.get('max', 0)
    if mn or mx:
        lo = sum(seg_len(t, ctx)[0] for t in toks)
        hi = sum(seg_len(t, ctx)[1] for t in toks)
        if hi != 0 and not (lo >= mn and (mx == 0 or hi <= mx)):
            return False
    if opts.get('terminals'):
        if any(t[0] not in opts['terminals'] for t in toks):
            return False
    for rx in opts.get('regex') or []:
        if not re.search(rx, structure):
            return False
    return True


def tree_hash(root, skip):
    out = {}
    for dp, dn, fn in os.walk(root):
        for f in fn:
            p = os.path.join(dp, f)
            rel = os.path.relpath(p, root)
            if rel == skip:
                continue
            out[rel] = hashlib.sha256(open(p, 'rb').read()).hexdigest()
    return out


def run_edit(d, rule, opts, copy=None):
    cmd = [PY, 'edit_rules.py', '-r', rule]
    if copy:
        cmd += ['--copy', copy]
    if opts.get('min'):
        cmd += ['--min_length', str(opts['min'])]
    if opts.get('max'):
        cmd += ['--max_length', str(opts['max'])]
    if opts.get('terminals'):
        cmd += ['--terminal_set', ','.join(opts['terminals'])]
    if opts.get('regex'):
        cmd += ['--regex', ','.join(opts['regex'])]
    return subprocess.run(cmd, cwd=d, capture_output=True, text=True, stdin=subprocess.DEVNULL, timeout=120)


def read_grammar(root):
    with open(os.path.join(root, 'Grammar', 'grammar.txt'), newline='') as fh:
        return fh.read()


def guesses(d, rule, limit=200000):
    p = subprocess.run([PY, 'pcfg_guesser.py', '-r', rule, '--skip_brute', '-n', str(limit)], cwd=d, capture_output=True, stdin=subprocess.DEVNULL, timeout=300)
    return p.stdout.decode('utf-8', 'replace').split('\n')[:-1]


def main():
    ap = argparse.ArgumentParser()
    ap.add_argument('--repo', default='/repo')
    ap.add_argument('--fn', default='C20')
    ap.add_argument('--seed', type=int, default=0)
    ap.add_argument('--tier', default='quick')
    a = ap.parse_args()
    d = tempfile.mkdtemp(prefix='pcfg_edit_')
    failures = []
    cases = 0
    samples = []

    def fail(cls, **kw):
        if not any(f['class'] == cls for f in failures) or cls == 'other':
            failures.append(dict({'class': cls}, **kw))

    try:
        subprocess.run(['rsync', '-a', '--exclude', '.git', '--exclude', '.pyvc_*', '--exclude', 'Rules/Russian', a.repo.rstrip('/') + '/', d + '/'], check=True)
        rules = os.path.join(d, 'Rules')
        # ---- ruleset 1: Default's files with a hand-written grammar.txt (filter logic in isolation)
        hand = os.path.join(rules, 'HAND')
        shutil.copytree(os.path.join(rules, 'Default'), hand)
        with open(os.path.join(hand, 'Grammar', 'grammar.txt'), 'w', newline='') as fh:
            for s, p in HAND:
                fh.write('%s\t%r\n' % (s, p))
        # context-sensitive replacements of different lengths whose alphabetical order is not their order by length
        cdir = os.path.join(hand, 'Context')
        for f in os.listdir(cdir):
            with open(os.path.join(cdir, f), 'w', encoding='utf-8', newline='') as fh:
                fh.write('#1\t0.4\n;p\t0.3\nno.1\t0.2\nst.\t0.1\n')
        # ---- ruleset 2: trained
        with open(os.path.join(d, 'list.txt'), 'w') as fh:
            fh.write('\n'.join(WORDS) + '\n')
        r = subprocess.run([PY, 'trainer.py', '-t', 'list.txt', '-r', 'TRAINED', '--coverage', '0.6'], cwd=d, capture_output=True, text=True, stdin=subprocess.DEVNULL)
        if r.returncode != 0:
            raise RuntimeError('trainer failed: ' + r.stderr[-300:])
        shutil.rmtree(os.path.join(rules, 'Default'))

        def ctx_of(root):
            lens = []
            cdir = os.path.join(root, 'Context')
            for f in os.listdir(cdir) if os.path.isdir(cdir) else []:
                for line in open(os.path.join(cdir, f), encoding='utf-8'):
                    if '\t' in line:
                        lens.append(len(line.rsplit('\t', 1)[0]))
            return (min(lens), max(lens)) if lens else (1, 1)

        grid = []
        for mn, mx in [(0, 0), (6, 0), (0, 7), (6, 8), (1, 1), (8, 8), (0, 1), (22, 0), (5, 1100), (0, 3), (0, 9), (3, 0)]:
            grid.append({'min': mn, 'max': mx})
        grid += [{'terminals': ['A', 'D']}, {'terminals': ['A', 'D', 'M']}, {'terminals': ['Y', 'A']}, {'regex': ['A']}, {'regex': ['^A', 'D']},
                 {'regex': ['[0-9]{2}']}, {'regex': ['^A\\d+D\\d+$']}, {'regex': ['^[A-Z]\\d', '\\d$']}, {'min': 6, 'max': 10, 'terminals': ['A', 'D', 'O', 'M'], 'regex': ['D']}, {'min': 4, 'terminals': ['A', 'D', 'X', 'Y']}]
        if a.tier != 'quick':
            grid += [{'min': mn, 'max': mx} for mn in range(0, 14) for mx in (0, 3, 6, 9, 12, 15) if mx == 0 or mn <= mx]
        for base in ('HAND', 'TRAINED'):
            src = os.path.join(rules, base)
            ctx = ctx_of(src)
            original = read_grammar(src)
            lines = [l for l in original.split('\n') if l]
            for gi, opts in enumerate(grid):
                if not any(opts.values()):
                    continue
                for use_copy in ((False, True) if gi % 4 == 0 else (False,)):
                    work = 'W%d' % cases
                    cases += 1
                    if use_copy:
                        before = tree_hash(src, None)
                        r = run_edit(d, base, opts, copy=work)
                        target = os.path.join(rules, work)
                        if tree_hash(src, None) != before:
                            fail('other', what='--copy modified the source ruleset', options=opts, ruleset=base)
                    else:
                        shutil.copytree(src, os.path.join(rules, work))
                        target = os.path.join(rules, work)
                        r = run_edit(d, work, opts)
                    if r.returncode != 0:
                        fail('other', what='edit_rules.py failed', options=opts, ruleset=base, stderr=r.stderr[-400:])
                        shutil.rmtree(target, ignore_errors=True)
                        continue
                    others_before = tree_hash(src, os.path.join('Grammar', 'grammar.txt'))
                    others_after = tree_hash(target, os.path.join('Grammar', 'grammar.txt'))
                    if others_before != others_after:
                        diff = sorted(set(others_before.items()) ^ set(others_after.items()))[:4]
                        fail('other', what='a file other than Grammar/grammar.txt changed', options=opts, ruleset=base, files=[x[0] for x in diff])
                    got = [l for l in read_grammar(target).split('\n') if l]
                    exp = [l for l in lines if keep(l.split('\t')[0], opts, ctx)]
                    if len(samples) < 3 and len(exp) not in (0, len(lines)):
                        samples.append({'ruleset': base, 'options': opts, 'kept': len(exp), 'of': len(lines)})
                    if got != exp:
                        missing = [l for l in exp if l not in got]
                        extra = [l for l in got if l not in exp]
                        involved = [l.split('\t')[0] for l in missing + extra]
                        only_x = bool(involved) and all('X' in s for s in involved) and bool(opts.get('min') or opts.get('max'))
                        fail('context-segment-counted-as-one-character' if only_x else 'other',
                             what='grammar.txt after editing differs from the original minus the failing structures', options=opts, ruleset=base,
                             wrongly_removed_or_changed=missing[:5], wrongly_kept_or_new=extra[:5])
                    elif base == 'TRAINED' and (opts.get('min') or opts.get('max')) and exp:
                        gs = guesses(d, work)
                        mn, mx = opts.get('min', 0), opts.get('max', 0)
                        bad = [g for g in gs if len(g) < mn or (mx and len(g) > mx)]
                        if bad:
                            fail('other', what='a guess generated from the edited ruleset is outside the requested length bounds', options=opts,
                                 guesses=bad[:5], generated=len(gs))
                    shutil.rmtree(target, ignore_errors=True)
                    if len([f for f in failures if f['class'] == 'other']) >= 3:
                        break
    except Exception as ex:
        import traceback
        failures.append({'class': 'exception', 'exception': repr(ex), 'traceback': traceback.format_exc()[-1500:]})
    finally:
        shutil.rmtree(d, ignore_errors=True)
    print(json.dumps({'failing_input': failures[0] if failures else None, 'failures': failures, 'cases': cases, 'distinct': cases,
                      'rule': 'hand-written grammar.txt (15 structures incl. M, X1, Y1, K4, multi-digit and 4-digit labels) and a trained ruleset x %d option '
                              'combinations (length bounds, terminal sets, regexes, --copy)' % cases, 'samples': samples}, default=str))


if __name__ == '__main__':
    main()
