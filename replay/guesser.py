#!/venv/bin/python
"""
Replay / differential adapter for the guesser core (runs under /venv/bin/python, real code).

Given a refuted or undischarged obligation of one of the functions below, it searches a
small, tie-rich scope for a concrete input on which the *real* function disagrees with the
executable form of its contract, seeded by the solver's candidate model where that gives
shape information.  Prints one JSON object: {"failing_input": {...}|null, "cases": n}.

Executable specs mirror contracts/guesser_core.py (Fold, Adopt, Kids, heap step); the
agreement of real code and executable spec on the unchanged tree is itself checked by
`--selfcheck` (encoder cross-check, DESIGN 3.7).
"""
import argparse
import os
import copy
import itertools
import json
import random
import sys


def load(repo):
    sys.path.insert(0, repo)
    from lib_guesser.pcfg_grammar import PcfgGrammar
    from lib_guesser import priority_queue
    return PcfgGrammar, priority_queue


DYADIC = [1.0, 0.5, 0.25, 0.125, 0.75, 0.375, 0.0625]
NASTY = [0.1, 0.2, 0.3, 0.7, 0.6, 0.4, 1e-300, 0.9999999999999999]


def mk_grammar(PcfgGrammar, rng, ntypes, tie_rich=True):
    g = PcfgGrammar.__new__(PcfgGrammar)
    g.grammar = {}
    names = ['A1', 'D2', 'O1', 'K4', 'Y1'][:ntypes]
    for nm in names:
        n = rng.randint(1, 3)
        pool = DYADIC if tie_rich else DYADIC + NASTY
        probs = sorted(rng.sample(pool, n), reverse=True)
        g.grammar[nm] = [{'values': ['%s_%d_%d' % (nm, i, v) for v in range(rng.randint(1, 2))], 'prob': p}
                         for i, p in enumerate(probs)]
    g.base = []
    for _ in range(rng.randint(1, 3)):
        repl = [rng.choice(names) for _ in range(rng.randint(1, 3))]
        g.base.append({'prob': rng.choice(DYADIC), 'replacements': repl})
    g.debug = False
    return g


# ---------------------------------------------------------------- executable specs
def fold(G, pt, b, k=None):
    k = len(pt) if k is None else k
    p = b
    for (t, i) in pt[:k]:
        p = p * G[t][i]['prob']
    return p


def dec(pt, j):
    c = list(pt)
    c[j] = (c[j][0], c[j][1] - 1)
    return c


def inc(pt, j):
    c = list(pt)
    c[j] = (c[j][0], c[j][1] + 1)
    return c


def adopt(G, child, b, ppos, pprob):
    for j, (t, i) in enumerate(child):
        if j == ppos or i == 0:
            continue
        q = fold(G, dec(child, j), b)
        if not (q > pprob or (q == pprob and j > ppos)):
            return False
    return True


def kids(G, pt, b, pprob):
    out = []
    for j, (t, i) in enumerate(pt):
        if len(G[t]) != i + 1 and adopt(G, inc(pt, j), b, j, pprob):
            c = inc(pt, j)
            out.append({'pt': c, 'base_prob': b, 'prob': fold(G, c, b)})
    return out


def all_nodes(g, bi):
    base = g.base[bi]
    ranges = [range(len(g.grammar[t])) for t in base['replacements']]
    for idx in itertools.product(*ranges):
        yield [(t, i) for t, i in zip(base['replacements'], idx)]


def norm_item(it):
    return {'pt': [list(x) for x in it['pt']], 'base_prob': it['base_prob'], 'prob': it['prob']}


# ---------------------------------------------------------------- per-function differential checks
def chk_find_prob(g, rng):
    for bi in range(len(g.base)):
        for pt in all_nodes(g, bi):
            b = g.base[bi]['prob']
            got = g._find_prob(pt, b)
            exp = fold(g.grammar, pt, b)
            yield {'pt': pt, 'base_prob': b}, got == exp, {'got': got, 'expected': exp}


def chk_are_you_my_child(g, rng):
    for bi in range(len(g.base)):
        b = g.base[bi]['prob']
        for child in all_nodes(g, bi):
            for ppos in range(len(child)):
                cands = {fold(g.grammar, dec(child, j), b) for j in range(len(child)) if child[j][1] > 0}
                cands |= {rng.choice(DYADIC)}
                for pprob in sorted(cands):
                    got = g._are_you_my_child(list(child), b, ppos, pprob)
                    exp = adopt(g.grammar, child, b, ppos, pprob)
                    yield ({'child': child, 'base_prob': b, 'parent_pos': ppos, 'parent_prob': pprob},
                           bool(got) == exp, {'got': got, 'expected': exp})


def chk_find_children(g, rng):
    for bi in range(len(g.base)):
        b = g.base[bi]['prob']
        for pt in all_nodes(g, bi):
            item = {'pt': list(pt), 'base_prob': b, 'prob': fold(g.grammar, pt, b)}
            got = [norm_item(x) for x in g.find_children(copy.deepcopy(item))]
            exp = [norm_item(x) for x in kids(g.grammar, pt, b, item['prob'])]
            yield {'pt_item': norm_item(item)}, got == exp, {'got': got, 'expected': exp}


def chk_init_base(g, rng):
    got = [norm_item(x) for x in g.initalize_base_structures()]
    exp = []
    for bse in g.base:
        pt = [(r, 0) for r in bse['replacements']]
        exp.append(norm_item({'pt': pt, 'base_prob': bse['prob'], 'prob': fold(g.grammar, pt, bse['prob'])}))
    yield {'base': g.base}, got == exp, {'got': got, 'expected': exp}


def chk_cmp(pq, rng):
    ops = {'__lt__': lambda a, b: a > b, '__le__': lambda a, b: a >= b, '__eq__': lambda a, b: a == b,
           '__ne__': lambda a, b: a != b, '__gt__': lambda a, b: a < b, '__ge__': lambda a, b: a <= b}
    vals = DYADIC + NASTY
    for name, rel in ops.items():
        for a in vals:
            for b in vals:
                x = pq.QueueItem({'prob': a})
                y = pq.QueueItem({'prob': b})
                got = getattr(x, name)(y)
                yield {'method': name, 'self.prob': a, 'other.prob': b}, bool(got) == rel(a, b), {'got': got, 'expected': rel(a, b)}


def run_queue(g, pq, check_step=True):
    """the real PcfgQueue run to exhaustion; yields per-step verdicts of the heap-step contract
    and of the run-level clauses (order, attached probability, exactly once)."""
    q = pq.PcfgQueue(g)
    seen = []
    prev = None
    expected_total = 0
    for bi in range(len(g.base)):
        expected_total += sum(1 for _ in all_nodes(g, bi))
    steps = 0
    while True:
        before = sorted((x.pt_item['prob'], json.dumps(norm_item(x.pt_item), sort_keys=True)) for x in q.p_queue)
        old_max = q.max_probability
        it = q.next()
        if it is None:
            ok = len(before) == 0
            yield {'step': steps, 'event': 'exhausted'}, ok, {'queue_before': len(before)}
            break
        steps += 1
        after = sorted((x.pt_item['prob'], json.dumps(norm_item(x.pt_item), sort_keys=True)) for x in q.p_queue)
        me = (it['prob'], json.dumps(norm_item(it), sort_keys=True))
        exp = list(before)
        ok = me in exp and all(p <= it['prob'] for p, _ in before)
        if me in exp:
            exp.remove(me)
        for k in kids(g.grammar, it['pt'], it['base_prob'], it['prob']):
            exp.append((k['prob'], json.dumps(norm_item(k), sort_keys=True)))
        ok = ok and sorted(exp) == after and q.max_probability == it['prob']
        yield ({'step': steps, 'popped': norm_item(it)}, ok,
               {'queue_after': [a[1] for a in after], 'expected_after': [e[1] for e in sorted(exp)],
                'max_probability': q.max_probability})
        ok2 = (prev is None or it['prob'] <= prev) and it['prob'] <= old_max and \
            it['prob'] == fold(g.grammar, it['pt'], it['base_prob'])
        yield {'step': steps, 'clause': 'order/attached_prob', 'popped': norm_item(it), 'previous_prob': prev}, ok2, {}
        prev = it['prob']
        seen.append(json.dumps([it['base_prob'], [list(x) for x in it['pt']]]))
        if steps > 5000:
            break
    # exactly once per derivation (duplicate base structures are distinct derivations)
    exp_nodes = []
    for bi in range(len(g.base)):
        for pt in all_nodes(g, bi):
            exp_nodes.append(json.dumps([g.base[bi]['prob'], [list(x) for x in pt]]))
    yield {'clause': 'exactly_once', 'emitted': len(seen), 'expected': len(exp_nodes)}, sorted(seen) == sorted(exp_nodes), {}


CHECKS = {
    'PcfgGrammar._find_prob': ('grammar', chk_find_prob),
    'PcfgGrammar._are_you_my_child': ('grammar', chk_are_you_my_child),
    'PcfgGrammar.find_children': ('grammar', chk_find_children),
    'PcfgGrammar.initalize_base_structures': ('grammar', chk_init_base),
    'QueueItem': ('cmp', chk_cmp),
    'PcfgQueue': ('queue', None),
    'RUN': ('queue', None),
}


def describe(g):
    return {'grammar': {k: [{'prob': x['prob'], 'values': x['values']} for x in v] for k, v in g.grammar.items()},
            'base': g.base}


def det_child(repo, seed, n_grammars):
    """child process of the DET mode: prints the pre-terminal sequences of tie-rich random rulesets as one JSON list"""
    PcfgGrammar, pq = load(repo)
    rng = random.Random(seed)
    out = []
    for gi in range(n_grammars):
        g = mk_grammar(PcfgGrammar, rng, rng.randint(2, 3), tie_rich=True)
        q = pq.PcfgQueue(g)
        seq = []
        while True:
            it = q.next()
            if it is None or len(seq) > 3000:
                break
            seq.append([it['prob'], it['base_prob'], [list(x) for x in it['pt']]])
        out.append(seq)
    print(json.dumps(out))


def chk_det(repo, seed, tier):
    """the emitted sequence is a function of the ruleset: the same rulesets in processes with different string-hash seeds"""
    import subprocess
    n = 12 if tier == 'quick' else 60
    runs = []
    for hs in ('1', '2', '77'):
        env = dict(os.environ, PYTHONHASHSEED=hs)
        p = subprocess.run([sys.executable, '-W', 'ignore', os.path.abspath(__file__), '--repo', repo, '--fn', 'DETCHILD', '--seed', str(seed), '--grammars', str(n)],
                           capture_output=True, text=True, env=env, timeout=600)
        runs.append(json.loads(p.stdout.strip().split('\n')[-1]))
    for gi in range(n):
        ok = runs[0][gi] == runs[1][gi] == runs[2][gi]
        first = next((k for k in range(min(len(r[gi]) for r in runs)) if not (runs[0][gi][k] == runs[1][gi][k] == runs[2][gi][k])), None)
        yield {'ruleset_number': gi, 'hash_seeds': [1, 2, 77]}, ok, {'first_difference_at_pop': first,
                                                                     'seed1': runs[0][gi][first] if first is not None else None,
                                                                     'seed2': runs[1][gi][first] if first is not None else None}


def main():
    ap = argparse.ArgumentParser()
    ap.add_argument('--repo', default='/repo')
    ap.add_argument('--fn', required=True)
    ap.add_argument('--seed', type=int, default=0)
    ap.add_argument('--grammars', type=int, default=60)
    ap.add_argument('--tier', default='quick')
    a = ap.parse_args()
    if a.fn == 'DETCHILD':
        return det_child(a.repo, a.seed, a.grammars)
    if a.fn == 'DET':
        cases, fail = 0, None
        try:
            for inp, ok, extra in chk_det(a.repo, a.seed, a.tier):
                cases += 1
                if not ok:
                    fail = dict({'function': 'DET', 'input': inp}, **extra)
                    break
        except Exception as ex:
            import traceback
            fail = {'function': 'DET', 'exception': repr(ex), 'traceback': traceback.format_exc()[-1200:]}
        print(json.dumps({'failing_input': fail, 'failures': [fail] if fail else [], 'cases': cases, 'distinct': cases,
                          'rule': 'tie-rich random rulesets, each run to exhaustion in three processes with PYTHONHASHSEED 1, 2 and 77', 'samples': []}, default=str))
        return
    PcfgGrammar, pq = load(a.repo)
    rng = random.Random(a.seed)
    key = None
    for k in CHECKS:
        if a.fn.startswith(k):
            key = k
    if key is None:
        key = 'RUN'
    kind, fn = CHECKS[key]
    cases = 0
    fail = None
    try:
        if kind == 'cmp':
            for inp, ok, extra in fn(pq, rng):
                cases += 1
                if not ok:
                    fail = {'function': a.fn, 'input': inp, **extra}
                    break
        else:
            for gi in range(a.grammars):
                g = mk_grammar(PcfgGrammar, rng, rng.randint(1, 3), tie_rich=(gi % 3 != 2))
                it = fn(g, rng) if kind == 'grammar' else run_queue(g, pq)
                for inp, ok, extra in it:
                    cases += 1
                    if not ok:
                        fail = {'function': a.fn, 'ruleset': describe(g), 'input': inp, **extra}
                        break
                if fail:
                    break
    except Exception as ex:   # a crash of the real code on a well-formed input is a failing input too
        import traceback
        fail = {'function': a.fn, 'exception': repr(ex), 'traceback': traceback.format_exc()[-1500:],
                'ruleset': describe(g) if kind != 'cmp' else None}
    print(json.dumps({'failing_input': fail, 'cases': cases}, default=str))


if __name__ == '__main__':
    main()
