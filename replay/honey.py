#!/venv/bin/python
"""
C16 replay adapter and bounded stand-in (real classes, random patched where a sweep is wanted).

 sweep  : random.random is replaced by a scripted stream; for small rulesets every breakpoint interval
          of the base-structure selection and of each group selection is visited (interval midpoints,
          the breakpoints themselves, and a draw above the float sum) and the pt returned by the real
          random_walk is compared with the executable selection spec.  The induced measure of each base
          structure / group (length of its interval) is compared with its probability (A-REAL: exact
          rational arithmetic on the dyadic probabilities used).
 words  : every honeyword belongs to the expansion of its pre-terminal; HoneywordSession.run(limit=N)
          writes exactly N lines; two runs in random_walk mode give identical output.
Prints one JSON object.
"""
import argparse
import contextlib
import io
import json
import random
import sys
from fractions import Fraction

sys.path.insert(0, __file__.rsplit('/', 2)[0])
from replay.guesser import load  # noqa: E402
from replay.expand import mk_ruleset, expand, captured  # noqa: E402


def add_base(g, rng):
    g.base = []
    names = ['D1', 'O1', ('A1', 'C1'), ('A2', 'C2'), ('A3', 'C3')]
    k = rng.randint(1, 4)
    probs = [Fraction(1, 2 ** (i + 1)) for i in range(k)]
    probs[-1] += 1 - sum(probs)
    for p in probs:
        repl = []
        for _ in range(rng.randint(1, 2)):
            n = rng.choice(names)
            repl.extend(n if isinstance(n, tuple) else [n])
        if len(g.base) == 0 and rng.random() < 0.7:
            # the same variable twice in one base structure (selection is per position, not per variable)
            rep = rng.choice(['D1', 'O1'])
            repl = [rep, rng.choice(['O1', 'D1']), rep]
        g.base.append({'prob': float(p), 'replacements': repl})
    # group probabilities such that prob * len(values) sums to 1 per variable (as the trainer writes them)
    for t, groups in g.grammar.items():
        total = sum(len(x['values']) for x in groups)
        w = [Fraction(1, 2 ** (i + 1)) for i in range(len(groups))]
        w[-1] += 1 - sum(w)
        for x, wi in zip(groups, w):
            x['prob'] = float(wi / len(x['values']))


def select(cums, u):
    for i, c in enumerate(cums):
        if c >= u:
            return i
    return None


def spec_walk(g, draws):
    cum, cums = 0, []
    for b in g.base:
        cum += b['prob']
        cums.append(cum)
    b = select(cums, draws[0])
    if b is None:
        b = len(g.base) - 1
    pt = []
    for k, t in enumerate(g.base[b]['replacements']):
        cum, cums = 0, []
        for grp in g.grammar[t]:
            cum += grp['prob'] * len(grp['values'])
            cums.append(cum)
        i = select(cums, draws[1 + k])
        pt.append((t, 0 if i is None else i))
    return pt


def points(cums):
    """midpoints of every interval, the breakpoints, and a value above the sum"""
    pts = []
    prev = 0.0
    for c in cums:
        pts.append((prev + c) / 2)
        pts.append(c)
        prev = c
    pts.append(min(0.9999999999999999, prev + (1 - prev) / 2) if prev < 1 else 0.9999999999999999)
    return pts


def chk_sweep(g, rng):
    cum, cums = 0, []
    for b in g.base:
        cum += b['prob']
        cums.append(cum)
    real_random = random.random
    try:
        for u0 in points(cums):
            b = select(cums, u0)
            b = len(g.base) - 1 if b is None else b
            repl = g.base[b]['replacements']
            per_pos = []
            for t in repl:
                c2, cs = 0, []
                for grp in g.grammar[t]:
                    c2 += grp['prob'] * len(grp['values'])
                    cs.append(c2)
                per_pos.append(points(cs))
            for trial in range(6):
                draws = [u0] + [rng.choice(p) for p in per_pos]
                stream = iter(draws)
                random.random = lambda: next(stream)
                got = g.random_walk()
                exp = spec_walk(g, draws)
                ok = [tuple(x) for x in got['pt']] == exp and got['base_prob'] == 1.0
                yield {'draws': draws}, ok, {'got_pt': got['pt'], 'expected_pt': exp}
    finally:
        random.random = real_random
    # measure: interval lengths equal the probabilities (exact on these dyadic values)
    prev = Fraction(0)
    for b, c in zip(g.base, cums):
        ok = Fraction(c) - prev == Fraction(b['prob'])
        yield {'measure_of_base': b['replacements']}, ok, {'interval': float(Fraction(c) - prev), 'probability': b['prob']}
        prev = Fraction(c)


def chk_words(g, rng, pq_mod, hs_mod):
    for seed in range(8):
        random.seed(seed)
        it = g.random_walk()
        r, lines = captured(g.create_guesses, it['pt'], True, None)
        E = expand(g.grammar, '', it['pt'])
        ok = r == 1 and len(lines) == 1 and lines[0] in E
        yield {'seed': seed, 'pt': it['pt']}, ok, {'written': lines, 'expansion_size': len(E)}
    for n in (1, 2, 5):
        outs = []
        for rep in range(2):
            s = hs_mod.HoneywordSession(g, 'random_walk')
            buf = io.StringIO()
            with contextlib.redirect_stdout(buf), contextlib.redirect_stderr(io.StringIO()):
                s.run(limit=n)
            outs.append(buf.getvalue())
        lines = outs[0].split('\n')[:-1]
        yield {'limit': n, 'mode': 'random_walk'}, len(lines) == n and outs[0] == outs[1], {'lines': lines, 'second_run_equal': outs[0] == outs[1]}
        s = hs_mod.HoneywordSession(g, 'honeywords')
        buf = io.StringIO()
        with contextlib.redirect_stdout(buf), contextlib.redirect_stderr(io.StringIO()):
            s.run(limit=n)
        yield {'limit': n, 'mode': 'honeywords'}, len(buf.getvalue().split('\n')) - 1 == n, {'lines': buf.getvalue().split('\n')[:-1]}


def main():
    ap = argparse.ArgumentParser()
    ap.add_argument('--repo', default='/repo')
    ap.add_argument('--fn', default='ALL')
    ap.add_argument('--seed', type=int, default=0)
    ap.add_argument('--tier', default='quick')
    a = ap.parse_args()
    PcfgGrammar, pq = load(a.repo)
    from lib_guesser import honeyword_session as hs
    rng = random.Random(a.seed)
    cases = 0
    distinct = set()
    fail = None
    samples = []
    g = None
    try:
        for gi in range(10 if a.tier == 'quick' else 60):
            g = mk_ruleset(PcfgGrammar, rng)
            add_base(g, rng)
            its = []
            if a.fn in ('ALL', 'SWEEP') or 'random_walk' in a.fn:
                its.append(chk_sweep(g, rng))
            if a.fn in ('ALL', 'WORDS') or 'honeyword' in a.fn.lower() or 'create_guesses' in a.fn:
                its.append(chk_words(g, rng, pq, hs))
            for it in its:
                for inp, ok, extra in it:
                    cases += 1
                    distinct.add(json.dumps([gi, inp], sort_keys=True, default=str))
                    if len(samples) < 3 and cases % 11 == 1:
                        samples.append(inp)
                    if not ok:
                        fail = {'function': a.fn, 'ruleset': {'grammar': g.grammar, 'base': g.base}, 'input': inp, **extra}
                        break
                if fail:
                    break
            if fail:
                break
    except Exception as ex:
        import traceback
        fail = {'function': a.fn, 'exception': repr(ex), 'traceback': traceback.format_exc()[-1500:],
                'ruleset': {'grammar': g.grammar, 'base': g.base} if g is not None else None}
    print(json.dumps({'failing_input': fail, 'failures': [fail] if fail else [], 'cases': cases, 'distinct': len(distinct),
                      'rule': 'small rulesets with dyadic probabilities; sweep = every selection interval (midpoint, breakpoint, above the sum) '
                              'of the base choice x 6 random combinations of group-interval points; words = 8 seeds + limits {1,2,5} in both modes',
                      'samples': samples}, default=str))


if __name__ == '__main__':
    main()
