#!/venv/bin/python
"""
Session-level quit/resume stand-in (C15, also C08/C12 at session level): the real PcfgGrammar, PcfgQueue and CrackingSession
on a small trained ruleset.  The keyboard thread is replaced by a scripted stand-in (monkey-patched in this harness, no
repository hook): it asks to quit after the j-th emitted guess.

For a set of cut positions (every position inside the first Markov levels, first/last guess of a level, positions outside
Markov items) the harness runs:  session 1 until the quit -> --load session 2 until a second quit -> --load session 3 to a limit,
and compares the concatenated output with the uninterrupted run:
  * nothing is lost; the only repeats are whole pre-terminals whose probability equals the saved position;
  * a Markov level interrupted mid-way resumes at the very next guess; later cycles do not replay that remainder again.
Prints one JSON object.
"""
import argparse
import collections
import contextlib
import io
import json
import os
import shutil
import subprocess
import sys
import tempfile

PY = '/venv/bin/python'
WORDS = ['abcd', 'abcd', 'abcd', 'abce', 'abce', 'pass1', 'pass1', 'pass12', 'love', 'love', 'love!', 'hello1', 'hello1', 'qwerty',
         'abcabc', 'abcabc', 'dcba', 'xyz1', 'pass', 'pass']


class FakeThread:
    """stands for the keyboard thread: never dies on its own; the quit request is the should_exit flag set by the harness"""

    def __init__(self, target=None, args=()):
        self.daemon = True

    def start(self):
        pass

    def is_alive(self):
        return True


STATE = {}


def run_session(d, rule, load, quit_after, limit, total_so_far):
    """one process-like session inside this interpreter; returns (lines, info)"""
    import importlib
    pg = importlib.import_module('pcfg_guesser')
    cs = importlib.import_module('lib_guesser.cracking_session')
    pgram = importlib.import_module('lib_guesser.pcfg_grammar')
    mcm = importlib.import_module('lib_guesser.omen.markov_cracker')
    cs.threading.Thread = FakeThread
    base = os.path.join(d, 'Rules', rule)
    save_filename = os.path.join(d, 'sess.sav')
    info = {'rule_name': rule, 'skip_brute': False, 'skip_case': False, 'version': '4.7'}
    pcfg = pgram.PcfgGrammar(rule, base, '4.7', save_filename)
    lines = []
    meta = {'restore_omen_called': False, 'levels': [], 'in_omen_at_quit': False}
    count = {'n': 0}

    class Recording(mcm.MarkovCracker):
        def __init__(self, grammar, target_level=1, optimizer=None):
            super().__init__(grammar, target_level, optimizer)
            meta['levels'].append(target_level)

        def load_session(self, file_name, pt_item):
            super().load_session(file_name, pt_item)
            meta['levels'].append(self.target_level)
    pgram.MarkovCracker = Recording

    def counting(guess):
        lines.append(guess)
        count['n'] += 1
        if quit_after is not None and count['n'] >= quit_after:
            pcfg.should_exit = True
    pcfg.print_guess = counting
    orig_restore = pcfg.restore_omen

    def restore(num, item):
        meta['restore_omen_called'] = True
        meta['restore_from'] = num
        return orig_restore(num, item)
    pcfg.restore_omen = restore
    if load:
        save_config = pg.load_save(save_filename, dict(info))
    else:
        save_config = pg.create_save_config(info)
        save_config.set('rule_info', 'uuid', pcfg.ruleset_info['uuid'])
    sess = cs.CrackingSession(pcfg, save_config, save_filename)
    with contextlib.redirect_stderr(io.StringIO()):
        sess.run(load_session=load, limit=limit)
    meta['in_omen_at_quit'] = bool(pcfg.omen_exit)
    meta['quit_requested'] = bool(pcfg.should_exit)      # False: the session ran to its end (nothing is saved then, and there is nothing to resume)
    meta['queue_empty_at_end'] = len(sess.pqueue.p_queue) == 0
    meta['saved'] = dict(save_config.items('guessing_info')) if os.path.exists(save_filename) else None
    meta['omen_guess_num'] = pcfg.omen_guess_num
    meta['omen_grammar'] = pcfg.omen_grammar
    pgram.MarkovCracker = mcm.MarkovCracker
    return lines, meta


def level_sequence(d, omen_grammar, level):
    import importlib
    mcm = importlib.import_module('lib_guesser.omen.markov_cracker')
    opt = importlib.import_module('lib_guesser.omen.optimizer').Optimizer(4)
    mc = mcm.MarkovCracker(omen_grammar, level, opt)
    out = []
    while True:
        g = mc.next_guess()
        if g is None:
            return out
        out.append(g)


def main():
    ap = argparse.ArgumentParser()
    ap.add_argument('--repo', default='/repo')
    ap.add_argument('--fn', default='C15')
    ap.add_argument('--seed', type=int, default=0)
    ap.add_argument('--tier', default='quick')
    a = ap.parse_args()
    d = tempfile.mkdtemp(prefix='pcfg_sess_')
    fail = None
    failures = []
    cases = 0
    samples = []
    try:
        subprocess.run(['rsync', '-a', '--exclude', '.git', '--exclude', '.pyvc_*', '--exclude', 'Rules/Default', '--exclude', 'Rules/Russian',
                        a.repo.rstrip('/') + '/', d + '/'], check=True)
        with open(os.path.join(d, 'list.txt'), 'w') as fh:
            fh.write('\n'.join(WORDS) + '\n')
        r = subprocess.run([PY, 'trainer.py', '-t', 'list.txt', '-r', 'S15', '--coverage', '0.5', '--ngram', '3'], cwd=d,
                           stdin=subprocess.DEVNULL, capture_output=True)
        if r.returncode != 0:
            raise RuntimeError('trainer failed: ' + r.stderr.decode()[-300:])
        sys.path.insert(0, d)
        os.chdir(d)
        total = 400 if a.tier == 'quick' else 1500
        ref, _ = run_session(d, 'S15', False, None, total, 0)
        cuts = [1, 2, 3, 5, 8, 13, 21, 34, 55, 89, 144] if a.tier == 'quick' else list(range(1, 220, 2))
        for j in cuts:
            for k in (3, 17):
                s1, m1 = run_session(d, 'S15', False, j, None, 0)
                s2, m2 = run_session(d, 'S15', True, k, None, 0)
                s3, m3 = run_session(d, 'S15', True, None, 60, 0)
                cases += 1
                if len(samples) < 3 and m1['in_omen_at_quit']:
                    samples.append({'first_quit_after': j, 'inside_markov_level': m1['levels'][-1] if m1['levels'] else None,
                                    'second_quit_after': k, 'second_quit_inside_markov': m2['in_omen_at_quit']})
                why = None
                if m1['in_omen_at_quit']:
                    level = m1['levels'][-1]
                    full = level_sequence(d, m1['omen_grammar'], level)
                    done = m1['omen_guess_num']
                    rest = full[done:]
                    if not m2['restore_omen_called']:
                        why = 'session 1 stopped inside Markov level %d but session 2 did not resume it' % level
                    elif s2[:min(len(rest), len(s2))] != rest[:min(len(rest), len(s2))]:
                        why = 'session 2 does not start with the remaining strings of level %d: got %r, expected %r' % (level, s2[:5], rest[:5])
                else:
                    if m2['restore_omen_called']:
                        why = 'session 1 did not stop inside a Markov level but session 2 resumed one'
                # (only when session 2 was really interrupted: a session that ran to completion saves nothing, and loading it again is not a resume)
                if why is None and m2['quit_requested'] and m3['restore_omen_called'] != m2['in_omen_at_quit']:
                    why = ('session 3 %s a Markov remainder although session 2 %s inside a Markov level (first quit after guess %d, second after %d more)'
                           % ('replays' if m3['restore_omen_called'] else 'does not resume', 'stopped' if m2['in_omen_at_quit'] else 'did not stop', j, k))
                if why:
                    # history class: the quit arrived inside the Markov level of the very last pre-terminal (the following pop finds the
                    # queue empty and run() returns without saving)
                    last = (m1['in_omen_at_quit'] and m1['queue_empty_at_end']) or (m2['in_omen_at_quit'] and m2['queue_empty_at_end'])
                    failures.append({'class': 'quit-inside-markov-level-of-last-preterminal' if last else 'other',
                                     'first_quit_after_guess': j, 'second_quit_after_guess': k, 'why': why,
                                     'session2_head': s2[:6], 'session3_head': s3[:6]})
                    if len([f for f in failures if f['class'] == 'other']) >= 2:
                        break
            if len([f for f in failures if f['class'] == 'other']) >= 2:
                break
    except Exception as ex:
        import traceback
        failures.append({'class': 'exception', 'exception': repr(ex), 'traceback': traceback.format_exc()[-1500:]})
    finally:
        os.chdir('/')
        shutil.rmtree(d, ignore_errors=True)
    # one representative per class
    seen, out = set(), []
    for f in failures:
        if f['class'] in seen and f['class'] != 'other':
            continue
        seen.add(f['class'])
        out.append(f)
    print(json.dumps({'failing_input': out[0] if out else None, 'failures': out, 'cases': cases, 'distinct': cases,
                      'rule': 'small trained ruleset (20 passwords, n-gram 3, coverage 0.5); each case = one pair of cut positions (first quit, second quit) '
                              'followed by a third resumed session', 'samples': samples}, default=str))


if __name__ == '__main__':
    main()
