#!/venv/bin/python
"""
CLI-level bounded stand-ins / replay searches (real program, real stdin/stdout):

 --fn C09   --limit exactness and stdout purity: for N in a sweep, `pcfg_guesser.py -r Default -n N`
            must write exactly N lines and they must be the first N lines of a longer run.
 --fn C12   the stream must not depend on stdin: /dev/null, closed descriptor, an open pipe that
            never delivers, a pipe delivering status requests -- all must give the same N lines.

The tree under test is copied to a temporary directory (the program writes its .sav next to
itself) which is removed afterwards.  Prints one JSON object.
"""
import argparse
import json
import os
import shutil
import subprocess
import sys
import tempfile

PY = '/venv/bin/python'


def run(cwd, args, stdin_mode='devnull', timeout=300):
    cmd = [PY, 'pcfg_guesser.py'] + args
    kw = dict(cwd=cwd, stdout=subprocess.PIPE, stderr=subprocess.DEVNULL, timeout=timeout)
    if stdin_mode == 'devnull':
        p = subprocess.run(cmd, stdin=subprocess.DEVNULL, **kw)
    elif stdin_mode == 'closed':
        p = subprocess.run(['/bin/sh', '-c', 'exec "$@" <&-', 'sh'] + cmd, **kw)
    elif stdin_mode == 'open_pipe':
        pr = subprocess.Popen(cmd, cwd=cwd, stdin=subprocess.PIPE, stdout=subprocess.PIPE, stderr=subprocess.DEVNULL)
        out, _ = pr.communicate(timeout=timeout) if False else (None, None)
        try:
            out = pr.stdout.read()
            pr.wait(timeout=timeout)
        finally:
            try:
                pr.stdin.close()
            except Exception:
                pass
        return out.decode('utf-8', 'replace')
    elif stdin_mode == 'status_requests':
        p = subprocess.run(cmd, input=b'\n\nh\n\n', **kw)
    elif stdin_mode == 'empty_file':
        with open(os.path.join(cwd, 'empty.in'), 'w'):
            pass
        with open(os.path.join(cwd, 'empty.in')) as fh:
            p = subprocess.run(cmd, stdin=fh, **kw)
    else:
        raise ValueError(stdin_mode)
    return p.stdout.decode('utf-8', 'replace')


def lines_of(text):
    ls = text.split('\n')
    if ls and ls[-1] == '':
        ls = ls[:-1]
    return ls


def main():
    ap = argparse.ArgumentParser()
    ap.add_argument('--repo', default='/repo')
    ap.add_argument('--fn', default='C09')
    ap.add_argument('--seed', type=int, default=0)
    ap.add_argument('--tier', default='quick')
    a = ap.parse_args()
    d = tempfile.mkdtemp(prefix='pcfg_cli_')
    fail = None
    cases = 0
    samples = []
    try:
        subprocess.run(['rsync', '-a', '--exclude', '.git', '--exclude', '.pyvc_*', a.repo.rstrip('/') + '/', d + '/'], check=True)
        big = 4000 if a.tier == 'quick' else 40000
        ref = lines_of(run(d, ['-r', 'Default', '-n', str(big)]))
        cases += 1
        if len(ref) != big:
            fail = {'args': ['-r', 'Default', '-n', str(big)], 'stdin': '/dev/null', 'lines_written': len(ref), 'expected': big,
                    'first_lines': ref[:5]}
        if fail is None and a.fn == 'C09':
            # (1000 falls inside the first Markov level of Rules/Default, guesses 923..1287)
            sweep = [1, 3, 333, 1000] if a.tier == 'quick' else [1, 2, 3, 5, 7, 11, 50, 333, 923, 1000, 1286, 1999, 12345, big - 1]
            for flags in (([], ['--skip_brute']) if a.tier == 'quick' else ([], ['--skip_brute'], ['--all_lower'])):
                base = ref if not flags else lines_of(run(d, ['-r', 'Default', '-n', str(big)] + flags))
                for n in sweep:
                    got = lines_of(run(d, ['-r', 'Default', '-n', str(n)] + flags))
                    cases += 1
                    if len(samples) < 2:
                        samples.append({'args': ['-n', str(n)] + flags, 'lines': len(got)})
                    if got != base[:n]:
                        fail = {'args': ['-r', 'Default', '-n', str(n)] + flags, 'lines_written': len(got), 'expected_lines': n,
                                'first_difference': next((i for i, (x, y) in enumerate(zip(got, base)) if x != y), min(len(got), n)),
                                'got_head': got[:5], 'expected_head': base[:5]}
                        break
                if fail:
                    break
        if fail is None and a.fn == 'C09':
            # --limit in the other two modes: exactly N lines; random_walk (re-seeded 1, 2, ...) is the head of a longer run
            for mode in ('random_walk', 'honeywords'):
                long_run = lines_of(run(d, ['-r', 'Default', '-m', mode, '-n', '40']))
                for n in (1, 7, 25):
                    got = lines_of(run(d, ['-r', 'Default', '-m', mode, '-n', str(n)]))
                    cases += 1
                    bad = len(got) != n or (mode == 'random_walk' and got != long_run[:n])
                    if len(long_run) != 40:
                        bad = True
                    if bad:
                        fail = {'args': ['-r', 'Default', '-m', mode, '-n', str(n)], 'lines_written': len(got), 'expected_lines': n,
                                'lines_of_the_-n_40_run': len(long_run), 'got_head': got[:3], 'expected_head': long_run[:3]}
                        break
                if fail:
                    break
        if a.fn == 'C17':
            fail = None
            def prince(args):
                p = subprocess.run([PY, 'prince_ling.py'] + args, cwd=d, stdin=subprocess.DEVNULL, stdout=subprocess.PIPE,
                                   stderr=subprocess.DEVNULL, timeout=600)
                return lines_of(p.stdout.decode('utf-8', 'replace'))
            big = 6000 if a.tier == 'quick' else 30000
            ref_p = prince(['-r', 'Default', '-s', str(big)])
            cases = 1
            sizes = [1, 9, 5001, 5002, 5003] if a.tier == 'quick' else [1, 2, 9, 100, 5001, 5002, 5003, 5004, 12345, 20011]
            for flags in ([], ['--all_lower']):
                base = ref_p if not flags else prince(['-r', 'Default', '-s', str(big)] + flags)
                for n in sizes:
                    got = prince(['-r', 'Default', '-s', str(n)] + flags)
                    cases += 1
                    samples.append({'args': ['-s', str(n)] + flags, 'lines': len(got)})
                    if got != base[:n]:
                        fail = {'program': 'prince_ling.py', 'args': ['-r', 'Default', '-s', str(n)] + flags, 'words_written': len(got),
                                'expected_words': min(n, len(base))}
                        break
                if fail or a.tier == 'quick':
                    break
            if fail is None:
                n = sizes[2]
                prince(['-r', 'Default', '-s', str(n), '-o', 'prince_out.txt'])
                with open(os.path.join(d, 'prince_out.txt'), encoding='utf-8') as fh:
                    in_file = lines_of(fh.read())
                cases += 1
                if in_file != ref_p[:n]:
                    fail = {'program': 'prince_ling.py', 'args': ['-s', str(n), '-o', 'prince_out.txt'], 'what': 'file differs from stdout list',
                            'file_lines': len(in_file)}
            if fail is None:
                # the output file already exists and is longer than the new list; and a list of more than 10 000 words
                for n, note in ((15, 'the output file existed and was longer'), (12000, 'more than 10000 words')):
                    long_ref = ref_p if n <= len(ref_p) else prince(['-r', 'Default', '-s', str(n)])
                    prince(['-r', 'Default', '-s', str(n), '-o', 'prince_out.txt'])
                    with open(os.path.join(d, 'prince_out.txt'), encoding='utf-8') as fh:
                        in_file = lines_of(fh.read())
                    cases += 1
                    if in_file != long_ref[:n]:
                        fail = {'program': 'prince_ling.py', 'args': ['-s', str(n), '-o', 'prince_out.txt'], 'what': 'file differs from the stdout list (%s)' % note,
                                'file_lines': len(in_file), 'expected_lines': n,
                                'first_difference': next((i for i, (x, y) in enumerate(zip(in_file, long_ref)) if x != y), min(len(in_file), n))}
                        break
        if fail is None and a.fn == 'C14':
            # flags are taken from the save file on --load (the session file of a fresh run is written at start-up)
            n = 1500
            for flags in (['--skip_brute'], ['--all_lower'], ['--skip_brute', '--all_lower']):
                first = lines_of(run(d, ['-r', 'Default', '-s', 'c14', '-n', str(n)] + flags))
                resumed = lines_of(run(d, ['-s', 'c14', '--load', '-n', str(n)]))
                cases += 1
                samples.append({'flags': flags, 'lines': len(resumed)})
                if resumed != first:
                    fail = {'first_run': ['-r', 'Default', '-s', 'c14', '-n', str(n)] + flags, 'resumed_run': ['-s', 'c14', '--load', '-n', str(n)],
                            'first_difference': next((i for i, (x, y) in enumerate(zip(first, resumed)) if x != y), None),
                            'what': 'the resumed session (saved position = start) must reproduce the stream of the flags stored in the .sav'}
                    break
                if a.tier == 'quick':
                    break
        if fail is None and a.fn == 'C12':
            n = 3000
            want = ref[:n]
            for mode in ['devnull', 'closed', 'empty_file', 'status_requests', 'open_pipe']:
                got = lines_of(run(d, ['-r', 'Default', '-n', str(n)], stdin_mode=mode))
                cases += 1
                samples.append({'stdin': mode, 'lines': len(got)})
                if got != want:
                    fail = {'args': ['-r', 'Default', '-n', str(n)], 'stdin': mode, 'lines_written': len(got), 'expected_lines': n,
                            'got_head': got[:3]}
                    break
            if fail is None:
                # a long run whose stdin delivers status/help requests and then ends: the end of input is not a quit request
                # (long enough for the keyboard thread to reach the end of its input while guesses are still being generated)
                n2 = 60000
                long_ref = lines_of(run(d, ['-r', 'Default', '-n', str(n2)]))
                got = lines_of(run(d, ['-r', 'Default', '-n', str(n2)], stdin_mode='status_requests'))
                cases += 1
                samples.append({'stdin': 'status requests, then end of input; long run', 'lines': len(got)})
                if got != long_ref or len(long_ref) != n2:
                    fail = {'args': ['-r', 'Default', '-n', str(n2)], 'stdin': "b'\\n\\nh\\n\\n' then end of input", 'lines_written': len(got),
                            'expected_lines': n2, 'reference_lines': len(long_ref)}
    except Exception as ex:
        import traceback
        fail = {'exception': repr(ex), 'traceback': traceback.format_exc()[-1200:]}
    finally:
        shutil.rmtree(d, ignore_errors=True)
    print(json.dumps({'failing_input': fail, 'failures': [fail] if fail else [], 'cases': cases, 'distinct': cases,
                      'rule': 'real CLI on Rules/Default; each case is one (flags, N) or one stdin condition; all distinct',
                      'samples': samples}))


if __name__ == '__main__':
    main()
