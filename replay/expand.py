#!/venv/bin/python
"""
Replay / differential adapter for guess generation (C04, C09): the real
PcfgGrammar._recursive_guesses / create_guesses / omen_generate_guesses / print_guess are run on
small rulesets with stdout captured and compared with the executable form of the contract:
  Out' == Out ++ take(limit, Expand(cur, pt)),  result == min(limit, |Expand|).
Prints one JSON object {"failing_input": ..., "cases": n}.
"""
import argparse
import contextlib
import io
import itertools
import json
import random
import sys

sys.path.insert(0, __file__.rsplit('/', 2)[0])
from replay.guesser import load, describe  # noqa: E402

WORDS = {1: ['a', 'Z', 'é', 'ß'], 2: ['ab', 'xy', 'ño', ' a'], 3: ['cat', 'dog', 'a b']}
DIGITS = ['1', '12', '007', '2024']
OTHER = ['!', '#$', ' ', '€']


def mk_ruleset(PcfgGrammar, rng):
    g = PcfgGrammar.__new__(PcfgGrammar)
    g.debug = False
    g.grammar = {}
    g.should_exit = False
    g.omen_exit = False
    g.omen_guess_num = 0
    g.save_file = '/nonexistent/x.sav'
    for n in (1, 2, 3):
        groups = []
        pool = list(WORDS[n])
        rng.shuffle(pool)
        k = rng.randint(1, 2)
        for i in range(k):
            vals = pool[i::k][:rng.randint(1, 2)] or [pool[0]]
            groups.append({'values': vals, 'prob': 0.5 ** (i + 1)})
        g.grammar['A%d' % n] = groups
        masks = [''.join(m) for m in itertools.product('LU', repeat=n)]
        rng.shuffle(masks)
        g.grammar['C%d' % n] = [{'values': masks[:rng.randint(1, 3)], 'prob': 0.5},
                                {'values': masks[3:3 + rng.randint(1, 2)] or [masks[-1]], 'prob': 0.25}]
    g.grammar['D1'] = [{'values': rng.sample(DIGITS, 2), 'prob': 0.5}, {'values': [rng.choice(DIGITS)], 'prob': 0.25}]
    g.grammar['O1'] = [{'values': rng.sample(OTHER, rng.randint(1, 3)), 'prob': 0.5}]
    return g


def mask_apply(word, mask):
    return ''.join(ch if m == 'L' else ch.upper() for ch, m in zip(word, mask))


def expand(G, cur, pt):
    if not pt:
        return [cur]
    (t, i) = pt[0]
    out = []
    for v in G[t][i]['values']:
        if t[0] == 'C':
            n = len(G[t][i]['values'][0])
            nxt = cur[:-n] + mask_apply(cur[-n:], v)
        else:
            nxt = cur + v
        out.extend(expand(G, nxt, pt[1:]))
    return out


def rand_pt(g, rng):
    pt = []
    for _ in range(rng.randint(1, 3)):
        kind = rng.choice(['A', 'A', 'D', 'O'])
        if kind == 'A':
            n = rng.randint(1, 3)
            pt.append(('A%d' % n, rng.randrange(len(g.grammar['A%d' % n]))))
            pt.append(('C%d' % n, rng.randrange(len(g.grammar['C%d' % n]))))
        elif kind == 'D':
            pt.append(('D1', rng.randrange(len(g.grammar['D1']))))
        else:
            pt.append(('O1', 0))
    return pt


def captured(fn, *a, **kw):
    buf = io.StringIO()
    with contextlib.redirect_stdout(buf):
        r = fn(*a, **kw)
    text = buf.getvalue()
    lines = text.split('\n')
    assert lines[-1] == ''
    return r, lines[:-1]


class FakeCracker:
    def __init__(self, seq):
        self.seq = list(seq)
        self.pos = 0
        self.saved = None

    def next_guess(self):
        if self.pos < len(self.seq):
            self.pos += 1
            return self.seq[self.pos - 1]
        return None

    def save_session(self, name):
        self.saved = (name, self.pos)


def chk_recursive(g, rng, entry):
    for _ in range(25):
        pt = rand_pt(g, rng)
        E = expand(g.grammar, '', pt)
        for limit in [None, 1, 2, len(E) - 1, len(E), len(E) + 1, rng.randint(1, max(1, len(E)))]:
            if limit is not None and limit < 1:
                continue
            if entry == 'create_guesses':
                r, lines = captured(g.create_guesses, list(pt), limit=limit)
            else:
                r, lines = captured(g._recursive_guesses, '', list(pt), limit)
            exp = E if limit is None else E[:limit]
            ok = lines == exp and r == len(exp)
            yield {'pt': pt, 'limit': limit}, ok, {'written': lines[:30], 'expected': exp[:30], 'returned': r}


def chk_omen(g, rng):
    for n in range(0, 6):
        seq = ['s%d' % i for i in range(n)]
        for limit in [None, 1, 2, n, n + 1]:
            if limit is not None and limit < 1:
                continue
            for quit_at_start in (False, True):
                mc = FakeCracker(seq)
                g.should_exit = quit_at_start
                g.omen_exit = False
                r, lines = captured(g.omen_generate_guesses, mc, limit)
                g.should_exit = False
                if not quit_at_start:
                    exp = seq if limit is None else seq[:limit]
                    ok = lines == exp and r == len(exp) and mc.pos in (len(exp), len(exp) + 1) and mc.saved is None
                else:
                    # an explicit quit stops between two guesses, after the state was saved
                    ok = lines == seq[:len(lines)] and r == len(lines) and len(lines) <= 1 + 0 * n and \
                        (len(lines) == min(1, n))
                    if n >= 1 and not (limit == 1):
                        ok = ok and mc.saved is not None and g.omen_exit is True
                yield {'omen_sequence': seq, 'limit': limit, 'should_exit': quit_at_start}, ok, \
                    {'written': lines, 'returned': r, 'cursor': mc.pos, 'saved': mc.saved}


def chk_print(g, rng):
    for s in ['abc', ' lead', 'trail ', 'é€', '']:
        _, lines = captured(g.print_guess, s)
        yield {'guess': s}, lines == [s], {'written': lines}


def main():
    ap = argparse.ArgumentParser()
    ap.add_argument('--repo', default='/repo')
    ap.add_argument('--fn', default='PcfgGrammar._recursive_guesses')
    ap.add_argument('--seed', type=int, default=0)
    ap.add_argument('--tier', default='quick')
    a = ap.parse_args()
    PcfgGrammar, pq = load(a.repo)
    rng = random.Random(a.seed)
    cases = 0
    fail = None
    g = None
    try:
        for gi in range(12):
            g = mk_ruleset(PcfgGrammar, rng)
            if 'omen_generate_guesses' in a.fn:
                it = chk_omen(g, rng)
            elif 'print_guess' in a.fn:
                it = chk_print(g, rng)
            elif 'create_guesses' in a.fn:
                it = chk_recursive(g, rng, 'create_guesses')
            else:
                it = chk_recursive(g, rng, '_recursive_guesses')
            for inp, ok, extra in it:
                cases += 1
                if not ok:
                    fail = {'function': a.fn, 'ruleset': describe(g) if hasattr(g, 'base') else
                            {k: v for k, v in g.grammar.items()}, 'input': inp, **extra}
                    break
            if fail:
                break
    except Exception as ex:
        import traceback
        fail = {'function': a.fn, 'exception': repr(ex), 'traceback': traceback.format_exc()[-1500:],
                'ruleset': {k: v for k, v in g.grammar.items()} if g is not None else None}
    print(json.dumps({'failing_input': fail, 'cases': cases}, default=str))


if __name__ == '__main__':
    main()
