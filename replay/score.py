#!/venv/bin/python
"""
C13 bounded stand-in / replay adapter: the real scorer against the real guesser on rulesets written by the real trainer.

For each trained ruleset the guesser's non-Markov pre-terminals are enumerated with the real PcfgQueue and expanded with the real
create_guesses (output captured), giving a map  guess -> probabilities of the pre-terminals that emit it.  Candidates (training
passwords, a sample of the guesser's output, case / digit / symbol perturbations of both, e-mail and website strings, unrelated strings)
are scored with the real PCFGPasswordScorer:
  * probability p > 0   =>  the exact string is in the guesser's stream, from a pre-terminal whose probability equals p (relative 1e-9);
  * an e-mail / website classification comes with probability 0;
  * the score depends only on the string and the ruleset: scoring twice, and with a freshly loaded scorer after other strings, is identical.
Prints one JSON object; failures carry a 'class'.
"""
import argparse
import contextlib
import io
import json
import os
import random
import shutil
import subprocess
import sys
import tempfile

PY = '/venv/bin/python'
LISTS = [
    ['password', 'password', 'password1', 'password1', 'Password1', 'love', 'love', 'love12', 'iloveyou', 'iloveyou', 'ILOVEYOU', 'abc123', 'abc123',
     'qwerty', 'qwerty', '1qaz2wsx', 'summer2019', 'summer2019', 'Summer2019', 'hello!', 'hello!', 'mr.big', '#1mom', '#1mom', 'tiger', 'tiger7',
     'passwordlove', 'lovepassword', 'a', 'Zz9', 'monkey!!', 'monkey!!', '12345', '12345', '2020', 'bob@mail.com', 'www.site.com'],
    ['пароль', 'пароль', 'Пароль1', 'привет', 'привет', 'straße', 'straße1', 'ǅungla', 'Kelvin', 'İstanbul', 'ϴabc1', 'ϴabc1', 'émile', 'Émile',
     'naïve77', 'naïve77', 'x y', 'x y', ' lead', 'tail ', 'ab', 'AB', 'Ab', 'aB', 'word😀', 'word😀'],
]


def one_to_one(s):
    for c in s:
        lo, up = c.lower(), c.upper()
        if len(lo) != 1 or len(up) != 1:
            return False
        if c != lo and lo.upper() != c:
            return False
        if c != up and up.lower() != c:
            return False
    return True


def perturb(w, rng):
    out = set()
    if w:
        i = rng.randrange(len(w))
        out.add(w[:i] + w[i].swapcase() + w[i + 1:])
        out.add(w.upper())
        out.add(w.lower())
        out.add(w.capitalize())
        out.add(w + rng.choice('0123456789'))
        out.add(rng.choice('0123456789') + w)
        out.add(w + rng.choice('!#.$ '))
        out.add(w[:i] + w[i + 1:])
        out.add(w + w)
    return out


def main():
    ap = argparse.ArgumentParser()
    ap.add_argument('--repo', default='/repo')
    ap.add_argument('--fn', default='C13')
    ap.add_argument('--seed', type=int, default=0)
    ap.add_argument('--tier', default='quick')
    a = ap.parse_args()
    rng = random.Random(a.seed)
    d = tempfile.mkdtemp(prefix='pcfg_score_')
    failures = []
    cases = 0
    positive = 0
    samples = []

    def fail(cls, **kw):
        if len([f for f in failures if f['class'] == cls]) < (1 if cls != 'other' else 3):
            failures.append(dict({'class': cls}, **kw))

    try:
        subprocess.run(['rsync', '-a', '--exclude', '.git', '--exclude', '.pyvc_*', '--exclude', 'Rules/Russian', '--exclude', 'Rules/Default',
                        a.repo.rstrip('/') + '/', d + '/'], check=True)
        sys.path.insert(0, d)
        os.chdir(d)
        from lib_scorer.pcfg_password_scorer import PCFGPasswordScorer
        from lib_scorer.grammar_io import load_grammar
        from lib_guesser.pcfg_grammar import PcfgGrammar
        from lib_guesser.priority_queue import PcfgQueue
        from lib_trainer.detection_rules.keyboard_walk import detect_keyboard_walk as kw_detect
        from lib_trainer.detection_rules.email_detection import email_detection as email_detect
        from lib_trainer.detection_rules.website_detection import website_detection as web_detect
        for li, words in enumerate(LISTS):
            rule = 'S13_%d' % li
            with open(os.path.join(d, 'list.txt'), 'w', encoding='utf-8') as fh:
                fh.write('\n'.join(words) + '\n')
            r = subprocess.run([PY, 'trainer.py', '-t', 'list.txt', '-r', rule, '--coverage', '0.6'], cwd=d, capture_output=True, text=True,
                               stdin=subprocess.DEVNULL)
            if r.returncode != 0:
                raise RuntimeError('trainer failed: ' + r.stderr[-300:])
            base = os.path.join(d, 'Rules', rule)

            def scorer():
                s = PCFGPasswordScorer(limit=0)
                with contextlib.redirect_stdout(io.StringIO()), contextlib.redirect_stderr(io.StringIO()):
                    if not load_grammar(s, base):
                        raise RuntimeError('scorer cannot load the ruleset')
                    s.create_multiword_detector()
                    s.create_omen_scorer(base, 9)
                return s
            sc = scorer()
            with contextlib.redirect_stderr(io.StringIO()):
                g = PcfgGrammar(rule, base, '4.7')
            q = PcfgQueue(g)
            emitted = {}
            order = []
            captured = []
            g.print_guess = captured.append
            n_pt = 0
            while True:
                it = q.next()
                if it is None:
                    break
                if it['pt'][0][0] == 'M':
                    continue
                n_pt += 1
                del captured[:]
                g.create_guesses(it['pt'])
                for s in captured:
                    emitted.setdefault(s, []).append(it['prob'])
                    if len(order) < 4000:
                        order.append(s)
                if n_pt > 200000:
                    raise RuntimeError('ruleset too large for the stand-in')
            cands = set(words)
            sample = order[::max(1, len(order) // 150)]
            cands |= set(sample)
            for w in list(words) + sample[:60]:
                cands |= perturb(w, rng)
            cands |= {'mail.ru', 'Love.UK', 'john@mail.de', 'a.b.de', 'x@y.io', 'site.co.uk', 'tom.com', 'no.dot', 'abc.zz', 'a@b', 'me@home.org!',
                      'www.a.ru/x', 'https://t.co', 'ftp.site.net:80', 'a.com', '.com', 'x.museum'}
            cands |= {'', 'zzzzqqq', '!!!', '0000000', 'bob@mail.com', 'alice@gmail.com1', 'www.site.com', 'http://x.org/a', 'site.com', 'Kelvin', 'ϴabc1',
                      'İstanbul', 'ǅungla', 'ßtraße', 'password#1', 'mr.big1', 'PASSWORD1', 'pAssword1'}
            cands.discard('')
            for c in sorted(cands):
                if any(ch in c for ch in '\t\n\r'):
                    continue
                cases += 1
                try:
                    pw, cat, p, om = sc.parse(c)
                    again = sc.parse(c)
                except Exception as ex:
                    fail('other', what='the scorer raised', string=c, exception=repr(ex), ruleset=words[:6])
                    continue
                if (pw, cat, p, om) != again:
                    fail('other', what='scoring the same string twice gives different results', string=c, first=[cat, p, om], second=list(again[1:]))
                if cat in ('e', 'w') and p != 0:
                    fail('other', what='an e-mail / website string has a non-zero probability', string=c, category=cat, probability=p)
                # what the trainer's own detectors find in the string decides the classification (run independently of the scorer)
                sl, _w, _k = kw_detect(c)
                want = 'e' if email_detect(sl)[0] else ('w' if web_detect(sl)[0] else None)
                if want is not None and (cat != want or p != 0):
                    fail('other', what='a string in which the %s detector finds something is not classified as such with probability 0'
                         % ('e-mail' if want == 'e' else 'website'), string=c, category=cat, probability=p, expected_category=want)
                if want is None and cat in ('e', 'w'):
                    fail('other', what='classified as e-mail / website although the detectors find none', string=c, category=cat)
                if p and p > 0:
                    positive += 1
                    probs = emitted.get(c)
                    if len(samples) < 3 and c not in words:
                        samples.append({'string': c, 'score': p, 'emitted_with': probs})
                    cls = 'other' if one_to_one(c) else 'letter-outside-one-to-one-case-mapping'
                    if probs is None:
                        fail(cls, what='the scorer gives a non-zero probability to a string the guesser never emits', string=c, score=p, category=cat,
                             training_list=li)
                    elif not any(abs(x - p) <= 1e-9 * max(x, p) for x in probs):
                        fail(cls, what='the guesser emits the string only from pre-terminals of a different probability', string=c, score=p,
                             guesser_probabilities=probs[:4], training_list=li)
            # history independence: a fresh scorer, after the other one has scored everything, agrees on a sample
            sc2 = scorer()
            for c in sorted(cands)[::7]:
                if any(ch in c for ch in '\t\n\r'):
                    continue
                cases += 1
                if sc2.parse(c) != sc.parse(c):
                    fail('other', what='the score depends on what was scored before', string=c)
    except Exception as ex:
        import traceback
        failures.append({'class': 'exception', 'exception': repr(ex), 'traceback': traceback.format_exc()[-1500:]})
    finally:
        os.chdir('/')
        shutil.rmtree(d, ignore_errors=True)
    print(json.dumps({'failing_input': failures[0] if failures else None, 'failures': failures, 'cases': cases, 'distinct': positive,
                      'rule': 'two trained rulesets (ASCII list; Cyrillic / Latin-1 / special-casing letters list); candidates = training passwords, ~150 sampled guesses, '
                              '9 perturbations of each, e-mail / website / unrelated strings; distinct = candidates with a non-zero score', 'samples': samples},
                     default=str, ensure_ascii=False))


if __name__ == '__main__':
    main()
