#!/usr/bin/env python3
"""Regenerate MANIFEST.json from tools/manifest_data.py (claimed checks) and properties.jsonl."""
import json, os, sys
HERE = os.path.dirname(os.path.dirname(os.path.abspath(__file__)))
sys.path.insert(0, os.path.join(HERE, 'tools'))
import manifest_data as D
props = [json.loads(l) for l in open(os.path.join(HERE, 'properties.jsonl'))]
m = {
 "version": 1,
 "setup_cmd": "true",
 "hooks": {
  "guard": "LAKIW_PCFG_CRACKER_VERIF",
  "enable": "no hooks are needed: contracts are sidecar files under /verif/contracts and the repository source is re-read with ast on every run",
  "baseline_off_cmd": "cd /repo && /venv/bin/python -m pytest -ra -q -p no:cacheprovider --timeout=900 --continue-on-collection-errors",
  "source_commits": D.HOOK_COMMITS,
  "add_only": True
 },
 "engines": [
  {"name": "pyvc", "path": "pyvc/", "serves_properties": sorted(D.CHECKS),
   "kind_free_text": "contract-based deductive verifier for a Python subset: AST symbolic executor over the real source, sidecar contracts/invariants/lemmas, VCs discharged by z3 5.1 and cvc5 1.0.3; refutations replayed on the real code under /venv/bin/python"}
 ],
 "checks": [],
 "notes": D.NOTES,
 "not_applicable": []
}
for p in props:
    pid = p['id']
    if pid in D.CHECKS:
        c = D.CHECKS[pid]
        m['checks'].append({
            "property_id": pid,
            "quick_cmd": "./check %s --tier quick" % pid,
            "thorough_cmd": "./check %s --tier thorough" % pid,
            "evidence_file": "evidence/%s.json" % pid,
            "replay_cmd_template": "./check %s --replay {path}" % pid,
            "engine": "pyvc",
            "level_claimed": {"category": c['level'], "text": c['text'], "design_ref": "DESIGN.md section 5, %s" % pid},
            "level_note": c['note'],
            "technique": c['technique'],
        })
    else:
        m['not_applicable'].append({"property_id": pid, "reason": D.NOT_APPLICABLE.get(pid, "check not built yet; not claimed")})
json.dump(m, open(os.path.join(HERE, 'MANIFEST.json'), 'w'), indent=1)
print('checks:', len(m['checks']), 'not_applicable:', len(m['not_applicable']))
