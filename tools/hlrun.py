#!/usr/bin/env python3
"""hlrun.py harmless/<id>/<n> [pid,pid,...]
Applies a recorded behaviour-preserving edit (harmless/<id>/<n>/patch.diff) to a scratch copy of /repo (removed afterwards) and runs the
checks whose contracts touch the patched files plus the property the edit was written for.  Expected: no exit 1 (a VIOLATION here is a
false alarm) and no exit 3; exit 2 (undecided: a changed loop, a new helper without contract, a construct outside the subset) is accepted."""
import json, os, re, shutil, subprocess, sys, tempfile, glob
hl = sys.argv[1].rstrip('/')
pid0 = json.load(open(os.path.join(hl, 'meta.json'))).get('property') or hl.split('/')[-2]
patch = os.path.join(hl, 'patch.diff')
files = re.findall(r'^\+\+\+ b/(\S+)', open(patch, newline='').read(), re.M)
pids = {pid0}
for ev in glob.glob('/verif/evidence/C*.json'):
    e = json.load(open(ev))
    fs = {f['file'] for f in e['coverage'].get('functions_under_contract', [])}
    if fs & set(files):
        pids.add(e['property_id'])
if len(sys.argv) > 2:
    pids = set(sys.argv[2].split(','))
d = tempfile.mkdtemp(prefix='pcfg_hl_')
out = {}
try:
    subprocess.run(['rsync', '-a', '--exclude', '.git', '/repo/', d + '/'], check=True)
    r = subprocess.run(['git', 'apply', '--directory', d, '--unsafe-paths', os.path.abspath(patch)], capture_output=True, text=True, cwd='/')
    if r.returncode != 0:
        r = subprocess.run(['patch', '-p1', '-s', '--binary', '-d', d, '-i', os.path.abspath(patch)], capture_output=True, text=True)
        if r.returncode != 0:
            print(hl, 'PATCH-FAILED', r.stdout[-300:], r.stderr[-300:]); sys.exit(9)
    for pid in sorted(pids):
        r = subprocess.run(['/verif/check', pid, '--repo', d], capture_output=True, text=True)
        lines = [l[:400] for l in r.stdout.strip().split('\n') if l.startswith(('VIOLATION', 'UNDECIDED', 'ERROR', 'undecided', 'error')) or 'undecided' in l.lower()[:40]]
        out[pid] = (r.returncode, lines[:6], r.stderr[-400:] if r.returncode == 3 else '')
finally:
    shutil.rmtree(d, ignore_errors=True)
for pid, (rc, lines, err) in out.items():
    print('%s %s exit %d' % (hl, pid, rc))
    for l in lines: print('    ', l)
    if err: print('    STDERR', err)
