#!/bin/sh
# run every claimed check on /repo (regenerates evidence/); prints a summary
cd "$(dirname "$0")/.." || exit 3
tier="${1:-quick}"
rc=0
for id in $(python3 -c "import json;print(' '.join(c['property_id'] for c in json.load(open('MANIFEST.json'))['checks']))"); do
  ./check "$id" --tier "$tier" | tail -3
  r=$?
  [ $r -ne 0 ] && rc=1
done
python3-vt - <<'PY'
import json,jsonschema,glob
sch=json.load(open('/root/.vp/EVIDENCE.schema.json'))
for c in json.load(open('MANIFEST.json'))['checks']:
    e=json.load(open(c['evidence_file'])); jsonschema.validate(e,sch)
    cov=e['coverage']
    flag='' if (e['level']!='proof' or cov['obligations']==cov['discharged']) else ' <-- proof level but not all discharged'
    print(c['property_id'], e['level'], cov.get('obligations'), cov.get('discharged'), 'exit', cov.get('exit_code'), flag)
PY
