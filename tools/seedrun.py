#!/usr/bin/env python3
"""Run one seeded change: confirm it (tests pass, demo fails on the changed tree and passes on the unchanged tree), then run the
property's check against the changed tree.   usage: seedrun.py <seed_dir> [<pid>,...]   (seed_dir holds patch.diff, demo.py, meta.json)
Prints one JSON line.  The scratch copy lives under /tmp and is removed."""
import json, os, shutil, subprocess, sys, tempfile, time
sd = os.path.abspath(sys.argv[1])
meta = json.load(open(os.path.join(sd, 'meta.json')))
argv = [a for a in sys.argv[1:] if not a.startswith('--')]
pids = argv[1].split(',') if len(argv) > 1 else [meta['property']]
d = tempfile.mkdtemp(prefix='pcfg_seed_')
out = {'seed': sd, 'property': meta['property']}
try:
    subprocess.run(['rsync', '-a', '--exclude', '.git', '/repo/', d + '/'], check=True)
    r = subprocess.run(['git', 'apply', '--directory', d.lstrip('/'), '--unsafe-paths', os.path.join(sd, 'patch.diff')], cwd='/', capture_output=True, text=True)
    if r.returncode != 0:
        r = subprocess.run(['patch', '-p1', '-s', '--binary', '-d', d, '-i', os.path.join(sd, 'patch.diff')], capture_output=True, text=True)
    out['applied'] = r.returncode == 0
    if not out['applied']:
        out['apply_error'] = (r.stdout + r.stderr)[-300:]
    else:
        if '--no-confirm' not in sys.argv:
            t = subprocess.run(['/venv/bin/python', '-m', 'pytest', '-q', '-p', 'no:cacheprovider', '--timeout=900'], cwd=d, capture_output=True, text=True)
            out['tests'] = t.stdout.strip().splitlines()[-1][:60] if t.stdout.strip() else 'no output'
            demo = os.path.join(sd, 'demo.py')
            a = subprocess.run(['/venv/bin/python', demo, d], capture_output=True, text=True, timeout=600)
            b = subprocess.run(['/venv/bin/python', demo, '/repo'], capture_output=True, text=True, timeout=600)
            out['demo_changed'] = a.returncode
            out['demo_unchanged'] = b.returncode
            out['demo_says'] = (a.stdout.strip().splitlines() or [''])[-1][:200]
        for pid in pids:
            t0 = time.time()
            c = subprocess.run(['/verif/check', pid, '--repo', d], capture_output=True, text=True)
            lines = [l for l in c.stdout.splitlines() if l.startswith(('VIOLATION', 'UNDECIDED', 'VACUOUS'))]
            obl = []
            rp = os.path.join(d, '.pyvc_replays')
            if os.path.isdir(rp):
                for f in sorted(os.listdir(rp)):
                    try:
                        j = json.load(open(os.path.join(rp, f)))
                        obl.append(j.get('obligation'))
                    except Exception:
                        pass
            out[pid] = {'exit': c.returncode, 'lines': [l[:160] for l in lines[:4]], 'violated': sorted(set(obl))[:8], 'secs': round(time.time() - t0)}
finally:
    shutil.rmtree(d, ignore_errors=True)
print(json.dumps(out))
