HOOK_COMMITS = []
NOTES = ("Contract-based deductive verification (family fixed by the brief). Every check re-reads /repo's current "
         "source, generates verification conditions from the AST under sidecar contracts and discharges them with "
         "z3/cvc5. Exit 0 held / 1 violation / 2 undecided / 3 checker error. See DESIGN.md.")
TECH = "contract-based deductive verification: AST->VC generation under sidecar contracts, z3/cvc5"
CHECKS = {
 'C01': dict(level='proof', technique=TECH,
   text="Function contracts (comparators, _find_prob == left-to-right product, children carry P(child), heap step of next()) "
        "and inductive lemmas (fold_mono, kids_props, addall_*) are discharged for all inputs; C01.order/queue.inv follow "
        "from next()'s contract. Unbounded in ruleset size, tie pattern and run length.",
   note="A-FP (float * monotone, x*1.0==x), heapq/copy.copy contracts, WF(G) sorted probabilities in [0,1], value semantics of lists; "
        "restore path is C08's"),
 'C02': dict(level='proof', technique=TECH,
   text="_are_you_my_child decides Adopt exactly; find_children returns exactly the adopted children in position order; "
        "every non-root node has exactly one adopting parent for arbitrary (also tied) probabilities (adopt_unique.unique/.adopts); "
        "next() pushes exactly those children.",
   note="A-FP order embedding only; heapq contract; the run-level counting argument (emitted multiset = language) is composed from these lemmas in DESIGN.md, "
        "and cross-checked by the replay enumerator on small tie-rich grids"),
 'C08': dict(level='other', technique=TECH + "; walk completeness by a labelled bounded stand-in",
   text="Deductive for all inputs: is_parent_around == (some parent has P <= saved M); the restore walk saves only nodes with "
        "min <= P <= M carrying their own P and without such a parent (R1); restore_base_item/__init__ push exactly the saved nodes, so the "
        "restored queue satisfies C01's order invariant from max_probability = M; update_save_config stores repr(max_probability). "
        "Bounded (never counted as proved): completeness / duplicate-freeness of the walk and the tied-group-only repeat clause, every cut point "
        "and two quit/resume cycles on small tie-rich rulesets.",
   note="A-FP; float(repr(x))==x; ConfigParser as a map; termination of the recursive walk unverified; uuid refusal in main() not yet under contract"),
}
NOT_APPLICABLE = {}
