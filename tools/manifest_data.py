HOOK_COMMITS = []
NOTES = ("Contract-based deductive verification (family fixed by the brief). Every check re-reads /repo's current "
         "source, generates verification conditions from the AST under sidecar contracts and discharges them with "
         "z3/cvc5. Exit 0 held / 1 violation / 2 undecided / 3 checker error. See DESIGN.md.")
TECH = "contract-based deductive verification: AST->VC generation under sidecar contracts, z3/cvc5"
CHECKS = {
 'C01': dict(level='proof', technique=TECH,
   text="Function contracts (comparators, _find_prob == left-to-right product, children carry P(child), heap step of next()) "
        "and inductive lemmas (fold_mono, kids_props, addall_*) are discharged for all inputs; C01.order/queue.inv follow "
        "from next()'s contract. Unbounded in ruleset size, tie pattern and run length."
        " No class-level or module-level mutable state in the queue / grammar / loader modules (AST frame). Bounded cross-checks: run-level order, loader specs, and identical sequences in processes with different string-hash seeds.",
   note="A-FP (float * monotone, x*1.0==x), heapq/copy.copy contracts, WF(G) sorted probabilities in [0,1], value semantics of lists; "
        "restore path is C08's"),
 'C02': dict(level='proof', technique=TECH,
   text="_are_you_my_child decides Adopt exactly; find_children returns exactly the adopted children in position order; "
        "every non-root node has exactly one adopting parent for arbitrary (also tied) probabilities (adopt_unique.unique/.adopts); "
        "next() pushes exactly those children."
        " The base-structure loader keeps every line of grammar.txt as one derivation (duplicates included); no shared mutable state (AST frame). Bounded cross-checks: run to exhaustion, loader spec.",
   note="A-FP order embedding only; heapq contract; the run-level counting argument (emitted multiset = language) is composed from these lemmas in DESIGN.md, "
        "and cross-checked by the replay enumerator on small tie-rich grids"),
 'C08': dict(level='other', technique=TECH + "; walk completeness by a labelled bounded stand-in",
   text="Deductive for all inputs: is_parent_around == (some parent has P <= saved M); the restore walk saves only nodes with "
        "min <= P <= M carrying their own P and without such a parent (R1); restore_base_item/__init__ push exactly the saved nodes, so the "
        "restored queue satisfies C01's order invariant from max_probability = M; update_save_config stores repr(max_probability). "
        "Bounded (never counted as proved): completeness / duplicate-freeness of the walk and the tied-group-only repeat clause, every cut point "
        "and two quit/resume cycles on small tie-rich rulesets.",
   note="A-FP; float(repr(x))==x; ConfigParser as a map; termination of the recursive walk unverified; main() under contract with PcfgGrammar.__init__ trusted"),
 'C04': dict(level='proof', technique=TECH,
   text="_recursive_guesses is verified against the recursive spec Expand: it writes exactly the concatenations of one value per chosen group "
        "in structure order with each mask applied to the tail built so far, every combination once, and returns the number of lines written; "
        "the Markov branch writes the strings of its OMEN level with the count tied to the lines by the loop invariant of omen_generate_guesses."
        " The OMEN model the generator works on is the files' content (_load_ngrams for IP/CP, _load_length). Bounded cross-checks: expansion, grouping, exact enumeration of Markov levels.",
   note="stdout can encode every value; MarkovCracker's sequence is C10's contract (assumed); WF for expansion (mask length = preceding alpha word length) is a precondition; "
        "''.join uninterpreted; loader grouping of equal probabilities is under C14/C07"),
 'C09': dict(level='other', technique=TECH + "; stdout frame decided on the AST; CLI run as bounded stand-in",
   text="Frame: no function of pcfg_guesser.py / lib_guesser writes to stdout except the single print in print_guess (all paths, syntactic). "
        "Limit: _recursive_guesses / omen_generate_guesses write exactly take(limit, expansion); the session loop invariant keeps limit = N - lines >= 1, "
        "so exactly min(N,total) lines, a prefix of the unlimited stream; negative limits refused. Bounded: the real CLI on Rules/Default."
        " What a status / help request runs neither prints to stdout nor calls the output point (AST frames).",
   note="A-WFX (popped pre-terminals satisfy the expansion preconditions) assumed; syntactic frame does not see aliases of sys.stdout; honeyword modes under C16"),
 'C12': dict(level='other', technique=TECH + "; thread as a rely/guarantee environment (sequentialised)",
   text="keypress: no exception escapes (input() may raise EOFError/ValueError/OSError), its only write is should_exit = True after reading 'q'. "
        "run: every read of should_exit is an arbitrary Boolean that may be True only if a quit was requested; without a request the stream is complete "
        "or cut exactly by the limit; with one the loop stops after a pop and before its guesses, or between two Markov guesses, after saving. "
        "Bounded: five stdin conditions on the real CLI.",
   note="threads are not executed: the interleaving is over-approximated by volatile reads (stated rely condition); status printing to stderr only is C09's frame"),
 'C14': dict(level='other', technique=TECH + "; file model for the loader; bounded stand-ins for _load_terminals and the CLI",
   text="_load_base_structures (all grammar.txt contents satisfying the line format): exactly the selected lines in order, probability float/(1-P(M)) with P(M)=0 when absent, then the C insertion; "
        "load_save copies the saved flags; main() loads the grammar with the saved flags on --load and refuses a uuid mismatch. Bounded: insertion loop vs declarative spec, "
        "skip_case on shipped rulesets, CLI resume."
        " initalize_base_structures seeds the queue with every loaded base structure; no shared mutable state in loader / grammar modules (AST frame).",
   note="file system and str.split/rstrip/float as uninterpreted functions; PcfgGrammar.__init__ trusted in main(); order clause up to ties"),
 'C16': dict(level='other', technique=TECH + "; RNG by contract (ghost draw streams); measure clause in real arithmetic",
   text="random_walk returns exactly the node selected by cumulative sums against the successive draws and always a node; _honeyword_recursive_guess writes exactly one element of the expansion "
        "(none for Markov); HoneywordSession.run writes exactly N lines and re-seeds with consecutive seeds from 1 in random-walk mode. Bounded: interval sweep with exact measures."
        " _load_base_structures: the base-structure probabilities drawn from are the file's (renormalised under --skip_brute); no shared mutable state (AST frame).",
   note="RNG contract assumed (uniformity/independence are the RNG's); A-REAL for the measure; A-WFX"),
 'C17': dict(level='other', technique=TECH + "; CLI run as bounded stand-in",
   text="create_prince_wordlist writes at most --size words, the first N of the unbounded stream (loop invariant over the log of popped pre-terminals); write_guess_to_file appends guess+LF; "
        "save_to_file redirects the single output point only with a filename; prince_evaluation tallies every label once. Bounded: the real CLI around a group boundary, file vs stdout."
        " _load_base_structures inserts C<n> after every A<n> with the same n; run to exhaustion hands out every pre-terminal (bounded cross-check).",
   note="order/exactly-once are C01/C02 via next()'s contract; A-WFX; prince_ling.main not under contract"),
 'C05': dict(level='other', technique=TECH + "; ghost cut-point list for the tiling invariant; keyboard/multi-word by bounded stand-ins",
   text="For all strings: every detect_* returns the section unchanged or 1-3 parts that tile it, carving exactly the first maximal digit/letter run, the first valid year, "
        "the first occurrence of a listed context string, an e-mail prefix or a website interval, labels stating true lengths; every *_detection loop keeps "
        "'the section list tiles the password'; other_detection leaves nothing unlabelled; base_structure_creation never raises; counters tally the found lists. "
        "Bounded: keyboard walks, multi-word splitting, alpha_detection's list loop, the end-to-end pipeline (exhaustive small strings), lower_keep_length (all code points)."
        " The multi-word detector is only read while segmenting (AST frame).",
   note="string theory is an uninterpreted sort with slice/concat axioms; lower() has no length axiom (precondition in detect_alpha); detect_keyboard_walk, MultiWordDetector.parse "
        "and alpha_detection's list loop are trusted in the deductive part"),
 'C06': dict(level='other', technique=TECH + "; Counter by assumed contract; end-to-end training as bounded stand-in",
   text="calculate_probabilities: every item once in most_common order with count/total; the writer truncates and writes one line value TAB repr(p) LF per item; "
        "save_indexed_counters: old files removed, exactly one file per key; run_trainer: count['M'] = N/coverage - N (absent for 1, only structure for 0), N from pass 1; "
        "E/W structures unsupported. Lemmas: sorted, sum to 1 (A-REAL). Bounded: real CLI, hash-seed determinism."
        " _update_counter_len_indexed tallies every found string under its own length. Bounded also: every value of <Category>/<n>.txt has n characters; re-training leaves no stale file.",
   note="Counter.most_common/values assumed; A-FP, A-REAL; parse/OMEN/savers trusted inside run_trainer; determinism only bounded"),
 'C07': dict(level='other', technique=TECH + "; character table by exhaustive enumeration; encoding frame on the AST",
   text="check_valid accepts only passwords that stay on one line (no TAB, C0, nor any code point at which splitlines/codecs break, set recomputed each run); writer format; "
        "guesser reader returns every value unchanged, grouping equal probabilities (sorted file => strictly decreasing groups); the guesser's OMEN loader (_load_ngrams for IP.level and CP.level) returns every n-gram with only its line terminator removed, grouped by level and prefix in file order; the scorer's _load_from_file and _load_omen map every listed value / n-gram to the number on its line; every ruleset reader/writer names its encoding. "
        "Bounded: value-by-value round trip in utf-8 and cp1251 through guesser, scorer and OMEN loaders.",
   note="A-CODEC; rstrip/split/float(repr)/int identities validated only by the bounded round trip; the scorer's loaders and the EP / LN / config readers are not under contract"),
 'C19': dict(level='other', technique=TECH + "; string builtins uninterpreted; equivalence of textual forms by bounded stand-in",
   text="read_password: no exception escapes for any line content, only check_valid-accepted passwords are yielded, num_passwords advances by exactly the number yielded; "
        "run_trainer: three passes built from identical arguments, pass-1 N used everywhere. Bounded: $HEX[] / --prefixcount / junk-line forms train byte-identical rulesets.",
   note="hex/strip/split/join identities carried by the bounded stand-in; negative count prefixes outside the domain"),
 'C15': dict(level='other', technique=TECH + "; MarkovCracker abstracted to (level sequence, cursor) by trusted contracts, pickle round trip and session cycles as bounded stand-ins",
   text="omen_generate_guesses pickles the cursor right after the last emitted guess exactly when it stops on a quit; restore_omen emits from the pickled cursor a prefix of the remaining strings "
        "of the level, all of them unless the user quits again; CrackingSession.run resumes a Markov level first, and only, when the loaded options hold the cursor option; "
        "_save_session writes that option exactly when this process stopped inside a Markov level, so later cycles do not replay the remainder. Bounded: every cut position on the real MarkovCracker, "
        "three-session cycles on a trained ruleset (incl. a quit inside the last pre-terminal's level: defect F17, repaired)."
        " The tables the pickled cursor indexes are loaded in file order (_load_ngrams, _load_length) and identically in every process (bounded, three hash seeds). A quit inside the last pre-terminal's level is saved (F17 repaired).",
   note="MarkovCracker.next_guess/save_session/load_session trusted (C10's subject); A-PICKLE; rely/guarantee sequentialisation of the keyboard thread"),
 'C11': dict(level='other', technique=TECH + "; guesser side and file round trip by a bounded stand-in",
   text="find_omen_level (trainer tables) and OmenScorer.parse (IP/CP/LN tables) each return ln + ip + the sum of the transition levels of every n-gram and -1 exactly when the length is "
        "out of range or an n-gram is absent, for every string and every table (recursive spec functions); lemma level_agree: with corresponding tables the two coincide; "
        "the IP / CP writers of the trainer (statement slices) and the IP / CP / LN readers of guesser and scorer are verified against the file as a list of lines. "
        "Bounded: trainer level == scorer level == level at which the real MarkovCracker emits the string, through the real files.",
   note="strings as an uninterpreted sort; split/rstrip/int/str identities between a written and a read line only bounded; smoothing, EP/LN writers, config not under contract; guesser generator is C10's subject"),
 'C10': dict(level='other', technique=TECH + " for the level search, string formatting, first-level search and the two level cursors; exact enumeration by a labelled bounded stand-in",
   text="Deductive for all inputs: _find_cp returns the highest level in [bottom, min(top, max_level)] at which the prefix has transitions (exactly that list) and (None, None) exactly when "
        "none exists; _format_guess is the initial n-gram followed by the letters the parse tree points at; _find_first_object returns the lowest populated level in 0..max_level inclusive; the two cursors (_increase_len_for_target, _increase_ip_for_target) move to the next (level, index) entry in level order whose level is at most min(max_level, budget), rebuild the GuessStructure for exactly the new cursors with the remaining level (the length step restarts the initial n-grams at (start_ip, 0)), and return False, changing nothing, exactly when no such entry is left. "
        "Bounded (never counted as proved): the multiset emitted per level equals a brute-force enumeration, for shuffled level histories sharing one cache; pickle round trip at every cut."
        " _load_ngrams (IP, CP) and _load_length load exactly the files' content in file order; the loaded tables are identical across hash seeds (bounded).",
   note="the in-place backtracking successor (GuessStructure.next_guess, _fill_out_parse_tree, Optimizer) and the driving loop of MarkovCracker.next_guess are outside the verifiable subset; exactness rests on the stated bound"),
 'C18': dict(level='other', technique=TECH + "; statement slice of save_omen_rules_to_disk extracted mechanically; recursive count trusted and compared with the real generator by a bounded stand-in",
   text="calc_omen_keyspace (all models, all max_level/max_keyspace): every listed level holds the complete sum over initial n-grams with ip_level <= level and lengths >= n-gram size "
        "with length level <= the rest of the recursive count for (rest, length - ngram + 1 transitions); the cut-off never leaves a partial level. Slice of save_omen_rules_to_disk: "
        "pcfg_omen_prob lists exactly the levels with non-zero keyspace, each with (passwords at level / N) / keyspace. Bounded: listed keyspace == number of distinct strings the real MarkovCracker emits."
        " Bounded also: exact enumeration per level up to the maximum level (what the guesser really produces).",
   note="_rec_calc_keyspace trusted (RecCount uninterpreted); dict.items() contract assumed; A-FP-INT (ints below 2**53 convert exactly) used for the non-zero divisor only"),
 'C03': dict(level='other', technique=TECH + "; the functions on the path from a training password to its guess re-verified against the contracts the composition uses; end-to-end as bounded stand-in",
   text="Re-discharged here: parse keeps the tiling and tallies every segment under its label, base_structure_creation joins the labels, calculate_probabilities lists every counted item once "
        "with count/total, the loader returns every written value and inserts C<n> after every A<n>, _recursive_guesses emits every combination with the mask applied, every pre-terminal has exactly "
        "one adopting parent. The composition of these facts is argued in DESIGN.md, not machine-checked. Bounded: every supported training password is in the --skip_brute stream and the mass is 1."
        " The multi-word detector is only read while segmenting (AST frame): the segmentation of a password does not depend on earlier passwords.",
   note="composition argument not an obligation; *_detection callee contracts discharged under C05; one-to-one case-mapping domain as in the statement"),
 'C13': dict(level='other', technique=TECH + "; read-only frame of the scorer decided on the AST; score-vs-guesser as bounded stand-in",
   text="PCFGPasswordScorer.parse (all strings, all tables): e-mail / website inputs are classified e / w with probability 0, unsupported structures score 0, a non-zero score is exactly the "
        "left-to-right product of the table entries of every detected segment and of the base structure (0 when one is missing), category p needs a score above the limit or an OMEN level "
        "within the maximum, no field of the scorer is updated; OmenScorer.parse returns the level sum or -1. Frame (AST): scoring never updates the scorer or its multi-word detector. "
        "Bounded: every non-zero score is matched by the real guesser emitting that string from a pre-terminal of that probability. Known finding F15.",
   note="that the multiplied segments form a pre-terminal the guesser emits (same tables, same segmentation) rests on the stated bound; detectors trusted as in C05"),
 'C20': dict(level='other', technique=TECH + " with the regex engine abstracted to uninterpreted functions; edit_rules() over a ghost file system; file-system and shared-state frames decided on the AST; real CLI as bounded stand-in",
   text="edit_rules() (all configurations): the one file written is <rules_dir>/<copy or rule>/Grammar/grammar.txt and it receives exactly regex(terminal_set(length(text read from that file))), each filter applied iff its option is set, "
        "with the context lengths of that same ruleset; a copy is made iff --copy, from the rule to the copy, before anything is read. edit_length, edit_terminal_set, check_regex (all grammars and parameters): the result is exactly the concatenation, in order, of the lines passing the declarative filter "
        "(A/D/O/K count their number, Y counts 4, X between the given context lengths; nothing generated = kept; shortest >= min and longest <= max, 0 unbounded; every label letter in the set; every regex matches the structure). All paths: the only statements of edit_rules.py that change the file system are open(<rules_dir>/<rule>/Grammar/grammar.txt, 'w') and shutil.copytree(source, copy). "
        "Bounded: grammar.txt after editing == original minus the structures failing the requested filters, survivors unchanged and in order, other files byte-identical, --copy leaves the source "
        "untouched, guesses of the edited ruleset within the length bounds (context-sensitive segments: defect F12, repaired).",
   note="re.findall/re.search/split/strip/int() uninterpreted (A-TOK validated only by the stand-in); _context_lengths has a verified body contract (min/max/rsplit/listdir uninterpreted) and a trusted call-site summary; the effect of shutil.copytree is trusted (A-COPYTREE); A-SPLIT-CONCAT is a precondition of edit_rules(); exceptional exits unconstrained"),
}
NOT_APPLICABLE = {}
