#!/usr/bin/env python3
"""Take a sub-agent's scratch worktree (change left applied, demo.py, meta.json) into seeded/<pid>/<n>/.
usage: ingest_seed.py <worktree> <pid>     The demo is wrapped so that it takes the tree to examine as argv[1] (seedrun.py convention)."""
import json, os, subprocess, sys
wt, pid = sys.argv[1], sys.argv[2]
base = os.path.join(os.path.dirname(os.path.dirname(os.path.abspath(__file__))), 'seeded', pid)
n = 1 + max([int(x) for x in os.listdir(base) if x.isdigit()] or [0])
sd = os.path.join(base, str(n))
os.makedirs(sd)
diff = subprocess.run(['git', '-C', wt, 'diff', '--binary'], capture_output=True, check=True).stdout
open(os.path.join(sd, 'patch.diff'), 'wb').write(diff)
demo = open(os.path.join(wt, 'demo.py'), encoding='utf-8').read()
hdr = ("import os as _os, sys as _sys\n"
       "if len(_sys.argv) > 1 and _os.path.isdir(_sys.argv[1]):\n"
       "    _REPO = _os.path.abspath(_sys.argv[1]); del _sys.argv[1]\n"
       "else:\n"
       "    _REPO = _os.getcwd()\n"
       "_os.chdir(_REPO); _sys.path.insert(0, _REPO); __file__ = _os.path.join(_REPO, 'demo.py')\n")
lines = demo.split('\n')
k = 0
while k < len(lines) and (lines[k].startswith('#!') or lines[k].startswith('# -*-')):
    k += 1
# keep `from __future__` legal: insert the header after a leading docstring / future imports is not needed for these demos
open(os.path.join(sd, 'demo.py'), 'w', encoding='utf-8').write('\n'.join(lines[:k]) + ('\n' if k else '') + hdr + '\n'.join(lines[k:]))
m = json.load(open(os.path.join(wt, 'meta.json')))
m['property'] = pid
m.setdefault('needed_to_manifest', m.get('needs', ''))
m['batch'] = 6
json.dump(m, open(os.path.join(sd, 'meta.json'), 'w'), indent=1)
print(sd)
