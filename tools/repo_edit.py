#!/usr/bin/env python3
"""Edit a /repo file preserving its line terminators. usage: repo_edit.py <path> <old> <new> (\\n escapes, LF in patterns)"""
import sys
p, old, new = sys.argv[1], sys.argv[2].encode().decode('unicode_escape'), sys.argv[3].encode().decode('unicode_escape')
raw = open(p, newline='').read()
crlf = '\r\n' in raw
s = raw.replace('\r\n', '\n')
assert s.count(old) == 1, 'pattern occurs %d times' % s.count(old)
s = s.replace(old, new)
if crlf:
    s = s.replace('\n', '\r\n')
open(p, 'w', newline='').write(s)
print('edited', p, 'CRLF' if crlf else 'LF')
