#!/usr/bin/env python3
"""Apply a textual edit to a scratch copy of /repo and run checks against it (self-test helper).
usage: mutrun.py <pid,pid,...> <file> <old> <new> [--keep]   (old/new may contain \\n escapes)
       mutrun.py <pid,...> --patch file.diff
"""
import os, shutil, subprocess, sys, tempfile
pids = sys.argv[1].split(',')
d = tempfile.mkdtemp(prefix='pcfg_mut_')
try:
    subprocess.run(['rsync', '-a', '--exclude', '.git', '/repo/', d + '/'], check=True)
    if sys.argv[2] == '--patch':
        subprocess.run(['patch', '-p1', '-s', '-d', d, '-i', os.path.abspath(sys.argv[3])], check=True)
    else:
        f, old, new = sys.argv[2], sys.argv[3].encode().decode('unicode_escape'), sys.argv[4].encode().decode('unicode_escape')
        p = os.path.join(d, f)
        s = open(p).read()
        if old not in s:
            print('PATTERN NOT FOUND'); sys.exit(9)
        open(p, 'w').write(s.replace(old, new, 1))
    rc = 0
    for pid in pids:
        r = subprocess.run(['/verif/check', pid, '--repo', d] + (['-v'] if '-v' in sys.argv else []), capture_output=True, text=True)
        print(r.stdout.strip()[-3000:])
        if r.returncode not in (0, 1, 2):
            print(r.stderr[-2000:])
        print('== %s exit %d' % (pid, r.returncode))
finally:
    shutil.rmtree(d)
