"""C09 -- standard output is exactly the guess stream, and --limit is exact."""
import glob
import os

from pyvc.runner import Prop, Bounded, script_replay
from pyvc import effects
import contracts.guesser_core as gc
import contracts.guesser_expand as ge
import contracts.guesser_session as gs

M = gc.MOD + ':PcfgGrammar.'
CS = gs.CS + ':'

ALLOWED = {'lib_guesser/pcfg_grammar.py:PcfgGrammar.print_guess': 'print() without file=sys.stderr'}


def stdout_frame(repo):
    files = ['pcfg_guesser.py'] + sorted(os.path.relpath(p, repo) for p in glob.glob(os.path.join(repo, 'lib_guesser', '**', '*.py'), recursive=True))
    recs = effects.stdout_frame(repo, files, ALLOWED)
    for r in recs:
        r['name'] = 'C09.' + r['name']
    return recs


def replay(rec, repo, seed):
    if rec.get('backend') == 'ast-effects':
        # the failing input of a frame violation is the statement itself; when it is on the start-up path the CLI run shows it
        w = rec.get('detail', {})
        cli = script_replay('replay/cli.py', default_fn='C09')({'fn': ':C09'}, repo, seed)
        return {'statement': rec.get('site'), 'what': w.get('reason'), 'cli_run': cli}
    fn = (rec.get('fn') or '')
    if 'cracking_session' in fn or 'pcfg_guesser' in fn or not fn:
        return script_replay('replay/cli.py', default_fn='C09')({'fn': ':C09'}, repo, seed)
    return script_replay('replay/expand.py', default_fn='PcfgGrammar._recursive_guesses')(rec, repo, seed)


def status_path_frame(repo):
    """what a status / help request runs neither prints to stdout (stdout frame above) nor calls the output point print_guess: it only reads, and every
    method it calls on its parameters is itself in the checked set (C12's read-only frame, shared)"""
    import props.C12 as c12
    recs = effects.readonly_frame(repo, c12.THREAD_READS, tag='status.readonly', forbidden_calls=c12.WRITERS)
    for r in recs:
        r['name'] = 'C09.' + r['name']
    return recs


PROP = Prop(
    'C09', 'Standard output is exactly the guess stream, and --limit is exact',
    functions=[M + 'print_guess', M + '_recursive_guesses', M + 'omen_generate_guesses', M + 'create_guesses',
               CS + 'CrackingSession._save_session', CS + 'CrackingSession.run', 'pcfg_guesser:parse_command_line'],
    lemmas=lambda: ge.catvals_split.lemmas() + gs.flat_ext.lemmas(),
    setup=gs.install,
    effects=effects.combine(stdout_frame, status_path_frame),
    level='other',
    replay=replay,
    bounded=[Bounded('C09.bounded.cli', 'replay/cli.py', args=['--fn', 'C09'],
                     bound='Rules/Default; N in {1,3,333} x flags {none, --skip_brute} (quick); 12 values of N x 3 flag sets (thorough)',
                     clause='end-to-end: the real CLI writes exactly N lines, the first N of a longer run (covers start-up code: banner, loaders)')],
    assumptions=[
        'contracts of PcfgQueue.next / __init__ are those verified under C01/C08; MarkovCracker per C10',
        'A-WFX: every pre-terminal popped from the queue of a well-formed ruleset satisfies the expansion preconditions '
        '(mask lengths match the preceding alpha word) -- assumed postcondition of next(), not proved',
        'stdout.frame is syntactic: a write to stdout through an alias of sys.stdout or through a C extension is not seen',
        'honeyword / random-walk modes honour --limit under C16',
    ],
    explanation='Deductive: (1) frame -- no function of pcfg_guesser.py and lib_guesser/ contains a statement that writes to stdout '
                'except the single print in print_guess (decided on the AST, all paths); (2) limit -- _recursive_guesses and '
                'omen_generate_guesses write exactly take(limit, expansion) and return that count, the session loop keeps '
                'limit = N - lines written >= 1 and stops at <= 0, so exactly min(N,total) lines that are a prefix of the unlimited stream; '
                'a negative limit is refused. Bounded: the real CLI on Rules/Default.',
)
