"""C08 -- resuming a saved session loses nothing and repeats at most the tied group."""
from pyvc.runner import Prop, Bounded, script_replay
from pyvc import effects
import contracts.guesser_core as gc
import contracts.guesser_restore as gr
import contracts.guesser_session as gs
import contracts.guesser_main as gm
import contracts.guesser_expand as ge

M = gc.MOD + ':PcfgGrammar.'
Q = gc.PQ + ':'


def lemmas():
    import contracts.guesser_lemmas as gl
    return gr.addrange_r1.lemmas() + gl.queue_step.lemmas() + gs.flat_ext.lemmas() + ge.catvals_split.lemmas()


PROP = Prop(
    'C08', 'Resuming a saved session loses nothing and repeats at most the tied group',
    functions=[M + '_find_prob', M + 'is_parent_around', M + '_recursive_restore_prob_order', M + 'restore_prob_order',
               M + 'initalize_base_structures',
               Q + 'PcfgQueue.insert_queue', Q + 'PcfgQueue.restore_base_item', Q + 'PcfgQueue.update_save_config',
               Q + 'PcfgQueue.__init__', Q + 'PcfgQueue.next',
               gs.CS + ':CrackingSession._save_session', gs.CS + ':CrackingSession.run', 'pcfg_guesser:load_save', 'pcfg_guesser:main'],
    setup=gs.install,
    lemmas=lemmas,
    effects=effects.state_frame_for('C08', ['lib_guesser/pcfg_grammar.py', 'lib_guesser/priority_queue.py', 'lib_guesser/grammar_io.py', 'lib_guesser/cracking_session.py', 'pcfg_guesser.py']),
    level='other',
    replay=script_replay('replay/restore.py', default_fn='CUTS'),
    bounded=[Bounded('C08.bounded.cuts', 'replay/restore.py', args=['--fn', 'CUTS'],
                     bound='rulesets with 1-3 variables x 1-3 groups, 1-3 base structures (incl. duplicates), tie-rich dyadic '
                           'and non-dyadic probabilities; every cut point k, second cut after 1 and 2 further pops; '
                           '60 rulesets quick / 300 thorough',
                     clause='completeness of the restore walk (R3: nothing lost), no duplicates among restored nodes (R2), '
                            'repeats only at the saved probability, over two quit/resume cycles')],
    assumptions=[
        'A-FP order embedding; float(repr(x)) == x; ConfigParser behaves as a (section, option) -> str map',
        'termination of _recursive_restore_prob_order is not verified; RecursionError (A-EXC) not modelled',
        'the callback passed to restore_prob_order is invoked exactly on the items logged in the ghost list '
        '(definition side: the callback appends to it; call side: each logged item is one insert_queue call)',
    ],
    explanation='Deductive (all inputs): is_parent_around is True exactly when a parent has probability <= the saved '
                'probability; the restore walk only saves nodes with min <= P <= M, P attached, and no such parent (R1); '
                'restore_base_item/__init__ put exactly the saved nodes into the heap, so the restored queue satisfies '
                "C01's invariant with max_probability = M (order, nothing above M); update_save_config stores repr(max_probability); the session loop "
                'saves after a pop and before that item is guessed (run: quit_saves_unguessed_position); main() starts a resumed session only when the saved uuid equals the ruleset uuid. '
                'Bounded (labelled, not counted as proved): completeness of the walk, duplicate-freeness and the '
                'tied-group-only repeat clause over every cut point of small tie-rich rulesets, two cycles.',
)
