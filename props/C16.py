"""C16 -- honeywords are drawn from the grammar with the grammar's probabilities."""
import z3
from pyvc.runner import Prop, Bounded, script_replay
from pyvc import effects
from pyvc.runner import Lemma
import contracts.guesser_core as gc
import contracts.guesser_expand as ge
import contracts.guesser_honey as gh
import contracts.guesser_loader as gld
import contracts.guesser_session as gs

M = gc.MOD + ':PcfgGrammar.'


def lemmas():
    out = gh.selbase_stable.lemmas() + gh.selgroup_stable.lemmas() + ge.catvals_split.lemmas()
    # C16.measure (A-REAL): with + read as real addition, the set of draws that select item b is the interval
    # (Cum_{b-1}, Cum_b], whose length is p_b; successive draws are independent by the RNG contract, so a
    # derivation has the product of its factors.  The arithmetic core:
    c0, c1, p, u = z3.Reals('c0 c1 p u')
    out.append(Lemma('C16.measure.interval', [c1 == c0 + p, p >= 0],
                     z3.And(c1 - c0 == p, z3.Implies(z3.And(c0 < u, u <= c1), z3.And(z3.Not(c0 >= u), c1 >= u))),
                     'the draws selecting an item form an interval of length equal to its probability (real arithmetic)'))
    return out


PROP = Prop(
    'C16', "Honeywords are drawn from the grammar with the grammar's probabilities",
    functions=[M + '_find_prob', M + 'random_walk', M + '_honeyword_recursive_guess', M + 'create_guesses',
               gh.HS + '.__init__', gh.HS + '.run',
               # "the grammar's probabilities": the base-structure probabilities drawn from are the file's, renormalised by 1 - P(M) under --skip_brute
               (gld.GIO + ':_load_base_structures', gs.install)],
    lemmas=lambda: lemmas() + gld.firstm_stable.lemmas(),
    setup=gh.install,
    effects=effects.state_frame_for('C16', ['lib_guesser/pcfg_grammar.py', 'lib_guesser/honeyword_session.py']),
    level='other',
    replay=script_replay('replay/honey.py', default_fn='ALL'),
    bounded=[Bounded('C16.bounded.loader_base', 'replay/loader.py', args=['--fn', '_load_base_structures'],
                     bound='grammar.txt files of 1-6 lines, M line first/middle/last/absent, both skip_brute values',
                     clause='cross-check of the base-structure loader against its declarative spec'),
             Bounded('C16.bounded.sweep', 'replay/honey.py', args=['--fn', 'ALL'],
                     bound='10 (quick) / 60 (thorough) small rulesets with dyadic probabilities; every selection interval of the base choice '
                           '(midpoint, breakpoint, above the float sum) x 6 combinations of group-interval points; 8 seeds; limits {1,2,5} in both modes',
                     clause='the induced measure of every base structure equals its probability (exact rationals); every honeyword is an element of '
                            "its pre-terminal's expansion; N lines for --limit N; random-walk mode is reproducible")],
    assumptions=[
        'RNG contract: random.seed(s) makes the generator state a function of s; random.random() in [0,1); random.choice(xs) returns an element of xs '
        '(uniformity and independence of successive draws are the RNG\'s, not proved)',
        'A-REAL for the measure clause: float + read as real addition (in binary64 the base probabilities of Rules/Default sum to 0.9999999999996467; '
        'draws above the float sum now select the last base structure, fixed finding F13)',
        'A-WFX: the pt returned by random_walk satisfies the expansion preconditions (assumed postcondition)',
        'uniform choice inside a group gives each value prob = weight/len(values): arithmetic on the RNG contract, not machine-checked',
    ],
    explanation='Deductive: random_walk returns exactly the node selected by the cumulative sums against the successive draws (base structure by the '
                'first draw, each group by its own draw with weight prob*len(values)), always a node of the grammar; _honeyword_recursive_guess writes '
                'exactly one element of the expansion (none for Markov); HoneywordSession.run writes exactly N lines for limit N and re-seeds with '
                'consecutive seeds starting at 1 in random-walk mode. Bounded: interval sweep with exact measures, membership, reproducibility.',
)
