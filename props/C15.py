"""C15 -- a Markov level interrupted mid-way resumes at the very next guess."""
from pyvc.runner import Prop, Bounded, script_replay
import contracts.guesser_core as gc
import contracts.guesser_expand as ge
import contracts.guesser_session as gs
import contracts.omen_loader as oml

M = gc.MOD + ':PcfgGrammar.'
CS = gs.CS + ':'


def setup(eng):
    gs.enable_c15()
    gs.install(eng)


PROP = Prop(
    'C15', 'A Markov level interrupted mid-way resumes at the very next guess',
    functions=[M + 'omen_generate_guesses', M + 'restore_omen', CS + 'CrackingSession._save_session', CS + 'CrackingSession.run',
               # the pickled cursor is a pair of indices into the loaded tables: they are the files' content in file order, in every process
               (oml.IO + ':_load_ngrams#ip', None), (oml.IO + ':_load_ngrams#cp', None), (oml.IO + ':_load_length', None)],
    lemmas=lambda: ge.catvals_split.lemmas() + gs.flat_ext.lemmas() + oml.lemmas(),
    setup=setup,
    level='other',
    replay=script_replay('replay/session.py', default_fn='C15'),
    bounded=[
        Bounded('C15.bounded.loaddet', 'replay/omen.py', args=['--fn', 'LOADDET'],
                bound='two trained rulesets (n-gram 3 and 4), loaded in three processes with PYTHONHASHSEED 1, 2, 77',
                clause='the tables the pickled cursor indexes (initial n-grams per level, lengths per level, transitions) are loaded in the same order in every process'),
        Bounded('C15.bounded.cuts', 'replay/omen.py', args=['--fn', 'CUTS'],
                bound='random OMEN models (n-gram 2..4), every level 0..max, every cut position j of the level (first, last, boundaries '
                      'between lengths and initial n-grams), pickle to a file, fresh MarkovCracker with an empty optimizer, load_session',
                clause='the trusted contracts of MarkovCracker.save_session / load_session / next_guess: the restored generator continues '
                       'with exactly the remaining strings of the level'),
        Bounded('C15.bounded.session', 'replay/session.py', args=['--fn', 'C15'],
                bound='small trained ruleset (20 passwords, n-gram 3, coverage 0.5); first quit after guess j in {1,2,3,5,8,13,21,34,55,89,144} '
                      '(thorough: every odd j < 220), second quit after 3 or 17 more guesses, third resumed session',
                clause='real PcfgGrammar/CrackingSession/MarkovCracker: session 2 starts with the remainder of the interrupted level; a later '
                       'resume replays a Markov remainder only if the previous session stopped inside one'),
    ],
    assumptions=[
        'MarkovCracker is abstracted as (sequence of the level, cursor): next_guess/save_session/load_session are trusted contracts here '
        '(their bodies are the subject of C10; the pickle round trip is exercised on the real class by C15.bounded.cuts)',
        'A-PICKLE: the .omn file read by load_session was written by save_session of an earlier session and not modified since',
        'rely/guarantee sequentialisation of the keyboard thread as in C12 ($quit / $exit_seen)',
    ],
    explanation='Deductive: omen_generate_guesses pickles the cursor right after the last emitted guess exactly when it stops on a quit '
                '(cursor_pickled_on_quit / pickle_kept_otherwise); restore_omen emits, from the pickled cursor on, a prefix of the remaining '
                'strings of the level and all of them unless the user quits again (remainder_prefix / remainder_complete_unless_quit); '
                'CrackingSession.run calls it first, and only, when the loaded options hold the cursor option (markov_level_resumed_first / '
                'no_markov_resume_without_saved_cursor); _save_session writes the cursor option exactly when this process stopped inside a '
                'Markov level (omen_cursor_iff_stopped_inside_omen), so a later cycle does not replay the remainder. '
                'A stop inside the Markov level of the very last pre-terminal is saved too (negative saved position = nothing left to queue; defect F17, repaired).',
)
