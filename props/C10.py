"""C10 -- the OMEN generator enumerates each level exactly."""
from pyvc.runner import Prop, Bounded, script_replay
import contracts.omen_gen as og
import contracts.omen_loader as oml

PROP = Prop(
    'C10', 'The OMEN generator enumerates each level exactly',
    functions=[og.GSM + '._find_cp', og.GSM + '._format_guess', og.MCM + '._find_first_object',
               og.MCM + '._increase_len_for_target', og.MCM + '._increase_ip_for_target',
               # 'for a given OMEN model': the model the generator enumerates is the one stored in the ruleset files
               oml.IO + ':_load_ngrams#ip', oml.IO + ':_load_ngrams#cp', oml.IO + ':_load_length'],
    lemmas=oml.lemmas,
    level='other',
    replay=script_replay('replay/omen.py', default_fn='ENUM'),
    bounded=[Bounded('C10.bounded.loaddet', 'replay/omen.py', args=['--fn', 'LOADDET'],
                     bound='two trained rulesets (n-gram 3 and 4), loaded in three processes with PYTHONHASHSEED 1, 2, 77',
                     clause='the loaded model (and the order inside its lists) does not depend on the process'),
             Bounded('C10.bounded.enum', 'replay/omen.py', args=['--fn', 'ENUM'],
                     bound='250 random OMEN models quick / 1500 thorough (n-gram 2-3, alphabets of 2-3 letters, lengths up to 5, sparse or dense, dead-end prefixes, '
                           'levels 0..10 assigned at random), every level 0..24 in a shuffled order with repeats, one optimizer shared across the whole history',
                     clause='exactness: the multiset of strings emitted at level L equals the independent brute-force enumeration of the strings whose costs sum to L, '
                            'then None; independent of cache contents and of the order in which levels were generated'),
             Bounded('C10.bounded.cuts', 'replay/omen.py', args=['--fn', 'CUTS'],
                     bound='20 models quick / 120 thorough, every level 0..7, every cut position',
                     clause='a generator restored from its pickle with an empty cache continues the same sequence')],
    assumptions=[
        'GuessStructure.next_guess, _fill_out_parse_tree and the loop of MarkovCracker.next_guess that drives the two cursors (in-place backtracking over a list of mixed-type lists, shared memo table with '
        'copy-on-store/lookup) are outside the verifiable subset: their exactness is decided only within the bounds of C10.bounded.enum',
        'dict lookups raise KeyError exactly on absent keys; lists are values',
        'the cursor contracts assume every level 0..max_level is a key of grammar[ln] and grammar[ip] (what _load_length / _load_ngrams build) and a valid length cursor; '
        'GuessStructure.__init__ is executed inline from its real source (straight-line assignments)',
    ],
    explanation='Deductive (all inputs): _find_cp returns the highest level in [bottom, min(top, max_level)] at which the prefix has transitions, with exactly that list, and '
                '(None, None) exactly when there is none; _format_guess is the initial n-gram followed by the letters the parse tree points at; _find_first_object '
                'returns the lowest populated level in 0..max_level inclusive; the two cursors (_increase_len_for_target, _increase_ip_for_target) move to the next (level, index) entry in level order whose level is at most min(max_level, budget), rebuild the GuessStructure for exactly the new cursors with the remaining level (the length step restarts the initial n-grams at (start_ip, 0)), and return False, changing nothing, exactly when no such entry is left. Bounded (labelled, not proved): exact enumeration per level and cache/history independence '
                'against a brute-force enumerator; pickle round trip.',
)
