"""C18 -- the saved OMEN keyspace is the number of guesses a level really produces."""
from pyvc.runner import Prop, Bounded, script_replay
import contracts.omen_keyspace as ok
import contracts.omen_level as ol
import contracts.omen_loader as oml

PROP = Prop(
    'C18', 'The saved OMEN keyspace is the number of guesses a level really produces',
    functions=[ok.OFO + ':save_omen_rules_to_disk#prob_loop', ok.EV + ':calc_omen_keyspace',
               # 'the fraction of training passwords at that level': the level the third pass books a password under
               (ol.EV + ':find_omen_level', None),
               # what the guesser generates from: the IP / CP tables it loads are the files' content
               (oml.IO + ':_load_ngrams#ip', None), (oml.IO + ':_load_ngrams#cp', None),
               # 'guesser accepts lengths >= n-gram size': the length table as numbers of transitions
               (oml.IO + ':_load_length', None)],
    setup=ok.install,
    lemmas=lambda: ok.inner_zero.lemmas() + ol.okt_mono.lemmas() + oml.lemmas(),
    level='other',
    replay=script_replay('replay/omen.py', default_fn='KEYSPACE'),
    bounded=[Bounded('C18.bounded.enum', 'replay/omen.py', args=['--fn', 'ENUM'],
                     bound='250 random OMEN models quick / 1500 thorough, every level 0..24 (initial n-grams and lengths at every level 0..10)',
                     clause='what the guesser really produces per level: exact enumeration incl. levels 10 and above (same stand-in as C10.bounded.enum)'),
             Bounded('C18.bounded.keyspace', 'replay/omen.py', args=['--fn', 'KEYSPACE'],
                     bound='rulesets trained by the real trainer functions from small lists: a list dominated by passwords as long as the n-gram, a list dominated by one length '
                           '(length level 0), random lists; n-gram 2..5; max_keyspace = default and cut-offs 1, 2, 4; levels 1..6 (1..4 for n-gram < 4); one small-alphabet list (n-gram 3) with levels 1..11, i.e. including the '
                           'levels from 10 on at which strings start with an n-gram that never starts a training password; one single-length list (n-gram 2, length level 0, initial level 0, two transitions of level 9) with every level 1..18, '
                           'i.e. the remaining level reaches max_level inside _rec_calc_keyspace',
                     clause='every level listed in omen_keyspace.txt has as keyspace the number of distinct strings the real MarkovCracker emits at that level from the files written; '
                            'pcfg_omen_prob.txt holds (passwords at that level / N) / that number')],
    assumptions=[
        '_rec_calc_keyspace (memoised recursion through dictionaries created on demand) is a trusted contract: it returns the uninterpreted RecCount(grammar, level, transitions, prefix) >= 0; '
        'that this count -- and hence the listed keyspace -- is the number of distinct strings the real generator emits is decided by the bounded stand-in only',
        'dict.items() lists every present key exactly once with its value; int/int and float/int division as A-FP uninterpreted operations (no rounding reasoning needed: the clause is an identity of terms)',
    ],
    explanation='Deductive (all models, all max_level / max_keyspace): calc_omen_keyspace lists a level only with its complete sum -- over every initial n-gram whose level fits and every '
                'length >= n-gram size whose length level fits the rest -- of the recursive count for the remaining level and length - ngram + 1 transitions (the cut-off never leaves a partial level); '
                'find_omen_level books every training password under ln + ip + transition levels. Slice of save_omen_rules_to_disk, mechanically extracted: pcfg_omen_prob lists exactly the levels whose keyspace is non-zero, each with '
                '(passwords at that level / N) / keyspace. Bounded: the listed keyspace equals the number of distinct strings the real generator emits, incl. the max_keyspace cut-off.',
)
