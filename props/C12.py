"""C12 -- the guess stream does not depend on thread timing or on standard input."""
from pyvc.runner import Prop, Bounded, script_replay
import contracts.guesser_core as gc
import contracts.guesser_expand as ge
import contracts.guesser_session as gs

M = gc.MOD + ':PcfgGrammar.'
CS = gs.CS + ':'

THREAD_READS = [('lib_guesser/status_report.py', 'StatusReport.print_status'), ('lib_guesser/status_report.py', 'StatusReport.print_help'),
                ('lib_guesser/status_report.py', 'StatusReport._print_guess'), ('lib_guesser/status_report.py', 'StatusReport._print_time'),
                ('lib_guesser/status_report.py', 'StatusReport._calc_running_time'), ('lib_guesser/pcfg_grammar.py', 'PcfgGrammar.get_status')]

# the output point and the functions that generate guesses or move the session: a status / help request must not call them
WRITERS = ('print_guess', 'write_guess_to_file', 'create_guesses', '_recursive_guesses', 'omen_generate_guesses', 'next_guess', 'insert_queue',
           '_save_session', 'save_session', 'restore_prob_order', 'random_walk')


def thread_frame(repo):
    """what the keyboard thread runs on a status/help request only reads the state it shares with the generation loop"""
    from pyvc import effects
    recs = effects.readonly_frame(repo, THREAD_READS, tag='thread.readonly', forbidden_calls=WRITERS)
    # ... and writes nothing to stdout (a status line in the guess stream alters it exactly when a request arrives)
    recs += [r for r in effects.stdout_frame(repo, ['lib_guesser/status_report.py'], {})]
    for r in recs:
        r['name'] = 'C12.' + r['name']
    return recs


PROP = Prop(
    'C12', 'The guess stream does not depend on thread timing or on standard input',
    functions=[CS + 'keypress', CS + 'CrackingSession.run', CS + 'CrackingSession._save_session',
               M + 'omen_generate_guesses', M + '_recursive_guesses', M + 'create_guesses'],
    lemmas=lambda: ge.catvals_split.lemmas() + gs.flat_ext.lemmas(),
    setup=gs.install,
    effects=thread_frame,
    level='other',
    replay=script_replay('replay/cli.py', default_fn='C12'),
    bounded=[Bounded('C12.bounded.stdin', 'replay/cli.py', args=['--fn', 'C12'],
                     bound='Rules/Default, N = 3000; stdin in {/dev/null, closed descriptor, empty file, pipe with status requests, open pipe without data}',
                     clause='the real process under five stdin conditions writes the same 3000 lines')],
    assumptions=[
        'rely/guarantee sequentialisation: the keyboard thread is observed only through pcfg.should_exit; every read of that field '
        'returns an arbitrary Boolean that can be True only if the user explicitly asked to quit ($quit) and stays True once True. '
        'This over-approximates every interleaving; it is justified by the guarantee proved of keypress (its only write is '
        "should_exit = True after reading 'q') -- real threads are not executed",
        "input() either returns a line or raises EOFError/ValueError/OSError; print to stderr may raise (caught by keypress's bare except)",
        'status printing (StatusReport.print_status/print_help) writes to stderr only: its stdout frame is an obligation of C09; that it (and get_status) only '
        'reads the pre-terminal it shares with the generation loop is the syntactic frame obligation C12.thread.readonly.frame.* (local aliases tracked flow-insensitively)',
    ],
    explanation='Deductive: keypress never lets an exception escape, writes nothing but should_exit, and sets it only after reading q; '
                'CrackingSession.run: without a quit request the stream is complete (or cut exactly by the limit) whatever the reads of the flag '
                'return; with a quit request the loop stops only after a pop and before its guesses, or between two Markov guesses, '
                'after _save_session has stored the un-guessed position. Bounded: five stdin conditions on the real CLI.',
)
