"""C07 -- a saved ruleset means the same thing to every tool that loads it."""
from pyvc.runner import Prop, Bounded, script_replay
from pyvc import effects
import contracts.trainer_detect as td
import contracts.trainer_io as tio
import contracts.guesser_loader as gld
import contracts.guesser_session as gs
import contracts.omen_loader as oml

FILES = ['lib_trainer/save_pcfg_data.py', 'lib_trainer/omen/omen_file_output.py', 'lib_trainer/trainer_file_input.py',
         'lib_guesser/grammar_io.py', 'lib_scorer/grammar_io.py', 'lib_guesser/omen/input_file_io.py', 'lib_scorer/omen_scorer.py']
ASCII_ONLY = ['config.ini', 'grammar.txt', 'omen_keyspace.txt', 'LN.level']     # files that hold ASCII digits / names only
ASCII_FUNCS = ('lib_trainer/omen/omen_file_output.py:_save_config', 'lib_guesser/omen/input_file_io.py:_load_length')


def install(eng):
    td.install(eng)
    tio.install(eng, encode_may_fail=False)     # reader side: A-CODEC (ruleset text is encodable in the ruleset's encoding)


def install_trainer_side(eng):
    td.install(eng)
    tio.install(eng)        # str.encode may raise here (the trainer reads arbitrary input)


def encoding_frame(repo):
    recs = effects.open_encoding_frame(repo, FILES, ASCII_ONLY, ASCII_FUNCS)
    for r in recs:
        r['name'] = 'C07.' + r['name']
    return recs


def replay(rec, repo, seed):
    return script_replay('replay/train.py', default_fn='C07')({'fn': ':C07'}, repo, seed)


PROP = Prop(
    'C07', 'A saved ruleset means the same thing to every tool that loads it',
    functions=[tio.TFI + ':check_valid', tio.SP + ':calculate_and_save_counter', tio.SP + ':save_indexed_counters',
               gld.GIO + ':_load_from_file',
               # 'no password accepted for training ...': what read_password yields has passed check_valid after $HEX[] decoding
               (tio.TFIC + '.read_password#generator', install_trainer_side),
               # the guesser's OMEN loader returns the n-grams of IP.level / CP.level unchanged, grouped by level (and prefix)
               (oml.IO + ':_load_ngrams#ip', None), (oml.IO + ':_load_ngrams#cp', None),
               # ... and so does the scorer's OMEN loader
               (oml.SC + '._load_omen', None),
               # the scorer's terminal reader: every value with the probability of its line
               (oml.SGIO + ':_load_from_file', gld.install_reader)],
    lemmas=lambda: gld.groups_desc.lemmas() + oml.lemmas(),
    setup=install,
    effects=encoding_frame,
    level='other',
    replay=replay,
    bounded=[Bounded('C07.bounded.roundtrip', 'replay/train.py', args=['--fn', 'C07'],
                     bound='two trained rulesets (utf-8 with spaces / non-ASCII / non-BMP values, cp1251 Cyrillic); every terminal list compared value by value',
                     clause='writer/reader inverse end to end: guesser loader returns every written (value, probability) in order; config filename lists == '
                            'files on disk; OmenScorer and the guesser OMEN loader load the ruleset and agree on the IP table'),
             Bounded('C07.bounded.linebreaks', 'replay/trainer.py', args=['--fn', 'LOWER'],
                     bound='all 1 112 064 code points', clause='(shared character-table sweep; the set of line-breaking characters used by check_valid.post is recomputed '
                                                               'exhaustively inside the deductive run as well)')],
    assumptions=[
        'A-CODEC: a text file written as lines l_i + LF with no l_i containing a line-breaking character is read back as exactly those lines by '
        'codecs / universal-newline iteration when writer and reader use the same encoding; str.encode of such text does not raise',
        "rstrip()/split('\\t')/float(repr(p)) are uninterpreted in the deductive part: that rstrip only removes the newline and split yields exactly "
        'two fields for a TAB-free value is validated by the bounded round trip, not proved',
        'under contract: the guesser\'s _load_from_file and _load_ngrams (IP.level, CP.level), the scorer\'s _load_from_file and OmenScorer._load_omen; the remaining readers '
        '(EP.level, alphabet, the multi-file drivers) are covered by the encoding frame and the bounded stand-in only',
    ],
    explanation='Deductive: check_valid accepts only non-empty passwords without TAB, C0 controls or any character at which splitlines()/codecs break a '
                'line (set recomputed exhaustively each run); the writer puts exactly one line value TAB repr(p) LF per item, one file per key; the '
                'guesser reader returns every value unchanged and groups consecutive equal probabilities; a sorted file gives strictly decreasing '
                'groups (C01.load.groups_desc); every reader/writer of ruleset text names its encoding explicitly (frame, AST). '
                'Bounded: value-by-value round trip in two encodings.',
)
