"""C03 -- every supported training password is reproduced by the trained grammar."""
from pyvc.runner import Prop, Bounded, script_replay
import contracts.trainer_detect as td
import contracts.trainer_io as tio
import contracts.guesser_core as gc
import contracts.guesser_expand as ge
import contracts.guesser_loader as gld
import contracts.guesser_session as gs
import contracts.guesser_lemmas as gl

M = gc.MOD + ':PcfgGrammar.'


def install_trainer(eng):
    td.install(eng)
    tio.install(eng)


def replay(rec, repo, seed):
    return script_replay('replay/train.py', default_fn='C03')({'fn': ':C03'}, repo, seed)


PID = 'C03'

MW_READS = [('lib_trainer/detection_rules/alpha_detection.py', 'alpha_detection', ['multiword_detector']),
            ('lib_trainer/detection_rules/alpha_detection.py', 'detect_alpha', ['multiword_detector']),
            ('lib_trainer/detection_rules/multiword_detector.py', 'MultiWordDetector.parse'),
            ('lib_trainer/detection_rules/multiword_detector.py', 'MultiWordDetector._identify_multi'),
            ('lib_trainer/detection_rules/multiword_detector.py', 'MultiWordDetector._get_count')]


def detector_frame(repo):
    """segmenting a password only reads the trained multi-word detector (no cache or counter of it is updated): the segmentation of a password does not
    depend on which passwords were segmented before"""
    from pyvc import effects as _eff
    recs = _eff.readonly_frame(repo, MW_READS, tag='detector.readonly', immutable_params=('section', 'alpha_string'))
    for r in recs:
        r['name'] = '%s.' % PID + r['name']
    return recs


PROP = Prop(
    'C03', 'Every supported training password is reproduced by the trained grammar',
    functions=[
        # trainer: the segments tile the password and every segment is tallied under its label (C05's contracts)
        # the stored word is the lower-cased segment and its mask marks exactly the capitals, word by word in a multi-word (C05's contract)
        (td.DR + 'alpha_detection:detect_alpha', install_trainer),
        (td.PP + '.parse', install_trainer), (td.PP + '._update_counter_len_indexed', install_trainer), (td.BS + ':base_structure_creation', install_trainer),
        # every counted item is written once with count/total (C06's contracts)
        (tio.CP + ':calculate_probabilities', install_trainer), (tio.SP + ':calculate_and_save_counter', install_trainer),
        # guesser: every written value is loaded into some group; the capitalisation variable follows every alpha variable
        (gld.GIO + ':_load_from_file', gld.install_reader), (gld.GIO + ':_load_base_structures', gs.install),
        # every concatenation of one value per group is emitted, masks applied to the word before them; every pre-terminal is reached
        (M + '_recursive_guesses', ge.install), (M + '_are_you_my_child', None), (M + 'find_children', None),
    ],
    lemmas=lambda: td.a_first_stable.lemmas() + td.a_end_stable.lemmas() + ge.catvals_split.lemmas() + gld.groups_desc.lemmas() + gld.firstm_stable.lemmas() + gl.all_c02_lemmas(),
    effects=detector_frame,
    level='other',
    replay=replay,
    bounded=[Bounded('C03.bounded.train', 'replay/train.py', args=['--fn', 'C03'],
                     bound='generated training lists of 35 passwords (words, multi-words, digits, years, symbols, keyboard walks, context strings, spaces, Cyrillic/Greek/Latin-1, '
                           'non-BMP, duplicates); (coverage, n-gram) in {(0.6,4),(1.0,3)} quick, +{(0.3,2),(0.6,5)} thorough; real trainer and guesser CLIs',
                     clause='every training password whose structure has no e-mail/website segment (letters with one-to-one case mapping) is in the --skip_brute stream; '
                            'the sum over pre-terminals of probability x number of guesses is 1 (1e-9) and that number equals the lines written'),
             Bounded('C03.bounded.expand', 'replay/expand.py', args=['--fn', 'PcfgGrammar._recursive_guesses'],
                     bound='random small rulesets, groups of 1-3 masks of any U/L pattern, every pre-terminal',
                     clause='cross-check: every combination of one value per group is written, each mask applied to the word before it'),
             Bounded('C03.bounded.loader_base', 'replay/loader.py', args=['--fn', '_load_base_structures'],
                     bound='grammar.txt files of 1-6 lines, M line first/middle/last/absent, both skip_brute values',
                     clause='cross-check: --skip_brute renormalises every remaining base structure by 1 - P(M)')],
    # (cross-checks of two functions of the chain on the real code: they keep the property decided when a change moves one of them out of the verifiable subset)
    assumptions=[
        'the composition (tiling -> tally -> one line per item -> loaded group -> product expansion -> every pre-terminal emitted) is argued in DESIGN.md section 5/C03 from the '
        'contracts discharged here and in C02, C04, C05, C06, C07, C14; it is not itself a machine-checked obligation',
        'callee contracts of parse (the *_detection functions) are discharged under C05, not again here; keyboard-walk and multi-word detection are trusted there',
        "domain of the property: letters whose upper/lower case mapping is one-to-one (the statement's own restriction)",
    ],
    explanation='The functions on the path from a training password to its guess are re-verified here against the contracts the composition uses: parse keeps the tiling and tallies every '
                'segment under its label, base_structure_creation joins the labels, calculate_probabilities lists every counted item once with count/total, the loader returns every '
                'written value and inserts C<n> after every A<n>, _recursive_guesses emits every combination with the mask applied, and every pre-terminal has exactly one adopting parent. '
                'Bounded: the end-to-end statement on the real CLIs.',
)
