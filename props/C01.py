"""C01 -- guesses are emitted in non-increasing probability order."""
from pyvc.runner import Prop, Bounded, script_replay
import contracts.guesser_core as gc
import contracts.guesser_lemmas as gl

M = gc.MOD + ':PcfgGrammar.'
Q = gc.PQ + ':'

PROP = Prop(
    'C01', 'Guesses are emitted in non-increasing probability order',
    functions=[Q + 'QueueItem.__lt__', Q + 'QueueItem.__le__', Q + 'QueueItem.__eq__', Q + 'QueueItem.__ne__',
               Q + 'QueueItem.__gt__', Q + 'QueueItem.__ge__',
               M + '_find_prob', M + '_are_you_my_child', M + 'find_children', M + 'initalize_base_structures',
               Q + 'PcfgQueue.insert_queue', Q + 'PcfgQueue.next'],
    lemmas=gl.all_c01_lemmas,
    level='proof',
    replay=script_replay('replay/guesser.py'),
    assumptions=[
        'A-FP: float * is monotone in each argument on non-negative operands, x*y <= x for 0<=y<=1, x*1.0 == x; '
        'nothing else is assumed of it (not associative, not commutative)',
        'WF(G): group probabilities of every variable are in [0,1] and non-increasing along the list '
        '(postcondition of the loader on a ruleset whose files are sorted, see C04/C06)',
        'exceptions RecursionError/MemoryError/KeyboardInterrupt are not modelled (A-EXC)',
        'lists are values: copy.copy(list) and item stores do not alias (syntactic discipline, DESIGN 3.3)',
    ],
    explanation='All clauses of the statement for the new-session path are carried by discharged obligations: '
                'comparators, _find_prob == Fold, children carry P(child) <= P(parent), heap step of next(), '
                'order invariant. The restore path is C08.',
)
