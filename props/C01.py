"""C01 -- guesses are emitted in non-increasing probability order."""
from pyvc.runner import Prop, Bounded, script_replay
from pyvc import effects
import contracts.guesser_core as gc
import contracts.guesser_lemmas as gl
import contracts.guesser_loader as gld
import contracts.guesser_session as gs

M = gc.MOD + ':PcfgGrammar.'
Q = gc.PQ + ':'

PROP = Prop(
    'C01', 'Guesses are emitted in non-increasing probability order',
    functions=[Q + 'QueueItem.__lt__', Q + 'QueueItem.__le__', Q + 'QueueItem.__eq__', Q + 'QueueItem.__ne__',
               Q + 'QueueItem.__gt__', Q + 'QueueItem.__ge__',
               M + '_find_prob', M + '_are_you_my_child', M + 'find_children', M + 'initalize_base_structures',
               Q + 'PcfgQueue.insert_queue', Q + 'PcfgQueue.next',
               # the loaded ruleset is what the files say: base-structure probabilities (skip_brute renormalisation) and groups of equal probability
               (gld.GIO + ':_load_base_structures', gs.install), (gld.GIO + ':_load_from_file', gld.install_reader)],
    lemmas=lambda: gl.all_c01_lemmas() + gld.firstm_stable.lemmas() + gld.groups_desc.lemmas(),
    effects=effects.state_frame_for('C01', ['lib_guesser/pcfg_grammar.py', 'lib_guesser/priority_queue.py', 'lib_guesser/grammar_io.py']),
    level='proof',
    replay=script_replay('replay/guesser.py'),
    bounded=[Bounded('C01.bounded.det', 'replay/guesser.py', args=['--fn', 'DET'],
                     bound='12 tie-rich random rulesets quick / 60 thorough, each run to exhaustion in three processes with PYTHONHASHSEED 1, 2, 77',
                     clause='the emitted sequence is a deterministic function of the ruleset: identical in processes with different string-hash seeds'),
             Bounded('C01.bounded.run', 'replay/guesser.py', args=['--fn', 'RUN'],
                     bound='60 random rulesets (1-3 base structures incl. duplicates, repeated variable types, tie-rich dyadic probabilities), run to exhaustion',
                     clause='cross-check of the proved clauses on the real classes: order, attached probability == product, heap step (not needed for the proof; '
                            'it keeps the property decided when a changed function falls outside the verifiable subset)'),
             Bounded('C01.bounded.loader_base', 'replay/loader.py', args=['--fn', '_load_base_structures'],
                     bound='grammar.txt files of 1-6 lines, M line first/middle/last/absent/alone, both skip_brute values',
                     clause='cross-check of _load_base_structures against its declarative spec'),
             Bounded('C01.bounded.loader_groups', 'replay/loader.py', args=['--fn', '_load_from_file'],
                     bound='terminal files of 1-9 rows with equal / 1 ulp / 1e-12 / 4e-10 apart / halved probabilities',
                     clause='cross-check: groups are the maximal runs of exactly equal probabilities')],
    assumptions=[
        'A-FP: float * is monotone in each argument on non-negative operands, x*y <= x for 0<=y<=1, x*1.0 == x; '
        'nothing else is assumed of it (not associative, not commutative)',
        'WF(G): group probabilities of every variable are in [0,1] and non-increasing along the list '
        '(postcondition of the loader on a ruleset whose files are sorted, see C04/C06)',
        'exceptions RecursionError/MemoryError/KeyboardInterrupt are not modelled (A-EXC)',
        'lists are values: copy.copy(list) and item stores do not alias (syntactic discipline, DESIGN 3.3)',
    ],
    explanation='All clauses of the statement for the new-session path are carried by discharged obligations: '
                'comparators, _find_prob == Fold, children carry P(child) <= P(parent), heap step of next(), '
                'order invariant. The restore path is C08.',
)
