"""C20 -- edit_rules only removes base structures, and only those that fail the filter."""
from pyvc.runner import Prop, Bounded, script_replay
from pyvc import effects
import contracts.edit_rules as er

import ast
import os


def _resolved(expr, fn):
    """expr with every local name that is assigned exactly once in fn (plain assignment, not a loop / with / augmented target) replaced by
    the expression assigned to it, nested os.path.join calls flattened and config['k'] written as config.get('k'); None when a name in it
    is bound more than once"""
    bound = {}
    for n in ast.walk(fn):
        tgts = []
        if isinstance(n, ast.Assign):
            tgts = [(t, n.value) for t in n.targets]
        elif isinstance(n, (ast.AugAssign, ast.AnnAssign)):
            tgts = [(n.target, None)]
        elif isinstance(n, (ast.For, ast.comprehension)):
            tgts = [(n.target, None)]
        elif isinstance(n, ast.withitem) and n.optional_vars is not None:
            tgts = [(n.optional_vars, None)]
        for t, v in tgts:
            for nm in ast.walk(t):
                if isinstance(nm, ast.Name) and isinstance(nm.ctx, ast.Store):
                    bound.setdefault(nm.id, []).append(v if t is nm else None)
    params = {a.arg for a in fn.args.args}
    failed = []

    def go(e, depth):
        if depth > 12:
            failed.append('depth')
            return e
        if isinstance(e, ast.Name):
            if e.id in params or e.id not in bound:
                return e
            if len(bound[e.id]) != 1 or bound[e.id][0] is None:
                failed.append(e.id)
                return e
            return go(bound[e.id][0], depth + 1)
        if isinstance(e, ast.Subscript) and isinstance(e.value, ast.Name) and isinstance(e.slice, ast.Constant):
            return ast.parse('%s.get(%r)' % (e.value.id, e.slice.value), mode='eval').body
        if isinstance(e, ast.Call) and ast.unparse(e.func) == 'os.path.join' and not e.keywords:
            args = []
            for a in e.args:
                a2 = go(a, depth + 1)
                if isinstance(a2, ast.Call) and ast.unparse(a2.func) == 'os.path.join' and not a2.keywords:
                    args.extend(a2.args)
                else:
                    args.append(a2)
            return ast.Call(func=e.func, args=args, keywords=[])
        return e
    out = go(expr, 0)
    return None if failed else out


def only_grammar_txt_is_written(fn, calls):
    """edit_rules(): exactly one file-system update, open(<path>, 'w'), where <path> resolves (through locals assigned once, nested
    os.path.join flattened) to os.path.join(config.get('rules_dir'), config.get('rule'), 'Grammar', 'grammar.txt').  True / False as
    decided; None (undecided) when the path expression cannot be resolved to a join of literals and config entries."""
    if len(calls) != 1:
        return False
    c = calls[0]
    if ast.unparse(c.func) != 'open' or not c.args:
        return False
    mode = c.args[1] if len(c.args) > 1 else next((k.value for k in c.keywords if k.arg == 'mode'), None)
    if not isinstance(mode, ast.Constant):
        return None
    if mode.value not in ('w', 'wt'):
        return False
    if any(k.arg not in ('encoding', 'newline', 'mode') for k in c.keywords):
        return None
    path = _resolved(c.args[0], fn)
    if path is None or not (isinstance(path, ast.Call) and ast.unparse(path.func) == 'os.path.join'):
        return None
    parts = [ast.unparse(a) for a in path.args]
    if not all(isinstance(a, ast.Constant) or ast.unparse(a).startswith('config.get(') for a in path.args):
        return None
    return parts == ["config.get('rules_dir')", "config.get('rule')", "'Grammar'", "'grammar.txt'"]


def only_a_plain_copytree(fn, calls):
    """_create_copy(): exactly one file-system update, shutil.copytree(<first parameter>, <second parameter>) with no further arguments"""
    params = [a.arg for a in fn.args.args]
    if len(calls) != 1 or len(params) != 2:
        return False
    c = calls[0]
    return ast.unparse(c.func) == 'shutil.copytree' and not c.keywords and [ast.unparse(a) for a in c.args] == params


ALLOWED = {'edit_rules': only_grammar_txt_is_written, '_create_copy': only_a_plain_copytree}


def fs_frame(repo):
    recs = effects.fs_write_frame(repo, 'edit_rules.py', ALLOWED, tag='fs')
    for r in recs:
        r['name'] = 'C20.' + r['name']
    return recs


PROP = Prop(
    'C20', 'edit_rules only removes base structures, and only those that fail the filter',
    functions=[er.ER + ':edit_length', er.ER + ':edit_terminal_set', er.ER + ':check_regex', er.ER + ':edit_rules', er.ER + ':_context_lengths#body'],
    lemmas=lambda: er.allmatch_mono.lemmas(),
    setup=er.install,
    effects=effects.combine(fs_frame, effects.state_frame_for('C20', ['edit_rules.py'])),
    level='other',
    replay=script_replay('replay/edit.py', default_fn='C20'),
    bounded=[Bounded('C20.bounded.cli', 'replay/edit.py', args=['--fn', 'C20'],
                     bound='real edit_rules.py CLI on a hand-written grammar.txt (15 structures: M, X1, Y1, K4, two- and four-digit labels, repeated types; context values of 2, 3 and 4 characters whose alphabetical order '
                           'is not their order by length) and on a trained ruleset; '
                           '22 option combinations quick (length bounds incl. min only / max only / equal / beyond every structure, terminal sets, regexes, all three, --copy), '
                           '+80 length-bound pairs thorough',
                     clause='grammar.txt afterwards == original lines minus the structures failing a requested filter, survivors textually unchanged and in order; every other '
                            'file byte-identical; --copy leaves the source untouched; every non-Markov guess of the edited trained ruleset is within the length bounds')],
    assumptions=[
        're.findall / re.search / str.split / str.strip / int() are uninterpreted functions of their arguments in the deductive part (Toks, ReSearch, ...): that '
        "''.join(Toks(line)) is the structure the line started with (A-TOK, the locus of the repaired defect F12b) and what the regular expressions match are "
        'decided only within the bounds of C20.bounded.cli',
        'edit_rules() is under contract over a ghost file system ($fs: path -> text written since open(.., "w"), fs_text(path): text a file holds at entry; A-STR-EXT: s[0:i] + s[i] == s[0:i+1] is supplied as an instance); config is a record whose '
        "'copy', 'terminal_set' and 'regex' entries are None-or-value (parse_command_line stores False or leaves the key out; only their truth value and .get() are used); "
        'exceptional exits (IOError / OSError) are unconstrained',
        'A-SPLIT-CONCAT: that the output of one filter is again a text whose non-empty lines have two TAB-separated fields is a precondition of edit_rules (fields_wf of the four '
        'candidate intermediate texts), true of rebuilt() lines but not derivable under the split abstraction; validated by C20.bounded.cli',
        '_create_copy is trusted at the call site (A-COPYTREE: the copy is a byte copy of the source and nothing else changes); its body is decided by the AST frame',
        '_context_lengths: its body is verified (contract #body: the result is (min, max) of the list of len(text before the last TAB) over every TAB-containing line of every file of '
        "<rule_dir>/Context, (1, 1) when that list is empty) with os.path.isdir / os.listdir / '\\t' in s / rsplit('\\t', 1)[0] / min / max as uninterpreted functions of their arguments; "
        'that min(l) <= every element <= max(l) is the library meaning of min / max, not derived.  At the call site in edit_rules() it is summarised as a function (lo <= hi) of the rule '
        'directory at call time; a memoising decorator on it is refused by the engine and reported by the state frame',
        'the frame does not see writes through aliases of open/shutil or through imported helpers (edit_rules.py imports none of the repository modules)',
    ],
    explanation='Deductive (all grammars, all parameters, regex engine abstracted): edit_length, edit_terminal_set and check_regex each return exactly the concatenation, in order, '
                'of the (rebuilt) lines that pass the declarative filter -- labels A/D/O/K count their number, Y counts 4, a context-sensitive X counts between the two given context lengths, a structure that generates nothing (Markov) is kept, '
                'otherwise the shortest guess must reach min_length and the longest must not exceed max_length (0 = unbounded); '
                'every label letter in the terminal set; every regular expression matches the structure. edit_rules() composes them: the one file written is <rules_dir>/<copy or rule>/Grammar/grammar.txt, it receives exactly regex(terminal_set(length(text read from that same file))) with each filter applied iff its option is set and with the context lengths of that same ruleset, and a copy is made iff --copy is given, from <rule> to <copy>, before anything is read. Frame (AST, all paths): the only statements of edit_rules.py that change the file system are open(grammar_file, "w") in edit_rules(), with grammar_file = '
                '<rules_dir>/<rule>/Grammar/grammar.txt, and shutil.copytree in _create_copy (source -> copy); so no other file of a ruleset is touched; no module-level state or memo table carries an answer from one call to the next. '
                'Bounded: filter semantics on the real CLI. Context-sensitive segments are measured with the real lengths of the ruleset (defect F12, repaired).',
)
