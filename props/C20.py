"""C20 -- edit_rules only removes base structures, and only those that fail the filter."""
from pyvc.runner import Prop, Bounded, script_replay
from pyvc import effects
import contracts.edit_rules as er

ALLOWED = {'edit_rules': ["open(grammar_file, 'w')"], '_create_copy': ['shutil.copytree(rule_dir, output_dir)']}


def fs_frame(repo):
    recs = effects.fs_write_frame(repo, 'edit_rules.py', ALLOWED, tag='fs')
    # the one file opened for writing is Grammar/grammar.txt of the edited ruleset
    import ast, os
    src = open(os.path.join(repo, 'edit_rules.py'), encoding='utf-8').read()
    tree = ast.parse(src)
    ok = False
    detail = 'assignment to grammar_file not found in edit_rules()'
    for fn in ast.walk(tree):
        if isinstance(fn, ast.FunctionDef) and fn.name == 'edit_rules':
            assigns = [n for n in ast.walk(fn) if isinstance(n, ast.Assign) and any(isinstance(t, ast.Name) and t.id == 'grammar_file' for t in n.targets)]
            if len(assigns) == 1:
                txt = ast.unparse(assigns[0].value)
                ok = txt == "os.path.join(config.get('rules_dir'), config.get('rule'), 'Grammar', 'grammar.txt')"
                detail = '' if ok else 'grammar_file = %s' % txt
            elif assigns:
                detail = 'grammar_file is assigned %d times' % len(assigns)
    recs.append({'name': 'fs.frame.edit_rules.target_is_grammar_txt', 'ok': ok, 'detail': detail, 'fn': 'edit_rules.py:edit_rules', 'site': 'edit_rules.py:edit_rules',
                 'witness': None if ok else {'file': 'edit_rules.py', 'function': 'edit_rules', 'what': detail}})
    for r in recs:
        r['name'] = 'C20.' + r['name']
    return recs


PROP = Prop(
    'C20', 'edit_rules only removes base structures, and only those that fail the filter',
    functions=[er.ER + ':edit_length', er.ER + ':edit_terminal_set', er.ER + ':check_regex'],
    lemmas=lambda: er.allmatch_mono.lemmas(),
    setup=er.install,
    effects=fs_frame,
    level='other',
    replay=script_replay('replay/edit.py', default_fn='C20'),
    bounded=[Bounded('C20.bounded.cli', 'replay/edit.py', args=['--fn', 'C20'],
                     bound='real edit_rules.py CLI on a hand-written grammar.txt (15 structures: M, X1, Y1, K4, two- and four-digit labels, repeated types) and on a trained ruleset; '
                           '17 option combinations quick (length bounds incl. min only / max only / equal / beyond every structure, terminal sets, regexes, all three, --copy), '
                           '+80 length-bound pairs thorough',
                     clause='grammar.txt afterwards == original lines minus the structures failing a requested filter, survivors textually unchanged and in order; every other '
                            'file byte-identical; --copy leaves the source untouched; every non-Markov guess of the edited trained ruleset is within the length bounds')],
    assumptions=[
        're.findall / re.search / str.split / str.strip / int() are uninterpreted functions of their arguments in the deductive part (Toks, ReSearch, ...): that '
        "''.join(Toks(line)) is the structure the line started with (A-TOK, the locus of the repaired defect F12b) and what the regular expressions match are "
        'decided only within the bounds of C20.bounded.cli',
        'edit_rules() itself (option plumbing over an untyped dict, file read/write) is not under a functional contract: covered by the frame and the CLI stand-in',
        'the frame does not see writes through aliases of open/shutil or through imported helpers (edit_rules.py imports none of the repository modules)',
    ],
    explanation='Deductive (all grammars, all parameters, regex engine abstracted): edit_length, edit_terminal_set and check_regex each return exactly the concatenation, in order, '
                'of the (rebuilt) lines that pass the declarative filter -- labels A/D/O/K/X count their number, Y counts 4, a total of 0 (Markov) is kept, max_length 0 is unbounded; '
                'every label letter in the terminal set; every regular expression matches the structure. Frame (AST, all paths): the only statements of edit_rules.py that change the file system are open(grammar_file, "w") in edit_rules(), with grammar_file = '
                '<rules_dir>/<rule>/Grammar/grammar.txt, and shutil.copytree in _create_copy (source -> copy); so no other file of a ruleset is touched. '
                'Bounded: filter semantics on the real CLI. Known finding F12 (context-sensitive segments counted as one character).',
)
