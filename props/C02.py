"""C02 -- every pre-terminal of the grammar is emitted exactly once."""
from pyvc.runner import Prop, Bounded, script_replay
from pyvc import effects
import contracts.guesser_core as gc
import contracts.guesser_lemmas as gl
import contracts.guesser_loader as gld
import contracts.guesser_session as gs

M = gc.MOD + ':PcfgGrammar.'
Q = gc.PQ + ':'

PROP = Prop(
    'C02', 'Every pre-terminal of the grammar is emitted exactly once',
    functions=[M + '_find_prob', M + '_are_you_my_child', M + 'find_children', M + 'initalize_base_structures',
               Q + 'PcfgQueue.insert_queue', Q + 'PcfgQueue.next',
               # every line of grammar.txt is one derivation: the loader keeps all of them, in order (also a structure listed twice)
               (gld.GIO + ':_load_base_structures', gs.install)],
    lemmas=lambda: gl.all_c02_lemmas() + gld.firstm_stable.lemmas(),
    effects=effects.state_frame_for('C02', ['lib_guesser/pcfg_grammar.py', 'lib_guesser/priority_queue.py', 'lib_guesser/grammar_io.py']),
    level='proof',
    replay=script_replay('replay/guesser.py'),
    bounded=[Bounded('C02.bounded.loader_base', 'replay/loader.py', args=['--fn', '_load_base_structures'],
                     bound='grammar.txt files of 1-6 lines incl. the same structure listed twice, M line first/middle/last/absent, both skip_brute values',
                     clause='cross-check: the loaded base structures are exactly the lines of the file, duplicates included'),
             Bounded('C02.bounded.run', 'replay/guesser.py', args=['--fn', 'RUN'],
                     bound='60 random rulesets (1-3 base structures incl. duplicates, repeated variable types, tie-rich dyadic probabilities), run to exhaustion',
                     clause='cross-check on the real classes: the emitted multiset equals the set of derivations (exactly once), children pushed == adopted children')],
    assumptions=[
        'A-FP (only the order embedding of floats is used here: ties are exact equalities of values)',
        'lists are values (no aliasing between child/new_parent copies and the parent pt)',
    ],
    explanation='find_children returns exactly the children the calling parent adopts (C02.find_children.exact), '
                '_are_you_my_child decides Adopt exactly, every non-root node has exactly one adopting parent '
                '(adopt_unique.unique / .adopts, for arbitrary probabilities incl. ties and repeated types), and '
                'next() pushes exactly those children (heap_step).',
)
