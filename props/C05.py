"""C05 -- training segments every password into a lossless, soundly typed tiling."""
from pyvc.runner import Prop, Bounded, script_replay
import contracts.trainer_detect as td

DR = td.DR
FUNCS = [DR + 'digit_detection:detect_digits', DR + 'digit_detection:digit_detection',
         DR + 'year_detection:detect_year', DR + 'year_detection:year_detection',
         DR + 'context_sensitive_detection:detect_context_sensitive', DR + 'context_sensitive_detection:context_sensitive_detection',
         DR + 'email_detection:detect_email', DR + 'email_detection:email_detection',
         DR + 'website_detection:detect_website', DR + 'website_detection:website_detection',
         DR + 'alpha_detection:detect_alpha', DR + 'other_detection:other_detection',
         td.BS + ':base_structure_creation', td.PP + '._update_counter_len_indexed', td.PP + '.parse']


def lemmas():
    out = []
    for s in (td.d_first_stable, td.d_end_stable, td.a_first_stable, td.a_end_stable):
        out.extend(s.lemmas())
    return out


def replay(rec, repo, seed):
    fn = (rec.get('fn') or '').partition(':')[2]
    which = 'PIPELINE'
    return script_replay('replay/trainer.py', default_fn=which)({'fn': ':' + which}, repo, seed)


PID = 'C05'

MW_READS = [('lib_trainer/detection_rules/alpha_detection.py', 'alpha_detection', ['multiword_detector']),
            ('lib_trainer/detection_rules/alpha_detection.py', 'detect_alpha', ['multiword_detector']),
            ('lib_trainer/detection_rules/multiword_detector.py', 'MultiWordDetector.parse'),
            ('lib_trainer/detection_rules/multiword_detector.py', 'MultiWordDetector._identify_multi'),
            ('lib_trainer/detection_rules/multiword_detector.py', 'MultiWordDetector._get_count')]


def detector_frame(repo):
    """segmenting a password only reads the trained multi-word detector (no cache or counter of it is updated): the segmentation of a password does not
    depend on which passwords were segmented before"""
    from pyvc import effects as _eff
    recs = _eff.readonly_frame(repo, MW_READS, tag='detector.readonly', immutable_params=('section', 'alpha_string'))
    for r in recs:
        r['name'] = '%s.' % PID + r['name']
    return recs


PROP = Prop(
    'C05', 'Training segments every password into a lossless, soundly typed tiling',
    functions=FUNCS,
    lemmas=lemmas,
    setup=td.install,
    effects=detector_frame,
    level='other',
    replay=replay,
    bounded=[
        Bounded('C05.bounded.pipeline', 'replay/trainer.py', args=['--fn', 'PIPELINE'],
                bound='all strings over a 20-symbol trigger alphabet (letters, digits, @ . < # space, U+0130) up to length 3, over 12 symbols up to '
                      'length 4 (5 thorough), plus 39 curated passwords; multi-word detector trained on 16 words',
                clause='the list-level loop of alpha_detection and the whole pipeline: lossless tiling, no empty/unlabelled segment, true lengths, '
                       'label soundness, counters == tallies'),
        Bounded('C05.bounded.keyboard', 'replay/trainer.py', args=['--fn', 'KEYBOARD'],
                bound='all strings over 12 keys spanning rows 1-4 (incl. shifted) up to length 4, over 8 keys up to length 5 (6 thorough)',
                clause='detect_keyboard_walk: tiling; every K segment has >= 4 keys, every consecutive pair adjacent on one common layout '
                       '(independent copy of the qwerty/jcuken layouts), >= 2 character classes'),
        Bounded('C05.bounded.multiword', 'replay/trainer.py', args=['--fn', 'MULTIWORD'],
                bound='all strings over {a,b,w} up to length 8 on a detector trained on 16 words (threshold 2); two training histories (min_len 4 and 2, threshold 5) with '
                      'digit- / symbol-separated short letter runs, non-ASCII letters and passwords outside the length window',
                clause='MultiWordDetector.parse/_identify_multi/_get_count: parts concatenate to the input; split only if the whole is below the '
                       'threshold and every part at or above it; train(): the count of a word == the number of training passwords (inside the length window) '
                       'in which it is a maximal letter run of at least min_len letters (independent tally)'),
        Bounded('C05.bounded.lower', 'replay/trainer.py', args=['--fn', 'LOWER'],
                bound='all 1 112 064 code points (exhaustive)',
                clause='lower_keep_length keeps the length and lower-cases character by character (character-table lemma)'),
    ],
    assumptions=[
        'strings: uninterpreted sort with slice/concat/length/character axioms (DESIGN 3.3); str.lower() has NO length axiom -- detect_alpha states '
        'len(lower(s)) == len(s) as a precondition (false only for U+0130, where the letter run ends at that character)',
        'definitional axioms of the spec functions Year19/Year20/FirstOcc_* (least index with a property) are assumed for the actual argument',
        'MultiWordDetector.parse, detect_keyboard_walk and the list-level loop of alpha_detection are trusted in the deductive part and carried '
        'by the bounded stand-ins above',
        'ghost statements: after `section_list[index:index] = parsing` the ghost cut-point list $offs receives the cut points of the inserted parts',
        'neither termination nor the blacklist heuristics of the keyboard detector are verified',
    ],
    explanation='Deductive, all strings: each detect_* returns the section unchanged or 1-3 parts that tile it, carving exactly the first maximal '
                'digit / letter run, the first valid 19xx/20xx year, the first occurrence of a listed context string, an e-mail prefix or a website '
                "interval, with the label stating the true length; each *_detection loop keeps the invariant 'the section list tiles the password' "
                '(ghost cut points), other_detection leaves nothing unlabelled, base_structure_creation never raises and marks E/W structures '
                'unsupported, _update_counter_len_indexed and parse tally exactly the found lists. Bounded: keyboard walks, multi-word splitting, '
                "alpha_detection's list loop and the end-to-end pipeline.",
)
