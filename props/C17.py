"""C17 -- PRINCE-LING emits the ruleset's words most-probable-first, up to the size asked."""
from pyvc.runner import Prop, Bounded, script_replay
from pyvc import effects
import contracts.guesser_core as gc
import contracts.guesser_expand as ge
import contracts.guesser_session as gs
import contracts.guesser_prince as gp
import contracts.guesser_lemmas as gl
import contracts.guesser_loader as gld

M = gc.MOD + ':PcfgGrammar.'
Q = gc.PQ + ':'

PROP = Prop(
    'C17', "PRINCE-LING emits the ruleset's words most-probable-first, up to the size asked",
    functions=[gp.WG + ':create_prince_wordlist', M + 'write_guess_to_file', M + 'save_to_file', M + 'print_guess',
               M + 'create_guesses', M + '_recursive_guesses', Q + 'PcfgQueue.next', Q + 'PcfgQueue.__init__',
               gp.PM + ':prince_evaluation',
               # 'each (type, value, capitalisation) once', most probable first: the adoption rule and the queue step (C01/C02's functions)
               M + '_find_prob', M + '_are_you_my_child', M + 'find_children', M + 'initalize_base_structures', Q + 'PcfgQueue.insert_queue',
               # '(type, value, capitalisation)': the mask variable C<n> inserted after every alpha variable A<n> carries the same n
               (gld.GIO + ':_load_base_structures', gs.install)],
    lemmas=lambda: gld.firstm_stable.lemmas() + gl.queue_step.lemmas() + gs.flat_ext.lemmas() + ge.catvals_split.lemmas() + gl.all_c01_lemmas() + gl.all_c02_lemmas(),
    setup=gp.install,
    effects=effects.state_frame_for('C17', ['lib_guesser/pcfg_grammar.py', 'lib_guesser/priority_queue.py', 'lib_guesser/grammar_io.py', 'lib_princeling/wordlist_generation.py']),
    level='other',
    replay=script_replay('replay/cli.py', default_fn='C17'),
    bounded=[Bounded('C17.bounded.run', 'replay/guesser.py', args=['--fn', 'RUN'],
                     bound='60 random rulesets run to exhaustion',
                     clause='cross-check: every pre-terminal is handed out exactly once, the last ones included, in non-increasing order'),
             Bounded('C17.bounded.loader_base', 'replay/loader.py', args=['--fn', '_load_base_structures'],
                     bound='grammar.txt files of 1-6 lines incl. alpha variables of two-digit length',
                     clause='cross-check: C<n> follows every A<n> with the same n'),
             Bounded('C17.bounded.cli', 'replay/cli.py', args=['--fn', 'C17'],
                     bound="Rules/Default 'Prince' grammar; sizes {1, 9, 5001, 5002, 5003} (5001-5003 fall inside a group of equally probable words); "
                           'thorough adds 5 sizes and --all_lower; one run with -o compared with stdout',
                     clause='the real prince_ling.py writes exactly the first N words of a longer run; the file equals the stdout list')],
    assumptions=[
        "order and exactly-once of the pre-terminals are C01/C02 instantiated with base_structure_folder='Prince' (PcfgQueue.next's contract)",
        'A-WFX (popped pre-terminals satisfy the expansion preconditions) assumed; no keyboard thread in PRINCE-LING ($quit = False)',
        'prince_ling.main and its parse_command_line are not under contract (argument plumbing), covered by the CLI stand-in',
        'the rebinding self.print_guess = self.write_guess_to_file is checked structurally; calls through the rebound attribute are resolved statically '
        'to print_guess in the proofs of _recursive_guesses (both append exactly one line with the same text)',
    ],
    explanation='Deductive: create_prince_wordlist writes at most --size words and they are the first N of the unbounded stream of expansions '
                '(loop invariant over the log of popped pre-terminals; the remaining count is passed as the limit); write_guess_to_file appends '
                'guess+LF; save_to_file redirects the single output point only when a filename is given; prince_evaluation tallies every label once. '
                'Bounded: the real CLI around a group boundary and file-vs-stdout.',
)
