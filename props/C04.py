"""C04 -- a pre-terminal expands to exactly the product of its terminal groups."""
from pyvc.runner import Prop, Bounded, script_replay
import contracts.guesser_core as gc
import contracts.guesser_expand as ge
import contracts.guesser_loader as gld
import contracts.omen_loader as oml

M = gc.MOD + ':PcfgGrammar.'

PROP = Prop(
    'C04', 'A pre-terminal expands to exactly the product of its terminal groups',
    functions=[M + 'print_guess', M + '_recursive_guesses', M + 'omen_generate_guesses', M + 'create_guesses',
               # 'all values that share a group have the same probability in the ruleset': the loader groups only equal probabilities
               (gld.GIO + ':_load_from_file', gld.install_reader),
               # 'a Markov pre-terminal expands to exactly the strings of its OMEN level': the model the generator works on is the one in the files
               (oml.IO + ':_load_ngrams#ip', None), (oml.IO + ':_load_ngrams#cp', None), (oml.IO + ':_load_length', None)],
    lemmas=lambda: ge.catvals_split.lemmas() + gld.groups_desc.lemmas() + oml.lemmas(),
    setup=ge.install,
    level='proof',
    replay=script_replay('replay/expand.py', default_fn='PcfgGrammar._recursive_guesses'),
    bounded=[Bounded('C04.bounded.enum', 'replay/omen.py', args=['--fn', 'ENUM'],
                     bound='250 random OMEN models quick / 1500 thorough, every level 0..24 in shuffled order with one shared cache',
                     clause='the Markov clause of the statement on the real generator (same stand-in as C10.bounded.enum)'),
             Bounded('C04.bounded.expand', 'replay/expand.py', args=['--fn', 'PcfgGrammar._recursive_guesses'],
                     bound='random small rulesets (groups of 1-3 values, masks of any U/L pattern, adjacent alpha words, non-ASCII values), every pre-terminal',
                     clause='cross-check on the real class: lines written == independent product enumeration, count == lines'),
             Bounded('C04.bounded.loader_groups', 'replay/loader.py', args=['--fn', '_load_from_file'],
                     bound='terminal files of 1-9 rows with equal / 1 ulp / 1e-12 / 4e-10 apart / halved probabilities',
                     clause='cross-check: groups are the maximal runs of exactly equal probabilities')],
    assumptions=[
        'stdout can encode every ruleset value and its consumer keeps reading (the two except branches of print_guess)',
        "a Markov pre-terminal's strings are OmenSeq(grammar, level): contract of MarkovCracker assumed here, decided by C10",
        'WF for expansion (requires): every C<n> group holds masks of one length n >= 1 and follows a group whose values have '
        '>= n characters; a Markov variable is alone in its pre-terminal and carries an integer level',
        "''.join is an uninterpreted function of the list it is given (the masked tail is specified per character: "
        "original character at L, str.upper() of it otherwise)",
        'all values that share a group share its probability by construction of the loaded data structure '
        '(one prob per group record); the loader groups only consecutive lines of exactly equal probability (_load_from_file under contract here)',
    ],
    explanation='_recursive_guesses writes exactly Expand(cur, pt) (every combination once, in structure order, masks applied '
                'to the tail built so far) and returns the number of lines written; the Markov branch writes the strings '
                'of its level via omen_generate_guesses whose loop invariant ties the count to the lines written.',
)
