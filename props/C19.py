"""C19 -- equivalent encodings of a training list train the same grammar."""
from pyvc.runner import Prop, Bounded, script_replay
import contracts.trainer_detect as td
import contracts.trainer_io as tio
import contracts.trainer_run as tr


def install(eng):
    td.install(eng)
    tio.install(eng)


def replay(rec, repo, seed):
    return script_replay('replay/train.py', default_fn='C19')({'fn': ':C19'}, repo, seed)


PROP = Prop(
    'C19', 'Equivalent encodings of a training list train the same grammar',
    functions=[tio.TFI + ':check_valid', tio.TFIC + '.read_password#generator', tr.RT + ':run_trainer'],
    setup=install,
    level='other',
    replay=replay,
    bounded=[Bounded('C19.bounded.files', 'replay/train.py', args=['--fn', 'C19'],
                     bound='one utf-8 list of 60 lines incl. a 2500-character password whose $HEX[] line exceeds 5000 characters (quick) + cp1251 and latin-1 lists (thorough); forms: plain, every second line as $HEX[], '
                           'count-prefixed with --prefixcount, plain with blank/TAB/undecodable junk lines; literal "$HEX[" look-alike, leading/trailing/inner spaces',
                     clause='C19.equiv: the $HEX[] and count-prefixed forms train rulesets byte-identical (modulo uuid, file name, error counter) to the plain '
                            'repeated lines; junk lines do not abort training nor change the ruleset')],
    assumptions=[
        "string builtins (rstrip('\\r\\n'), lstrip, split(' '), ' '.join, bytes.fromhex, decode, encode) are uninterpreted functions: the identities "
        "' '.join(s.split(' ')[1:]) == rest and decode(fromhex(hex(encode(p)))) == p that make $HEX[] / count prefixes equivalent to the plain form "
        'are carried by the bounded stand-in',
        'domain: a numeric count prefix is >= 0 (a negative count is not a count); the generator is modelled by the list it yields',
        'TrainerFileInput.__init__ and the passes of run_trainer use trusted contracts (PasswordsOf(file, encoding, prefixcount))',
    ],
    explanation='Deductive: read_password lets no exception escape for any line content (undecodable bytes, bad hex, bad count, invalid characters), '
                'yields only passwords accepted by check_valid, and advances num_passwords by exactly the number of passwords yielded; run_trainer builds '
                'its three TrainerFileInput objects from identical arguments and uses the pass-1 count as N everywhere. '
                'Bounded: the actual equivalence of the three textual forms on real files.',
)
