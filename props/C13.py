"""C13 -- a non-zero score is a promise the guesser keeps."""
from pyvc.runner import Prop, Bounded, script_replay
from pyvc import effects
import contracts.omen_level as ol
import contracts.scorer as sc
import contracts.omen_loader as oml
import contracts.guesser_loader as gld

A = 'lib_trainer/detection_rules/alpha_detection.py'
MW = 'lib_trainer/detection_rules/multiword_detector.py'
READS = [('lib_scorer/pcfg_password_scorer.py', 'PCFGPasswordScorer.parse'), ('lib_scorer/omen_scorer.py', 'OmenScorer.parse'),
         (A, 'alpha_detection', ['multiword_detector']), (A, 'detect_alpha', ['multiword_detector']),
         (MW, 'MultiWordDetector.parse'), (MW, 'MultiWordDetector._identify_multi'), (MW, 'MultiWordDetector._get_count')]


def score_frame(repo):
    """scoring only reads the scorer (grammar tables, multi-word detector, OMEN tables): the score depends only on the string and the ruleset"""
    recs = effects.readonly_frame(repo, READS, tag='score.readonly', immutable_params=('password', 'section', 'alpha_string'))
    for r in recs:
        r['name'] = 'C13.' + r['name']
    return recs


PROP = Prop(
    'C13', 'A non-zero score is a promise the guesser keeps',
    functions=[ol.SC + '.parse', (sc.PS + '.parse', sc.install),
               # the tables the score is computed from are the ruleset's files: every value with the probability of its line; OMEN levels
               (oml.SGIO + ':_load_from_file', gld.install_reader), (oml.SC + '._load_omen', None)],
    lemmas=lambda: ol.oks_mono.lemmas(),
    effects=effects.combine(score_frame, effects.state_frame_for('C13', ['lib_scorer/pcfg_password_scorer.py', 'lib_scorer/omen_scorer.py', 'lib_scorer/grammar_io.py', 'lib_trainer/detection_rules/multiword_detector.py'])),
    level='other',
    replay=script_replay('replay/score.py', default_fn='C13'),
    bounded=[Bounded('C13.bounded.score', 'replay/score.py', args=['--fn', 'C13'],
                     bound='two rulesets trained by the real trainer (ASCII list of 37 passwords; list of 26 passwords with Cyrillic, Latin-1, special-casing letters, spaces, non-BMP); '
                           'about 1400 candidates: training passwords, 150 sampled guesses, 9 perturbations of each (case, digits, symbols, deletion, doubling), '
                           'e-mail / website / unrelated strings; the guesser side is the real PcfgQueue + create_guesses run to exhaustion (non-Markov pre-terminals)',
                     clause='score p > 0 => the exact string is emitted by the guesser from a pre-terminal of probability p (relative 1e-9); e-mail / website => probability 0; '
                            'scoring twice and with a freshly loaded scorer gives the same result')],
    assumptions=[
        'that the segments and the structure the scorer multiplies are a pre-terminal the guesser emits with the same product (same tables after loading, '
        'same segmentation) is decided only within the bounds of C13.bounded.score; the detectors are the trainer\'s (contracts discharged under C05; keyboard walks, '
        'multi-word splitting and the list loop of alpha_detection trusted)',
        'the read-only frame tracks local aliases flow-insensitively and is closed under the calls listed; the detector functions update only their own section list',
    ],
    explanation='Deductive: PCFGPasswordScorer.parse classifies an input in which the e-mail (else the website) detector finds something as e (w) with probability 0, gives an '
                'unsupported structure 0, returns as score either 0 or exactly the left-to-right product of the table entries of every detected segment and of the base structure '
                '(0 as soon as one is missing or a letter cannot be rebuilt by the guesser), gives category p only to a score above the limit or an OMEN level within the maximum, and updates no field of the scorer. '
                'OmenScorer.parse returns the level sum or -1 (C11.scorer) and, by the frame obligations C13.score.readonly.frame.* (AST, all paths), neither it nor '
                'PCFGPasswordScorer.parse nor the multi-word detector they consult update the scorer, so a score is a function of the string and the loaded ruleset. '
                'Bounded: non-zero scores against the real guesser. A letter the guesser cannot rebuild from its lower-case form and the mask forces the score to 0 (defect F15, repaired).',
)
