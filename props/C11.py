"""C11 -- trainer, scorer and guesser agree on every string's OMEN level."""
from pyvc.runner import Prop, Bounded, script_replay
import contracts.omen_level as ol
import contracts.omen_loader as oml

PROP = Prop(
    'C11', "Trainer, scorer and guesser agree on every string's OMEN level",
    functions=[ol.EV + ':find_omen_level', ol.SC + '.parse', oml.IO + ':_load_ngrams#ip', oml.IO + ':_load_ngrams#cp', oml.SC + '._load_omen', oml.IO + ':_load_length',
               # the n-gram size the guesser works with is the one the trainer saved
               (oml.IO + ':_load_config', oml.install_config), (oml.OFO + ':_save_config', oml.install_config),
               # the trainer writes one IP.level line per table entry and one CP.level line per transition (statement slices of save_omen_rules_to_disk)
               (oml.OFO + ':save_omen_rules_to_disk#ip_writer', oml.install_writer), (oml.OFO + ':save_omen_rules_to_disk#cp_writer', oml.install_writer)],
    lemmas=lambda: ol.agree_lemmas() + oml.lemmas(),
    level='other',
    replay=script_replay('replay/omen.py', default_fn='TRIPLE'),
    bounded=[Bounded('C11.bounded.triple', 'replay/omen.py', args=['--fn', 'TRIPLE'],
                     bound='trained rulesets (n-gram 2..5, alphabet 10..100) from small password lists; candidates = training passwords, up to 400 strings '
                           'emitted by the real MarkovCracker at levels 0..6, and boundary strings (shorter than / equal to the n-gram, longer than the maximum, '
                           'out-of-alphabet characters)',
                     clause='find_omen_level(trainer, s) == OmenScorer.parse(s) == the level at which MarkovCracker emits s (or all three say it cannot be generated), '
                            'through the real file writers and readers'),
             Bounded('C11.bounded.enum', 'replay/omen.py', args=['--fn', 'ENUM'],
                     bound='250 random OMEN models quick / 1500 thorough, every level 0..24 in shuffled order with one shared cache',
                     clause='the guesser side of the agreement: the level at which the real MarkovCracker emits a string is the sum of its length, initial n-gram and '
                            'transition levels (same stand-in as C10.bounded.enum)')],
    assumptions=[
        'strings are an uninterpreted sort with length/char/slice axioms; dict lookups raise KeyError exactly on absent keys',
        'table correspondence: the IP / CP writers (one line per entry: level TAB n-gram LF) and the guesser\'s and the scorer\'s IP / CP / LN readers are under contract, '
        'each against the file as a list of lines or written chunks; that reading a line written as a + TAB + b + LF yields the fields a and b (split / rstrip / int / str identities, '
        'A-CODEC) is not proved but exercised by the bounded stand-in; the EP / LN writers, the config file and the smoothing formulas are not under contract',
    ],
    explanation='Deductive (all strings, all tables): find_omen_level and OmenScorer.parse each return ln + ip + the sum of the transition levels of every n-gram, '
                'and -1 exactly when the length is out of range or an n-gram is absent (recursive spec functions SumT/OkT, SumS/OkS); lemma level_agree: '
                'with corresponding tables the two sums and presence predicates coincide. The tables: the trainer writes one IP.level line per entry and one CP.level line per transition; '
                'the guesser loads exactly the n-grams of those files grouped by level (and prefix), the scorer maps every listed n-gram to its level. Bounded: the three real components through the real files.',
)
