"""C14 -- skip_brute and all_lower are pure restrictions of the default run."""
from pyvc.runner import Prop, Bounded, script_replay
from pyvc import effects
import contracts.guesser_core as gc
import contracts.guesser_loader as gld
import contracts.guesser_session as gs
import contracts.guesser_main as gm
import contracts.guesser_expand as ge


def replay(rec, repo, seed):
    fn = rec.get('fn') or ''
    if 'pcfg_guesser' in fn:
        return script_replay('replay/cli.py', default_fn='C14')({'fn': ':C14'}, repo, seed)
    return script_replay('replay/loader.py', default_fn='_load_base_structures')(rec, repo, seed)


PROP = Prop(
    'C14', 'skip_brute and all_lower are pure restrictions of the default run',
    functions=[gld.GIO + ':_load_base_structures', 'pcfg_guesser:load_save', 'pcfg_guesser:parse_command_line', 'pcfg_guesser:main',
               # every loaded base structure seeds the queue (a renormalised probability may round to just above 1)
               (gc.MOD + ':PcfgGrammar.initalize_base_structures', None)],
    lemmas=lambda: gld.firstm_stable.lemmas(),
    setup=gs.install,
    effects=effects.state_frame_for('C14', ['lib_guesser/pcfg_grammar.py', 'lib_guesser/priority_queue.py', 'lib_guesser/grammar_io.py', 'pcfg_guesser.py']),
    level='other',
    replay=replay,
    bounded=[
        Bounded('C14.bounded.base', 'replay/loader.py', args=['--fn', '_load_base_structures'],
                bound='grammar.txt files of 1-6 lines, M line first/middle/last/absent/alone; 120 files quick, 1200 thorough',
                clause='C03.bounded.cins: the insertion loop equals "C<n> after every A<n>"; and the whole loader against the declarative spec'),
        Bounded('C14.bounded.skip_case', 'replay/loader.py', args=['--fn', 'skip_case'],
                bound='the rulesets shipped under Rules/ x skip_brute on/off',
                clause='C14.skip_case.post (_load_terminals is not under contract): mask lists collapse to [L*n] with probability 1.0 and no other key changes'),
        Bounded('C14.bounded.cli_flags', 'replay/cli.py', args=['--fn', 'C14'],
                bound='Rules/Default, 1500 guesses, flags {--skip_brute} (quick) + {--all_lower, both} (thorough)',
                clause='a session resumed with --load reproduces the stream of the flags stored in the save file'),
    ],
    assumptions=[
        'file model: open(path) yields the lines fs_lines(path), stable during the call; rstrip/split/float are uninterpreted functions of their argument',
        "requires: every grammar.txt line is '<structure starting with a letter>TAB<float>' (what the trainer writes, C06/C07) and P(M) != 1",
        'A-FP: division by the positive constant 1 - P(M) is monotone, so the order of the remaining pre-terminals is the default order up to ties (C01 decides order from the loaded probabilities)',
        'PcfgGrammar.__init__, create_save_config, print_banner, HoneywordSession are trusted in main(); --debug is out of scope',
        '"in the same order" is read up to permutation of pre-terminals with exactly equal probability (heap order among ties is unspecified by C01)',
    ],
    explanation='Deductive: _load_base_structures returns exactly the selected lines (all, or those without an M token) in file order with '
                'probability float(field)/ (1 - P(M)) -- P(M) = 0 when there is no M line -- followed by the C insertion loop (stated through its '
                'tail-recursive mirror Proc); load_save copies skip_brute/skip_case/rule_name from the file into program_info; main() loads the grammar '
                'with exactly those values when --load is given and starts the session only if the saved uuid matches. '
                'Bounded: loader against the declarative spec, skip_case on shipped rulesets, CLI resume.',
)
