"""C06 -- the saved grammar is the relative-frequency model of the segmentation."""
import z3
from pyvc.runner import Prop, Bounded, script_replay, Lemma
import contracts.trainer_detect as td
import contracts.trainer_io as tio
import contracts.trainer_run as tr


def install(eng):
    td.install(eng)
    tio.install(eng)


def lemmas():
    # C06.calc.post consequences.  (1) sorted: most_common() is non-increasing in the counts and division by the positive total is
    # monotone (A-FP), so the written probabilities are non-increasing.  (2) A-REAL: the probabilities of a list sum to 1.
    out = []
    c = z3.Const('c!l6', tio.COUNTERV.sort())
    i, j = z3.Ints('i!l6 j!l6')
    mc = tio.cv_mc(c)
    tot = tio.total_of(c)
    fv = tio.fv
    cnt = lambda k: tio.PAIR.get(z3.Select(tio.PAIRS.arr(mc), k), 1)
    out.append(Lemma('C06.calc.sorted', [tio.mc_sorted(c), fv(tot) > 0, 0 <= i, i <= j, j < tio.PAIRS.len(mc)],
                     fv(tio.T.fdiv(cnt(j), tot)) <= fv(tio.T.fdiv(cnt(i), tot)),
                     'count/total is non-increasing along Counter.most_common() order'))
    # sum to one in real arithmetic: induction step of  sum_{k<n} c_k * inv == (sum_{k<n} c_k) * inv
    s_k, c_k, inv, acc = z3.Reals('s_k c_k inv acc')
    out.append(Lemma('C06.calc.sum_step', [acc == s_k * inv], acc + c_k * inv == (s_k + c_k) * inv,
                     'A-REAL: partial sums of count_k/total equal (partial sum of counts)/total'))
    T_, = z3.Reals('T_')
    out.append(Lemma('C06.calc.sum_to_one', [T_ > 0, inv * T_ == 1, acc == T_ * inv], acc == 1, 'A-REAL: the whole list sums to total/total = 1'))
    return out


def replay(rec, repo, seed):
    return script_replay('replay/train.py', default_fn='C06')({'fn': ':C06'}, repo, seed)


PROP = Prop(
    'C06', 'The saved grammar is the relative-frequency model of the segmentation',
    functions=[tio.CP + ':calculate_probabilities', tio.SP + ':calculate_and_save_counter', tio.SP + ':save_indexed_counters',
               tr.RT + ':run_trainer', td.BS + ':base_structure_creation', td.PP + '._update_counter_len_indexed'],
    lemmas=lemmas,
    setup=install,
    level='other',
    replay=replay,
    bounded=[Bounded('C06.bounded.train', 'replay/train.py', args=['--fn', 'C06'],
                     bound='2 (quick) / 6 (thorough) generated lists of 40 passwords; coverage in {0, 0.3, 0.6, 1}; PYTHONHASHSEED 1 vs 77',
                     clause='end to end through the real CLI: every list has each item once, sorted, summing to 1; P(M) matches N(1/coverage-1); '
                            'E/W structures only in raw_grammar.txt; byte-identical rulesets across hash seeds (determinism)')],
    assumptions=[
        'collections.Counter: most_common() lists every item once with non-increasing counts; values()/sum() give the total (assumed contract)',
        'A-FP: division by a positive total is monotone; A-REAL for the sum-to-one clause (machine arithmetic treated as mathematical)',
        'counters are abstract values whose keys are represented by their str() form; the file system is a ghost map path -> written chunks',
        'PCFGPasswordParser.parse, the OMEN trainer, save_config_file, save_omen_rules_to_disk and save_pcfg_data are behind trusted contracts inside '
        'run_trainer (parse and base_structure_creation are verified under C05; which counter goes to which folder in save_pcfg_data is '
        'covered by the bounded stand-in)',
        'determinism is carried by the bounded stand-in (no effect checker for set/hash iteration was built)',
    ],
    explanation='Deductive: calculate_probabilities returns every item once in most_common order with count/total; calculate_and_save_counter '
                'truncates the file and writes one line value TAB repr(p) LF per item in that order; save_indexed_counters removes old files and '
                "writes exactly one file per key; run_trainer sets count['M'] = N/coverage - N (untouched for coverage 1, {'M':1} for coverage 0) with N "
                'the pass-1 count; structures with E/W labels are unsupported (base_structure_creation). Lemmas: sortedness, sum to 1 in R.',
)
